// Shared declarations of the verification bridge: an extern "C" facade over the *public C++ API* of
// libawkward (the same API that src/python/*.cpp uses), driven from Python through ctypes.
#ifndef AKB_H_
#define AKB_H_

#include <cstdint>
#include <cstring>
#include <string>
#include <vector>
#include <map>
#include <memory>
#include <stdexcept>

#include "awkward/Content.h"
#include "awkward/Index.h"
#include "awkward/Slice.h"
#include "awkward/type/Type.h"

namespace ak = awkward;

extern "C" {
  struct AkbIndex {
    int64_t dtype;      // 0=int8 1=uint8 2=int32 3=uint32 4=int64
    const void* ptr;    // whole backing buffer (copied by the bridge)
    int64_t total;      // elements in the backing buffer
    int64_t offset;     // Index::offset
    int64_t length;     // Index::length
  };
  struct AkbArgs {
    int64_t ni; const int64_t* i;
    int64_t nd; const double* d;
    int64_t ns; const char* const* s; const int64_t* sl;
    int64_t nh; void* const* h;
    int64_t nx; const AkbIndex* x;
  };
}

struct AkbIndexOut {
  int64_t dtype;
  std::string bytes;
};

struct AkbRes {
  std::vector<int64_t> i;
  std::vector<double> d;
  std::vector<std::string> s;
  std::vector<void*> h;
  std::vector<std::string> hc;
  std::vector<AkbIndexOut> x;
  std::string err_class;
  std::string err_msg;
  void clear() {
    i.clear(); d.clear(); s.clear(); h.clear(); hc.clear(); x.clear();
    err_class.clear(); err_msg.clear();
  }
};

AkbRes& akb_res();    // result record of the bridge call currently executing (calls may nest through callbacks)
AkbRes& akb_last();   // result record of the most recently completed outermost-or-nested call (what Python reads)
struct AkbFrame { AkbFrame(); ~AkbFrame(); };

struct AkbContent { ak::ContentPtr p; };
struct AkbForm { ak::FormPtr p; };
struct AkbType { ak::TypePtr p; };

// helpers shared between bridge translation units
void akb_push_content(const ak::ContentPtr& c);
void akb_push_form(const ak::FormPtr& f);
void akb_push_type(const ak::TypePtr& t);
template <typename T> void akb_push_index(const ak::IndexOf<T>& idx);
ak::ContentPtr akb_content(const AkbArgs* a, int64_t k);
std::string akb_str(const AkbArgs* a, int64_t k);
ak::util::Parameters akb_params(const AkbArgs* a, int64_t from, int64_t npairs);
template <typename T> ak::IndexOf<T> akb_index(const AkbArgs* a, int64_t k);
ak::Slice akb_slice(const AkbArgs* a, int64_t& ipos);

// every entry point is wrapped in this: exceptions -> error record, never swallowed silently
#define AKB_TRY(body)                                                        \
  AkbFrame _akb_frame; AkbRes& R = akb_res(); R.clear();                     \
  try { body; return 0; }                                                    \
  catch (std::invalid_argument& e) { R.err_class = "ValueError"; R.err_msg = e.what(); }       \
  catch (std::out_of_range& e) { R.err_class = "IndexError"; R.err_msg = e.what(); }            \
  catch (std::runtime_error& e) { R.err_class = "RuntimeError"; R.err_msg = e.what(); }        \
  catch (std::bad_alloc& e) { R.err_class = "MemoryError"; R.err_msg = e.what(); }             \
  catch (std::exception& e) { R.err_class = "Exception"; R.err_msg = e.what(); }               \
  return -1;

#endif
