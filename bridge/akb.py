"""ctypes side of the verification bridge (see bridge/akb.h)."""
import ctypes
import os
import sys

import numpy as np

HERE = os.path.dirname(os.path.abspath(__file__))
VERIF = os.path.dirname(HERE)
sys.path.insert(0, os.path.join(VERIF, "tools"))
import build as _build  # noqa: E402


class AkbIndex(ctypes.Structure):
    _fields_ = [("dtype", ctypes.c_int64), ("ptr", ctypes.c_void_p), ("total", ctypes.c_int64),
                ("offset", ctypes.c_int64), ("length", ctypes.c_int64)]


class AkbArgs(ctypes.Structure):
    _fields_ = [("ni", ctypes.c_int64), ("i", ctypes.POINTER(ctypes.c_int64)),
                ("nd", ctypes.c_int64), ("d", ctypes.POINTER(ctypes.c_double)),
                ("ns", ctypes.c_int64), ("s", ctypes.POINTER(ctypes.c_char_p)),
                ("sl", ctypes.POINTER(ctypes.c_int64)),
                ("nh", ctypes.c_int64), ("h", ctypes.POINTER(ctypes.c_void_p)),
                ("nx", ctypes.c_int64), ("x", ctypes.POINTER(AkbIndex))]


IDX_DTYPES = [np.dtype(np.int8), np.dtype(np.uint8), np.dtype(np.int32), np.dtype(np.uint32),
              np.dtype(np.int64)]
IDX_CODE = {d: k for k, d in enumerate(IDX_DTYPES)}


class BridgeError(Exception):
    """An exception raised by libawkward, carried across the bridge with its C++ class."""

    def __init__(self, cls, msg):
        Exception.__init__(self, "%s: %s" % (cls, msg))
        self.cls = cls
        self.msg = msg


class Result(object):
    __slots__ = ("i", "d", "s", "h", "hc", "x")


_lib = None
_info = None


def variant():
    return os.environ.get("AKV_VARIANT", "rel")


def lib():
    global _lib, _info
    if _lib is None:
        v = variant()
        if os.environ.get("AKV_NOBUILD") == "1":
            bdir = _build.build_dir(v)
            _info = {"libawkward": os.path.join(bdir, "libawkward.so"),
                     "libkernels": os.path.join(bdir, "libawkward-cpu-kernels.so"), "dir": bdir}
        else:
            _info = _build.build(v)
            if _info is None:
                sys.stdout.flush()
                os._exit(2)
        L = ctypes.CDLL(_info["libawkward"], mode=ctypes.RTLD_GLOBAL)
        L.akb_make.argtypes = [ctypes.c_char_p, ctypes.POINTER(AkbArgs)]
        L.akb_make.restype = ctypes.c_int
        L.akb_call.argtypes = [ctypes.c_void_p, ctypes.c_char_p, ctypes.POINTER(AkbArgs)]
        L.akb_call.restype = ctypes.c_int
        for name in ("akb_release", "akb_release_form", "akb_release_type"):
            getattr(L, name).argtypes = [ctypes.c_void_p]
            getattr(L, name).restype = None
        L.akb_use_count.argtypes = [ctypes.c_void_p]
        L.akb_use_count.restype = ctypes.c_int64
        L.akb_err_class.restype = ctypes.c_char_p
        L.akb_err_msg.restype = ctypes.c_char_p
        for name in ("akb_res_ni", "akb_res_nd", "akb_res_ns", "akb_res_nh", "akb_res_nx"):
            getattr(L, name).restype = ctypes.c_int64
        L.akb_res_ints.argtypes = [ctypes.c_void_p]
        L.akb_res_doubles.argtypes = [ctypes.c_void_p]
        for name in ("akb_res_slen", "akb_res_xdtype", "akb_res_xlen"):
            getattr(L, name).argtypes = [ctypes.c_int64]
            getattr(L, name).restype = ctypes.c_int64
        for name in ("akb_res_sptr", "akb_res_xptr", "akb_res_h"):
            getattr(L, name).argtypes = [ctypes.c_int64]
            getattr(L, name).restype = ctypes.c_void_p
        L.akb_res_hc.argtypes = [ctypes.c_int64]
        L.akb_res_hc.restype = ctypes.c_char_p
        L.akb_heap_churn.argtypes = [ctypes.c_int64, ctypes.c_int64]
        L.akb_heap_churn.restype = None
        _lib = L
    return _lib


def info():
    lib()
    return _info


def pack(ints=(), doubles=(), strs=(), handles=(), indexes=()):
    """Build an AkbArgs; returns (args, keepalive)."""
    a = AkbArgs()
    keep = []
    n = len(ints)
    a.ni = n
    if n:
        arr = (ctypes.c_int64 * n)(*ints)
        keep.append(arr)
        a.i = arr
    n = len(doubles)
    a.nd = n
    if n:
        arr = (ctypes.c_double * n)(*doubles)
        keep.append(arr)
        a.d = arr
    n = len(strs)
    a.ns = n
    if n:
        bs = [s if isinstance(s, bytes) else s.encode("utf-8", "surrogateescape") for s in strs]
        arr = (ctypes.c_char_p * n)(*bs)
        lens = (ctypes.c_int64 * n)(*[len(b) for b in bs])
        keep.extend((bs, arr, lens))
        a.s = arr
        a.sl = lens
    n = len(handles)
    a.nh = n
    if n:
        arr = (ctypes.c_void_p * n)(*handles)
        keep.append(arr)
        a.h = arr
    n = len(indexes)
    a.nx = n
    if n:
        arr = (AkbIndex * n)()
        for k, (buf, offset, length) in enumerate(indexes):
            # buf: contiguous 1-d numpy array (the whole backing buffer)
            x = arr[k]
            x.dtype = IDX_CODE[buf.dtype]
            x.ptr = buf.ctypes.data
            x.total = buf.shape[0]
            x.offset = offset
            x.length = length
            keep.append(buf)
        keep.append(arr)
        a.x = arr
    return a, keep


def _collect():
    L = _lib
    r = Result()
    n = L.akb_res_ni()
    if n:
        arr = np.empty(n, dtype=np.int64)
        L.akb_res_ints(arr.ctypes.data)
        r.i = arr.tolist()
    else:
        r.i = []
    n = L.akb_res_nd()
    if n:
        arr = np.empty(n, dtype=np.float64)
        L.akb_res_doubles(arr.ctypes.data)
        r.d = arr.tolist()
    else:
        r.d = []
    r.s = [ctypes.string_at(L.akb_res_sptr(k), L.akb_res_slen(k)) for k in range(L.akb_res_ns())]
    n = L.akb_res_nh()
    r.h = [L.akb_res_h(k) for k in range(n)]
    r.hc = [L.akb_res_hc(k).decode() for k in range(n)]
    xs = []
    for k in range(L.akb_res_nx()):
        nb = L.akb_res_xlen(k)
        raw = ctypes.string_at(L.akb_res_xptr(k), nb) if nb else b""
        xs.append(np.frombuffer(raw, dtype=IDX_DTYPES[L.akb_res_xdtype(k)]).copy())
    r.x = xs
    return r


def _raise():
    L = _lib
    raise BridgeError(L.akb_err_class().decode(), L.akb_err_msg().decode("utf-8", "replace"))


def make(cls, ints=(), doubles=(), strs=(), handles=(), indexes=()):
    L = lib()
    a, keep = pack(ints, doubles, strs, handles, indexes)
    if L.akb_make(cls.encode(), ctypes.byref(a)) != 0:
        _raise()
    return _collect()


def call(h, method, ints=(), doubles=(), strs=(), handles=(), indexes=()):
    L = lib()
    a, keep = pack(ints, doubles, strs, handles, indexes)
    if L.akb_call(h, method, ctypes.byref(a)) != 0:
        _raise()
    return _collect()
