// Verification bridge, part 3: ArrayBuilder (the same public methods that src/python/content.cpp binds).
#include "akb.h"

#include <complex>

#include "awkward/builder/ArrayBuilder.h"
#include "awkward/builder/ArrayBuilderOptions.h"

struct AkbBuilder { std::shared_ptr<ak::ArrayBuilder> p; };

static void call_builder(ak::ArrayBuilder& b, const std::string& m, const AkbArgs* a) {
  AkbRes& R = akb_res();
  if (m == "length") { R.i.push_back(b.length()); return; }
  if (m == "clear") { b.clear(); return; }
  if (m == "tostring") { R.s.push_back(b.tostring()); return; }
  if (m == "type") {
    ak::util::TypeStrs ts; for (int64_t k = 0; k + 1 < a->ns; k += 2) ts[akb_str(a, k)] = akb_str(a, k + 1);
    akb_push_type(b.type(ts)); return;
  }
  if (m == "typestr") { R.s.push_back(b.type(ak::util::TypeStrs())->tostring()); return; }
  if (m == "snapshot") { akb_push_content(b.snapshot()); return; }
  if (m == "null") { b.null(); return; }
  if (m == "boolean") { b.boolean(a->i[0] != 0); return; }
  if (m == "integer") { b.integer(a->i[0]); return; }
  if (m == "real") { b.real(a->d[0]); return; }
  if (m == "complex") { b.complex(std::complex<double>(a->d[0], a->d[1])); return; }
  if (m == "datetime") { b.datetime(a->i[0], akb_str(a, 0)); return; }
  if (m == "timedelta") { b.timedelta(a->i[0], akb_str(a, 0)); return; }
  if (m == "bytestring") { b.bytestring(akb_str(a, 0)); return; }
  if (m == "string") { b.string(akb_str(a, 0)); return; }
  if (m == "beginlist") { b.beginlist(); return; }
  if (m == "endlist") { b.endlist(); return; }
  if (m == "begintuple") { b.begintuple(a->i[0]); return; }
  if (m == "index") { b.index(a->i[0]); return; }
  if (m == "endtuple") { b.endtuple(); return; }
  if (m == "beginrecord") { b.beginrecord(); return; }
  if (m == "beginrecord_check") { b.beginrecord_check(akb_str(a, 0)); return; }
  if (m == "field_check") { b.field_check(akb_str(a, 0)); return; }
  if (m == "endrecord") { b.endrecord(); return; }
  if (m == "append") { b.append(akb_content(a, 0), a->i[0]); return; }
  if (m == "extend") { b.extend(akb_content(a, 0)); return; }
  throw std::runtime_error(std::string("bridge: no builder method ") + m);
}

extern "C" {

void* akb_builder_new(int64_t initial, double resize) {
  return new AkbBuilder{std::make_shared<ak::ArrayBuilder>(ak::ArrayBuilderOptions(initial, resize))};
}
void akb_builder_free(void* h) { delete reinterpret_cast<AkbBuilder*>(h); }
// address of the C++ ArrayBuilder itself (what the extern "C" awkward_ArrayBuilder_* functions expect)
void* akb_builder_rawptr(void* h) { return reinterpret_cast<AkbBuilder*>(h)->p.get(); }

int akb_builder_call(void* h, const char* method, const AkbArgs* a) {
  AKB_TRY( call_builder(*reinterpret_cast<AkbBuilder*>(h)->p, method, a) )
}

}  // extern "C"
