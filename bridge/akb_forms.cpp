// Verification bridge, part 2: Form and Type objects.
#include "akb.h"

#include "awkward/type/ArrayType.h"
#include "awkward/type/ListType.h"
#include "awkward/type/OptionType.h"
#include "awkward/type/PrimitiveType.h"
#include "awkward/type/RecordType.h"
#include "awkward/type/RegularType.h"
#include "awkward/type/UnionType.h"
#include "awkward/type/UnknownType.h"

static ak::TypePtr type_arg(const AkbArgs* a, int64_t k) {
  if (k < 0 || k >= a->nh || a->h[k] == nullptr) throw std::runtime_error("bridge: type handle argument missing");
  return reinterpret_cast<AkbType*>(a->h[k])->p;
}
static ak::FormPtr form_arg(const AkbArgs* a, int64_t k) {
  if (k < 0 || k >= a->nh || a->h[k] == nullptr) throw std::runtime_error("bridge: form handle argument missing");
  return reinterpret_cast<AkbForm*>(a->h[k])->p;
}

static void push_type_params(const ak::util::Parameters& params) {
  AkbRes& R = akb_res();
  R.i.push_back((int64_t)params.size());
  for (auto pair : params) { R.s.push_back(pair.first); R.s.push_back(pair.second); }
}

// i[0] = P parameter pairs, i[1] = has_typestr; s[0..2P) params; s[2P] typestr; then kind specific
static ak::TypePtr make_type(const std::string& kind, const AkbArgs* a) {
  int64_t P = a->i[0];
  ak::util::Parameters params = akb_params(a, 0, P);
  std::string typestr = a->i[1] ? akb_str(a, 2 * P) : std::string();
  int64_t S = 2 * P + 1;
  if (kind == "ArrayType") return std::make_shared<ak::ArrayType>(params, typestr, type_arg(a, 0), a->i[2]);
  if (kind == "ListType") return std::make_shared<ak::ListType>(params, typestr, type_arg(a, 0));
  if (kind == "OptionType") return std::make_shared<ak::OptionType>(params, typestr, type_arg(a, 0));
  if (kind == "RegularType") return std::make_shared<ak::RegularType>(params, typestr, type_arg(a, 0), a->i[2]);
  if (kind == "UnknownType") return std::make_shared<ak::UnknownType>(params, typestr);
  if (kind == "PrimitiveType") {
    std::string name = akb_str(a, S);
    ak::util::dtype dt = ak::util::name_to_dtype(name);
    if (dt == ak::util::dtype::NOT_PRIMITIVE) throw std::invalid_argument(std::string("unrecognized primitive type: ") + name);
    return std::make_shared<ak::PrimitiveType>(params, typestr, dt);
  }
  if (kind == "UnionType") {
    std::vector<ak::TypePtr> types;
    for (int64_t k = 0; k < a->nh; k++) types.push_back(type_arg(a, k));
    return std::make_shared<ak::UnionType>(params, typestr, types);
  }
  if (kind == "RecordType") {
    std::vector<ak::TypePtr> types;
    for (int64_t k = 0; k < a->nh; k++) types.push_back(type_arg(a, k));
    if (a->i[2] != 0) {
      ak::util::RecordLookupPtr lookup = std::make_shared<ak::util::RecordLookup>();
      for (int64_t k = 0; k < a->nh; k++) lookup->push_back(akb_str(a, S + k));
      return std::make_shared<ak::RecordType>(params, typestr, types, lookup);
    }
    return std::make_shared<ak::RecordType>(params, typestr, types);
  }
  throw std::runtime_error(std::string("bridge: unknown type kind ") + kind);
}

static void describe_type(const ak::TypePtr& tp) {
  AkbRes& R = akb_res();
  const ak::Type* t = tp.get();
  push_type_params(t->parameters());
  R.s.push_back(t->typestr());
  if (const ak::ArrayType* raw = dynamic_cast<const ak::ArrayType*>(t)) {
    R.s.push_back("ArrayType"); R.i.push_back(raw->length()); akb_push_type(raw->type()); return;
  }
  if (const ak::ListType* raw = dynamic_cast<const ak::ListType*>(t)) { R.s.push_back("ListType"); akb_push_type(raw->type()); return; }
  if (const ak::OptionType* raw = dynamic_cast<const ak::OptionType*>(t)) { R.s.push_back("OptionType"); akb_push_type(raw->type()); return; }
  if (const ak::RegularType* raw = dynamic_cast<const ak::RegularType*>(t)) {
    R.s.push_back("RegularType"); R.i.push_back(raw->size()); akb_push_type(raw->type()); return;
  }
  if (dynamic_cast<const ak::UnknownType*>(t)) { R.s.push_back("UnknownType"); return; }
  if (const ak::PrimitiveType* raw = dynamic_cast<const ak::PrimitiveType*>(t)) {
    R.s.push_back("PrimitiveType"); R.s.push_back(ak::util::dtype_to_name(raw->dtype())); return;
  }
  if (const ak::UnionType* raw = dynamic_cast<const ak::UnionType*>(t)) {
    R.s.push_back("UnionType"); for (auto x : raw->types()) akb_push_type(x); return;
  }
  if (const ak::RecordType* raw = dynamic_cast<const ak::RecordType*>(t)) {
    R.s.push_back("RecordType"); R.i.push_back(raw->istuple() ? 1 : 0);
    if (!raw->istuple()) for (auto k : *raw->recordlookup()) R.s.push_back(k);
    for (auto x : raw->types()) akb_push_type(x);
    return;
  }
  throw std::runtime_error("bridge: cannot describe type");
}

static void call_type(const ak::TypePtr& tp, const std::string& m, const AkbArgs* a) {
  AkbRes& R = akb_res();
  if (m == "describe") { describe_type(tp); return; }
  if (m == "tostring") { R.s.push_back(tp->tostring()); return; }
  if (m == "equal") { R.i.push_back(tp->equal(type_arg(a, 0), a->i[0] != 0) ? 1 : 0); return; }
  if (m == "numfields") { R.i.push_back(tp->numfields()); return; }
  if (m == "fieldindex") { R.i.push_back(tp->fieldindex(akb_str(a, 0))); return; }
  if (m == "key") { R.s.push_back(tp->key(a->i[0])); return; }
  if (m == "haskey") { R.i.push_back(tp->haskey(akb_str(a, 0)) ? 1 : 0); return; }
  if (m == "keys") { for (auto k : tp->keys()) R.s.push_back(k); return; }
  if (m == "empty") { akb_push_content(tp->empty()); return; }
  throw std::runtime_error(std::string("bridge: no type method ") + m);
}

static void call_form(const ak::FormPtr& fp, const std::string& m, const AkbArgs* a) {
  AkbRes& R = akb_res();
  const ak::Form* f = fp.get();
  if (m == "tojson") { R.s.push_back(f->tojson(a->i[0] != 0, a->i[1] != 0)); return; }
  if (m == "tostring") { R.s.push_back(f->tostring()); return; }
  if (m == "type") {
    ak::util::TypeStrs ts; for (int64_t k = 0; k + 1 < a->ns; k += 2) ts[akb_str(a, k)] = akb_str(a, k + 1);
    akb_push_type(f->type(ts)); return;
  }
  if (m == "equal") {
    R.i.push_back(f->equal(form_arg(a, 0), a->i[0] != 0, a->i[1] != 0, a->i[2] != 0, a->i[3] != 0) ? 1 : 0); return;
  }
  if (m == "purelist_parameter") { R.s.push_back(f->purelist_parameter(akb_str(a, 0))); return; }
  if (m == "purelist_isregular") { R.i.push_back(f->purelist_isregular() ? 1 : 0); return; }
  if (m == "purelist_depth") { R.i.push_back(f->purelist_depth()); return; }
  if (m == "dimension_optiontype") { R.i.push_back(f->dimension_optiontype() ? 1 : 0); return; }
  if (m == "minmax_depth") { auto p = f->minmax_depth(); R.i.push_back(p.first); R.i.push_back(p.second); return; }
  if (m == "branch_depth") { auto p = f->branch_depth(); R.i.push_back(p.first ? 1 : 0); R.i.push_back(p.second); return; }
  if (m == "numfields") { R.i.push_back(f->numfields()); return; }
  if (m == "fieldindex") { R.i.push_back(f->fieldindex(akb_str(a, 0))); return; }
  if (m == "key") { R.s.push_back(f->key(a->i[0])); return; }
  if (m == "haskey") { R.i.push_back(f->haskey(akb_str(a, 0)) ? 1 : 0); return; }
  if (m == "keys") { for (auto k : f->keys()) R.s.push_back(k); return; }
  if (m == "getitem_field") { akb_push_form(f->getitem_field(akb_str(a, 0))); return; }
  if (m == "getitem_fields") {
    std::vector<std::string> keys; for (int64_t k = 0; k < a->ns; k++) keys.push_back(akb_str(a, k));
    akb_push_form(f->getitem_fields(keys)); return;
  }
  throw std::runtime_error(std::string("bridge: no form method ") + m);
}

extern "C" {

int akb_type_make(const char* kind, const AkbArgs* a) {
  AKB_TRY( akb_push_type(make_type(kind, a)) )
}
int akb_type_call(void* h, const char* method, const AkbArgs* a) {
  AKB_TRY( call_type(reinterpret_cast<AkbType*>(h)->p, method, a) )
}
int akb_form_fromjson(const char* json, int64_t len) {
  AKB_TRY( akb_push_form(ak::Form::fromjson(std::string(json, (size_t)len))) )
}
int akb_form_call(void* h, const char* method, const AkbArgs* a) {
  AKB_TRY( call_form(reinterpret_cast<AkbForm*>(h)->p, method, a) )
}

}  // extern "C"
