// Verification bridge, Forth part (property C19): an extern "C" facade over the public C++ API of
// ForthMachine32/64 (the same methods src/python/forth.cpp binds).  One handle owns one machine plus
// private copies of the input byte strings (exactly sized, so that ASan sees any over-read).
#include "akb.h"

#include "awkward/util.h"
#include "awkward/array/NumpyArray.h"
#include "awkward/array/ListOffsetArray.h"
#include "awkward/forth/ForthInputBuffer.h"
#include "awkward/forth/ForthOutputBuffer.h"
#include "awkward/forth/ForthMachine.h"

namespace {

struct AkbForth {
  bool is64;
  std::shared_ptr<ak::ForthMachine32> m32;
  std::shared_ptr<ak::ForthMachine64> m64;
  std::vector<std::string> in_names;                 // order given by the caller
  std::vector<std::string> in_bytes;                 // pristine copies of the input bytes
  std::map<std::string, std::shared_ptr<ak::ForthInputBuffer>> inputs;   // rebuilt by fresh_inputs()
};

inline AkbForth* F(void* h) { return reinterpret_cast<AkbForth*>(h); }

#define FM(h, expr) (F(h)->is64 ? F(h)->m64->expr : F(h)->m32->expr)

struct bytes_deleter { void operator()(uint8_t* p) const { delete [] p; } };

// Every begin/run gets new ForthInputBuffer objects over new copies: the machine may byte-swap an input
// in place ('#!' reads) and a ForthInputBuffer keeps its position.
void fresh_inputs(AkbForth* f) {
  f->inputs.clear();
  for (size_t k = 0; k < f->in_names.size(); k++) {
    const std::string& b = f->in_bytes[k];
    std::shared_ptr<uint8_t> p(new uint8_t[b.size()], bytes_deleter());
    if (!b.empty()) std::memcpy(p.get(), b.data(), b.size());
    f->inputs[f->in_names[k]] = std::make_shared<ak::ForthInputBuffer>(p, 0, (int64_t)b.size());
  }
}

int64_t dtype_code(ak::util::dtype dt) {
  switch (dt) {
    case ak::util::dtype::boolean: return 0;
    case ak::util::dtype::int8: return 1;
    case ak::util::dtype::int16: return 2;
    case ak::util::dtype::int32: return 3;
    case ak::util::dtype::int64: return 4;
    case ak::util::dtype::uint8: return 5;
    case ak::util::dtype::uint16: return 6;
    case ak::util::dtype::uint32: return 7;
    case ak::util::dtype::uint64: return 8;
    case ak::util::dtype::float32: return 9;
    case ak::util::dtype::float64: return 10;
    default: return -1;
  }
}

template <typename M>
void push_outputs(const M& m) {
  AkbRes& R = akb_res();
  std::map<std::string, std::shared_ptr<ak::ForthOutputBuffer>> outs = m->outputs();
  for (auto& pair : outs) {
    ak::ContentPtr c = pair.second->toNumpyArray();
    ak::NumpyArray* raw = dynamic_cast<ak::NumpyArray*>(c.get());
    if (raw == nullptr) throw std::runtime_error("bridge: ForthOutputBuffer::toNumpyArray did not return a NumpyArray");
    R.s.push_back(pair.first);
    R.i.push_back(dtype_code(raw->dtype()));
    R.i.push_back(raw->length());
    R.i.push_back(pair.second->len());
    R.s.push_back(std::string(reinterpret_cast<const char*>(raw->data()),
                              (size_t)(raw->length() * (int64_t)raw->itemsize())));
  }
}

template <typename M>
void push_bytecodes(const M& m) {
  ak::ContentPtr c = m->bytecodes();
  ak::ListOffsetArray64* raw = dynamic_cast<ak::ListOffsetArray64*>(c.get());
  if (raw == nullptr) throw std::runtime_error("bridge: bytecodes() is not a ListOffsetArray64");
  akb_push_index<int64_t>(raw->offsets());
  ak::ContentPtr content = raw->content();
  ak::NumpyArray* flat = dynamic_cast<ak::NumpyArray*>(content.get());
  if (flat == nullptr) throw std::runtime_error("bridge: bytecodes() content is not a NumpyArray");
  AkbIndexOut out;
  out.dtype = 2;
  out.bytes.assign(reinterpret_cast<const char*>(flat->data()), (size_t)(flat->length() * (int64_t)flat->itemsize()));
  akb_res().x.push_back(out);
  akb_res().i.push_back((int64_t)flat->itemsize());
}

template <typename M>
int64_t snapshot(AkbForth* f, const M& m, int64_t* buf, int64_t cap) {
  // flat int64 words: is_ready is_done depth stack... nvars vars... ninputs positions... nout (dtype len words...)...
  std::vector<int64_t> w;
  w.push_back(m->is_ready() ? 1 : 0);
  w.push_back(m->is_done() ? 1 : 0);
  auto st = m->stack();
  w.push_back((int64_t)st.size());
  for (auto x : st) w.push_back((int64_t)x);
  std::vector<std::string> vnames = m->variable_index();
  w.push_back((int64_t)vnames.size());
  for (size_t k = 0; k < vnames.size(); k++) w.push_back((int64_t)m->variable_at((int64_t)k));
  // input positions exist only between begin and reset (input_position_at throws otherwise)
  int64_t nin = 0;
  size_t where_nin = w.size();
  w.push_back(0);
  for (size_t k = 0; k < f->in_names.size(); k++) {
    try { w.push_back(m->input_position_at(f->in_names[k])); nin++; }
    catch (std::invalid_argument&) { }
  }
  w[where_nin] = nin;
  std::map<std::string, std::shared_ptr<ak::ForthOutputBuffer>> outs = m->outputs();
  w.push_back((int64_t)outs.size());
  for (auto& pair : outs) {
    ak::ContentPtr c = pair.second->toNumpyArray();
    ak::NumpyArray* raw = dynamic_cast<ak::NumpyArray*>(c.get());
    int64_t nbytes = raw->length() * (int64_t)raw->itemsize();
    w.push_back(dtype_code(raw->dtype()));
    w.push_back(raw->length());
    size_t nwords = (size_t)((nbytes + 7) / 8);
    size_t at = w.size();
    w.resize(at + nwords, 0);
    if (nbytes > 0) std::memcpy(&w[at], raw->data(), (size_t)nbytes);
  }
  if ((int64_t)w.size() <= cap) std::memcpy(buf, w.data(), w.size() * sizeof(int64_t));
  return (int64_t)w.size();
}

}  // namespace

extern "C" {

int akb_forth_new(int64_t is64, const char* source, int64_t source_len, int64_t stack_depth,
                  int64_t recursion_depth, int64_t output_initial_size, double output_resize_factor,
                  void** out) {
  *out = nullptr;
  AKB_TRY(
    std::string src(source, (size_t)source_len);
    std::unique_ptr<AkbForth> f(new AkbForth());
    f->is64 = (is64 != 0);
    if (f->is64) f->m64 = std::make_shared<ak::ForthMachine64>(src, stack_depth, recursion_depth, output_initial_size, output_resize_factor);
    else f->m32 = std::make_shared<ak::ForthMachine32>(src, stack_depth, recursion_depth, output_initial_size, output_resize_factor);
    *out = f.release()
  )
}

void akb_forth_free(void* h) { delete F(h); }

int akb_forth_set_inputs(void* h, int64_t n, const char* const* names, const char* const* bufs, const int64_t* lens) {
  AKB_TRY(
    F(h)->in_names.clear(); F(h)->in_bytes.clear();
    for (int64_t k = 0; k < n; k++) {
      F(h)->in_names.push_back(names[k]);
      F(h)->in_bytes.push_back(std::string(bufs[k], (size_t)lens[k]));
    }
  )
}

int akb_forth_begin(void* h) {
  AKB_TRY( fresh_inputs(F(h)); FM(h, begin(F(h)->inputs)) )
}
int akb_forth_reset(void* h) {
  AKB_TRY( FM(h, reset()) )
}
int akb_forth_run(void* h, int64_t* err) {
  AKB_TRY( fresh_inputs(F(h)); *err = (int64_t)FM(h, run(F(h)->inputs)) )
}
int akb_forth_step(void* h, int64_t* err) {
  AKB_TRY( *err = (int64_t)FM(h, step()) )
}
int akb_forth_resume(void* h, int64_t* err) {
  AKB_TRY( *err = (int64_t)FM(h, resume()) )
}
int akb_forth_call(void* h, const char* word, int64_t* err) {
  AKB_TRY( *err = (int64_t)FM(h, call(std::string(word))) )
}
// maybe_throw(err, ignore={}) is what the Python binding calls after every run/step/resume/call
int akb_forth_maybe_throw(void* h, int64_t err) {
  AKB_TRY( FM(h, maybe_throw((ak::util::ForthError)err, std::set<ak::util::ForthError>())) )
}

// status words: is_ready is_done current_bytecode_position current_recursion_depth count_instructions
//               count_reads count_writes stack_depth
void akb_forth_status(void* h, int64_t* out) {
  out[0] = FM(h, is_ready()) ? 1 : 0;
  out[1] = FM(h, is_done()) ? 1 : 0;
  out[2] = FM(h, current_bytecode_position());
  out[3] = FM(h, current_recursion_depth());
  out[4] = FM(h, count_instructions());
  out[5] = FM(h, count_reads());
  out[6] = FM(h, count_writes());
  out[7] = FM(h, stack_depth());
}
void akb_forth_count_reset(void* h) { FM(h, count_reset()); }

int64_t akb_forth_stack(void* h, int64_t* out, int64_t cap) {
  int64_t n = 0;
  if (F(h)->is64) { auto st = F(h)->m64->stack(); n = (int64_t)st.size(); for (int64_t k = 0; k < n && k < cap; k++) out[k] = (int64_t)st[(size_t)k]; }
  else { auto st = F(h)->m32->stack(); n = (int64_t)st.size(); for (int64_t k = 0; k < n && k < cap; k++) out[k] = (int64_t)st[(size_t)k]; }
  return n;
}

int akb_forth_variables(void* h) {
  AKB_TRY(
    if (F(h)->is64) { for (auto& p : F(h)->m64->variables()) { R.s.push_back(p.first); R.i.push_back((int64_t)p.second); } }
    else { for (auto& p : F(h)->m32->variables()) { R.s.push_back(p.first); R.i.push_back((int64_t)p.second); } }
  )
}
int akb_forth_variable_index(void* h) {
  AKB_TRY( for (auto& s : FM(h, variable_index())) R.s.push_back(s) )
}
int akb_forth_input_position(void* h, const char* name, int64_t* out) {
  AKB_TRY( *out = FM(h, input_position_at(std::string(name))) )
}
int akb_forth_outputs(void* h) {
  AKB_TRY( if (F(h)->is64) push_outputs(F(h)->m64); else push_outputs(F(h)->m32) )
}
int akb_forth_output_index(void* h) {
  AKB_TRY( for (auto& s : FM(h, output_index())) R.s.push_back(s) )
}
int akb_forth_decompiled(void* h) {
  AKB_TRY( R.s.push_back(FM(h, decompiled())) )
}
int akb_forth_source(void* h) {
  AKB_TRY( R.s.push_back(FM(h, source())) )
}
int akb_forth_bytecodes(void* h) {
  AKB_TRY( if (F(h)->is64) push_bytecodes(F(h)->m64); else push_bytecodes(F(h)->m32) )
}
int akb_forth_dictionary(void* h) {
  AKB_TRY( for (auto& s : FM(h, dictionary())) R.s.push_back(s) )
}
int akb_forth_current_instruction(void* h) {
  AKB_TRY( R.s.push_back(FM(h, current_instruction())) )
}
int akb_forth_string_at(void* h, int64_t index) {
  AKB_TRY( R.s.push_back(FM(h, string_at(index))) )
}
int akb_forth_config(void* h) {
  AKB_TRY(
    R.i.push_back(FM(h, stack_max_depth())); R.i.push_back(FM(h, recursion_max_depth()));
    R.i.push_back(FM(h, output_initial_size())); R.d.push_back(FM(h, output_resize_factor()))
  )
}
// 1 if the input must be writable (the machine byte-swaps it in place), 0 if not
int akb_forth_input_must_be_writable(void* h, const char* name, int64_t* out) {
  AKB_TRY( *out = FM(h, input_must_be_writable(std::string(name))) ? 1 : 0 )
}
// the input bytes as the machine left them (in-place byte swaps must have been undone)
int akb_forth_input_bytes(void* h) {
  AKB_TRY(
    for (size_t k = 0; k < F(h)->in_names.size(); k++) {
      auto it = F(h)->inputs.find(F(h)->in_names[k]);
      if (it == F(h)->inputs.end()) { R.s.push_back(std::string()); continue; }
      R.s.push_back(std::string(reinterpret_cast<const char*>(it->second->ptr().get()), (size_t)it->second->len()));
    }
  )
}

// The whole observable state in one call (stack, variables, input positions, output dtypes/lengths/bytes,
// readiness), as int64 words; returns the number of words (the caller retries if > cap).
int64_t akb_forth_snapshot(void* h, int64_t* buf, int64_t cap) {
  try {
    if (F(h)->is64) return snapshot(F(h), F(h)->m64, buf, cap);
    return snapshot(F(h), F(h)->m32, buf, cap);
  }
  catch (std::exception& e) { akb_res().err_class = "Exception"; akb_res().err_msg = e.what(); return -1; }
}

}  // extern "C"
