// Verification bridge, part 5: JSON input (FromJsonString / FromJsonFile over a real FILE*).
#include "akb.h"

#include <cstdio>

#include "awkward/io/json.h"
#include "awkward/builder/ArrayBuilderOptions.h"

extern "C" {

// i: initial, buffersize, has_nan, has_inf, has_minf, usefile ; d: resize ; s: source, nan, inf, minf
int akb_fromjson(const AkbArgs* a) {
  AKB_TRY(
    std::string source = akb_str(a, 0);
    std::string s1 = akb_str(a, 1); std::string s2 = akb_str(a, 2); std::string s3 = akb_str(a, 3);
    const char* nan_string = a->i[2] ? s1.c_str() : nullptr;
    const char* inf_string = a->i[3] ? s2.c_str() : nullptr;
    const char* minf_string = a->i[4] ? s3.c_str() : nullptr;
    ak::ArrayBuilderOptions options(a->i[0], a->d[0]);
    ak::ContentPtr out;
    if (a->i[5] == 0) {
      out = ak::FromJsonString(source.c_str(), options, nan_string, inf_string, minf_string);
    }
    else {
      // a real FILE* over an in-memory copy of the text, so that the reader's buffer refills are exercised
      FILE* f = fmemopen(source.empty() ? (void*)"" : (void*)source.data(), source.size() == 0 ? 1 : source.size(), "rb");
      if (f == nullptr) throw std::runtime_error("bridge: fmemopen failed");
      if (source.empty()) { fclose(f); f = tmpfile(); }
      try { out = ak::FromJsonFile(f, options, a->i[1], nan_string, inf_string, minf_string); }
      catch (...) { fclose(f); throw; }
      fclose(f);
    }
    akb_push_content(out)
  )
}

}  // extern "C"

// ---- static helpers of UnionArray that src/python/content.cpp binds with def_static
#include "awkward/array/UnionArray.h"

extern "C" {

// i: which (0: UnionArray8_32, 1: UnionArray8_U32, 2: UnionArray8_64) ; x: offsets, counts...
int akb_union_nested_tags_index(const AkbArgs* a) {
  AKB_TRY(
    ak::Index64 offsets = akb_index<int64_t>(a, 0);
    std::vector<ak::Index64> counts;
    for (int64_t k = 1;  k < a->nx;  k++) counts.push_back(akb_index<int64_t>(a, k));
    if (a->i[0] == 0) {
      auto out = ak::UnionArray8_32::nested_tags_index(offsets, counts);
      akb_push_index<int8_t>(out.first); akb_push_index<int32_t>(out.second);
    }
    else if (a->i[0] == 1) {
      auto out = ak::UnionArray8_U32::nested_tags_index(offsets, counts);
      akb_push_index<int8_t>(out.first); akb_push_index<uint32_t>(out.second);
    }
    else {
      auto out = ak::UnionArray8_64::nested_tags_index(offsets, counts);
      akb_push_index<int8_t>(out.first); akb_push_index<int64_t>(out.second);
    }
  )
}

}  // extern "C"
