// Verification bridge, part 4: IrregularlyPartitionedArray, VirtualArray with callback-driven generator/cache.
#include "akb.h"

#include <cstdio>

#include "awkward/array/VirtualArray.h"
#include "awkward/virtual/ArrayGenerator.h"
#include "awkward/virtual/ArrayCache.h"
#include "awkward/partition/IrregularlyPartitionedArray.h"

struct AkbPartitioned { ak::PartitionedArrayPtr p; };

///////////////////////////////////////////////////////////////// callbacks into Python

extern "C" {
  typedef void* (*akb_generate_cb)(int64_t id);                       // -> AkbContent* (borrowed) or NULL = raised
  typedef void* (*akb_cache_get_cb)(int64_t id, const char* key);     // -> AkbContent* (borrowed) or NULL = miss
  typedef int (*akb_cache_set_cb)(int64_t id, const char* key, void* newhandle);  // takes ownership; !=0 = raised
  typedef int (*akb_cache_broken_cb)(int64_t id);
}
static akb_generate_cb g_generate = nullptr;
static akb_cache_get_cb g_cache_get = nullptr;
static akb_cache_set_cb g_cache_set = nullptr;
static akb_cache_broken_cb g_cache_broken = nullptr;

class AkbCallbackError: public std::runtime_error {
public:
  AkbCallbackError(): std::runtime_error("python callback raised") { }
};

class CbCache: public ak::ArrayCache {
public:
  CbCache(int64_t id): id_(id) { }
  int64_t id() const { return id_; }
  ak::ContentPtr get(const std::string& key) const override {
    void* h = g_cache_get(id_, key.c_str());
    if (h == nullptr) return ak::ContentPtr(nullptr);
    if (h == reinterpret_cast<void*>(1)) throw AkbCallbackError();   // PyArrayCache::mutablemapping() threw (dead weak reference)
    return reinterpret_cast<AkbContent*>(h)->p;
  }
  void set(const std::string& key, const ak::ContentPtr& value) override {
    if (g_cache_set(id_, key.c_str(), new AkbContent{value}) != 0) throw AkbCallbackError();
  }
  bool is_broken() const override { return g_cache_broken(id_) != 0; }
  const std::string tostring_part(const std::string& indent, const std::string& pre, const std::string& post) const override {
    return indent + pre + "<ArrayCache id=\"" + std::to_string(id_) + "\"/>" + post;
  }
private:
  int64_t id_;
};

class CbGenerator: public ak::ArrayGenerator {
public:
  CbGenerator(const ak::FormPtr& form, int64_t length, int64_t id): ak::ArrayGenerator(form, length), id_(id) { }
  int64_t id() const { return id_; }
  const ak::ContentPtr generate() const override {
    void* h = g_generate(id_);
    if (h == nullptr) throw AkbCallbackError();
    return reinterpret_cast<AkbContent*>(h)->p;
  }
  void caches(std::vector<ak::ArrayCachePtr>& out) const override { }
  const std::string tostring_part(const std::string& indent, const std::string& pre, const std::string& post) const override {
    return indent + pre + "<ArrayGenerator id=\"" + std::to_string(id_) + "\"/>" + post;
  }
  const std::shared_ptr<ak::ArrayGenerator> shallow_copy() const override { return std::make_shared<CbGenerator>(form_, length_, id_); }
  const std::shared_ptr<ak::ArrayGenerator> with_form(const ak::FormPtr& form) const override { return std::make_shared<CbGenerator>(form, length_, id_); }
  const std::shared_ptr<ak::ArrayGenerator> with_length(int64_t length) const override { return std::make_shared<CbGenerator>(form_, length, id_); }
  bool referentially_equal(const ak::ArrayGeneratorPtr& other) const override {
    if (const CbGenerator* raw = dynamic_cast<const CbGenerator*>(other.get())) return raw->id_ == id_;
    return false;
  }
private:
  int64_t id_;
};

static std::map<int64_t, std::shared_ptr<CbCache>> g_caches;   // one C++ cache object per Python cache id

static ak::ArrayCachePtr cache_of(int64_t id) {
  if (id < 0) return ak::ArrayCachePtr(nullptr);
  auto it = g_caches.find(id);
  if (it != g_caches.end()) return it->second;
  std::shared_ptr<CbCache> c = std::make_shared<CbCache>(id);
  g_caches[id] = c;
  return c;
}

static void describe_generator(const ak::ArrayGeneratorPtr& gen) {
  AkbRes& R = akb_res();
  if (const CbGenerator* raw = dynamic_cast<const CbGenerator*>(gen.get())) {
    R.s.push_back("ArrayGenerator"); R.i.push_back(raw->id());
  }
  else if (const ak::SliceGenerator* raw = dynamic_cast<const ak::SliceGenerator*>(gen.get())) {
    R.s.push_back("SliceGenerator"); R.i.push_back(-1);
    akb_push_content(raw->content());
    R.s.push_back(raw->slice().tostring());
  }
  else throw std::runtime_error("bridge: unknown generator class");
  R.i.push_back(gen->length());
  if (gen->form().get() != nullptr) { R.i.push_back(1); akb_push_form(gen->form()); }
  else R.i.push_back(0);
}

static void call_virtual(const ak::ContentPtr& cp, const std::string& m, const AkbArgs* a) {
  AkbRes& R = akb_res();
  const ak::VirtualArray* raw = dynamic_cast<const ak::VirtualArray*>(cp.get());
  if (raw == nullptr) throw std::runtime_error("bridge: not a VirtualArray");
  if (m == "array") { akb_push_content(raw->array()); return; }
  if (m == "peek_array") { akb_push_content(raw->peek_array()); return; }
  if (m == "cache_key") { R.s.push_back(raw->cache_key()); return; }
  if (m == "generator") { describe_generator(raw->generator()); return; }
  if (m == "cache") {
    if (const CbCache* c = dynamic_cast<const CbCache*>(raw->cache().get())) R.i.push_back(c->id()); else R.i.push_back(-1);
    return;
  }
  throw std::runtime_error(std::string("bridge: no VirtualArray method ") + m);
}

static void call_partitioned(const ak::PartitionedArrayPtr& pp, const std::string& m, const AkbArgs* a) {
  AkbRes& R = akb_res();
  const ak::PartitionedArray* p = pp.get();
  if (m == "length") { R.i.push_back(p->length()); return; }
  if (m == "tostring") { R.s.push_back(p->tostring()); return; }
  if (m == "partitions") { for (auto x : p->partitions()) akb_push_content(x); return; }
  if (m == "numpartitions") { R.i.push_back(p->numpartitions()); return; }
  if (m == "partition") { akb_push_content(p->partition(a->i[0])); return; }
  if (m == "start") { R.i.push_back(p->start(a->i[0])); return; }
  if (m == "stop") { R.i.push_back(p->stop(a->i[0])); return; }
  if (m == "partitionid_index_at") {
    int64_t partitionid, index; p->partitionid_index_at(a->i[0], partitionid, index);
    R.i.push_back(partitionid); R.i.push_back(index); return;
  }
  if (m == "repartition") {
    std::vector<int64_t> stops; for (int64_t k = 0; k < a->ni; k++) stops.push_back(a->i[k]);
    R.h.push_back(new AkbPartitioned{p->repartition(stops)}); R.hc.push_back("IrregularlyPartitionedArray"); return;
  }
  if (m == "tojson") { R.s.push_back(p->tojson(a->i[0] != 0, a->i[1])); return; }
  if (m == "tojson_file") {
    char* buf = nullptr; size_t size = 0;
    FILE* f = open_memstream(&buf, &size);
    try { p->tojson(f, a->i[0] != 0, a->i[1], a->i[2]); }
    catch (...) { fclose(f); std::free(buf); throw; }
    fclose(f);
    R.s.push_back(std::string(buf, size)); std::free(buf); return;
  }
  if (m == "getitem_at") { akb_push_content(p->getitem_at(a->i[0])); return; }
  if (m == "getitem_range") {
    R.h.push_back(new AkbPartitioned{p->getitem_range(a->i[0] ? a->i[1] : ak::Slice::none(), a->i[2] ? a->i[3] : ak::Slice::none(),
                                                      a->i[4] ? a->i[5] : ak::Slice::none())});
    R.hc.push_back("IrregularlyPartitionedArray"); return;
  }
  if (m == "stops") {
    if (const ak::IrregularlyPartitionedArray* raw = dynamic_cast<const ak::IrregularlyPartitionedArray*>(p)) {
      for (auto s : raw->stops()) R.i.push_back(s);
      return;
    }
  }
  throw std::runtime_error(std::string("bridge: no partitioned method ") + m);
}

#define AKB_TRY_CB(body)                                                     \
  AkbFrame _akb_frame; AkbRes& R = akb_res(); R.clear();                     \
  try { body; return 0; }                                                    \
  catch (AkbCallbackError& e) { R.err_class = "PythonCallback"; R.err_msg = e.what(); }       \
  catch (std::invalid_argument& e) { R.err_class = "ValueError"; R.err_msg = e.what(); }       \
  catch (std::out_of_range& e) { R.err_class = "IndexError"; R.err_msg = e.what(); }            \
  catch (std::runtime_error& e) { R.err_class = "RuntimeError"; R.err_msg = e.what(); }        \
  catch (std::exception& e) { R.err_class = "Exception"; R.err_msg = e.what(); }               \
  return -1;

extern "C" {

void akb_set_callbacks(akb_generate_cb g, akb_cache_get_cb cg, akb_cache_set_cb cs, akb_cache_broken_cb cb) {
  g_generate = g; g_cache_get = cg; g_cache_set = cs; g_cache_broken = cb;
}

// i: P, gen_id (>=0: callback generator; -1: SliceGenerator over h[content] with slice encoded from i[7...]),
//    length (-1 = unknown), has_form, cache_id (-1 = none), has_cache_key, slice_pos ; s: params, cache_key ; h: [form?] [content?]
int akb_virtual_new(const AkbArgs* a) {
  AKB_TRY_CB(
    int64_t P = a->i[0];
    ak::util::Parameters params = akb_params(a, 0, P);
    int64_t gen_id = a->i[1]; int64_t length = a->i[2]; bool has_form = a->i[3] != 0;
    int64_t cache_id = a->i[4]; bool has_key = a->i[5] != 0;
    int64_t hpos = 0;
    ak::FormPtr form(nullptr);
    if (has_form) form = reinterpret_cast<AkbForm*>(a->h[hpos++])->p;
    ak::ArrayGeneratorPtr gen;
    if (gen_id >= 0) gen = std::make_shared<CbGenerator>(form, length, gen_id);
    else {
      ak::ContentPtr content = reinterpret_cast<AkbContent*>(a->h[hpos++])->p;
      int64_t ipos = a->i[6];
      // the slice encoding refers to handles/indexes by position in the same argument pack
      ak::Slice slice = akb_slice(a, ipos);
      gen = std::make_shared<ak::SliceGenerator>(form, length, content, slice);
    }
    ak::ArrayCachePtr cache = cache_of(cache_id);
    ak::ContentPtr out;
    if (has_key) out = std::make_shared<ak::VirtualArray>(ak::Identities::none(), params, gen, cache, akb_str(a, 2 * P));
    else out = std::make_shared<ak::VirtualArray>(ak::Identities::none(), params, gen, cache);
    akb_push_content(out)
  )
}

int akb_virtual_call(void* h, const char* method, const AkbArgs* a) {
  AKB_TRY_CB( call_virtual(reinterpret_cast<AkbContent*>(h)->p, method, a) )
}

// content methods on objects that may call back into Python (virtual arrays anywhere in the tree)
int akb_call_cb(void* h, const char* method, const AkbArgs* a);

int akb_partitioned_new(const AkbArgs* a) {
  AKB_TRY_CB(
    ak::ContentPtrVec parts;
    for (int64_t k = 0; k < a->nh; k++) parts.push_back(reinterpret_cast<AkbContent*>(a->h[k])->p);
    ak::PartitionedArrayPtr out;
    if (a->i[0] != 0) {
      std::vector<int64_t> stops; for (int64_t k = 1; k < a->ni; k++) stops.push_back(a->i[k]);
      out = std::make_shared<ak::IrregularlyPartitionedArray>(parts, stops);
    }
    else {
      // as the second py::init overload of src/python/partition.cpp
      int64_t total_length = 0;
      std::vector<int64_t> stops;
      for (auto p : parts) { total_length += p.get()->length(); stops.push_back(total_length); }
      out = std::make_shared<ak::IrregularlyPartitionedArray>(parts, stops);
    }
    akb_res().h.push_back(new AkbPartitioned{out}); akb_res().hc.push_back("IrregularlyPartitionedArray")
  )
}
int akb_partitioned_call(void* h, const char* method, const AkbArgs* a) {
  AKB_TRY_CB( call_partitioned(reinterpret_cast<AkbPartitioned*>(h)->p, method, a) )
}
void akb_partitioned_free(void* h) { delete reinterpret_cast<AkbPartitioned*>(h); }

}  // extern "C"
