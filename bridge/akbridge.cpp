// Verification bridge, part 1: Content construction, description and method dispatch.
#include "akb.h"

#include <cstdio>
#include <cstdlib>

#include "awkward/Reducer.h"
#include "awkward/array/NumpyArray.h"
#include "awkward/array/EmptyArray.h"
#include "awkward/array/ListArray.h"
#include "awkward/array/ListOffsetArray.h"
#include "awkward/array/RegularArray.h"
#include "awkward/array/IndexedArray.h"
#include "awkward/array/ByteMaskedArray.h"
#include "awkward/array/BitMaskedArray.h"
#include "awkward/array/UnmaskedArray.h"
#include "awkward/array/UnionArray.h"
#include "awkward/array/RecordArray.h"
#include "awkward/array/Record.h"
#include "awkward/array/None.h"
#include "awkward/array/VirtualArray.h"
#include "awkward/Iterator.h"

static thread_local std::vector<AkbRes*> g_stack;
static thread_local AkbRes g_last;
static thread_local AkbRes g_idle;
AkbRes& akb_res() { return g_stack.empty() ? g_idle : *g_stack.back(); }
AkbRes& akb_last() { return g_last; }
AkbFrame::AkbFrame() { g_stack.push_back(new AkbRes()); }
AkbFrame::~AkbFrame() {
  AkbRes* top = g_stack.back();
  g_stack.pop_back();
  g_last = std::move(*top);
  delete top;
}

///////////////////////////////////////////////////////////////// result helpers

static void free_deleter(void* p) { std::free(p); }

void akb_push_content(const ak::ContentPtr& c) {
  AkbRes& R = akb_res();
  if (c.get() == nullptr) {
    R.h.push_back(nullptr); R.hc.push_back("nullptr"); return;
  }
  if (dynamic_cast<ak::None*>(c.get()) != nullptr) {
    R.h.push_back(nullptr); R.hc.push_back("None"); return;
  }
  std::string cls = c->classname();
  if (ak::NumpyArray* raw = dynamic_cast<ak::NumpyArray*>(c.get())) {
    if (raw->isscalar()) cls = "scalar";
  }
  R.h.push_back(new AkbContent{c});
  R.hc.push_back(cls);
}
void akb_push_form(const ak::FormPtr& f) {
  AkbRes& R = akb_res();
  R.h.push_back(new AkbForm{f}); R.hc.push_back("Form");
}
void akb_push_type(const ak::TypePtr& t) {
  AkbRes& R = akb_res();
  R.h.push_back(new AkbType{t}); R.hc.push_back("Type");
}

template <typename T> struct idx_code;
template <> struct idx_code<int8_t> { static const int64_t v = 0; };
template <> struct idx_code<uint8_t> { static const int64_t v = 1; };
template <> struct idx_code<int32_t> { static const int64_t v = 2; };
template <> struct idx_code<uint32_t> { static const int64_t v = 3; };
template <> struct idx_code<int64_t> { static const int64_t v = 4; };

template <typename T> void akb_push_index(const ak::IndexOf<T>& idx) {
  AkbIndexOut out;
  out.dtype = idx_code<T>::v;
  if (idx.length() > 0) {
    out.bytes.assign(reinterpret_cast<const char*>(idx.data()), (size_t)idx.length() * sizeof(T));
  }
  akb_res().x.push_back(out);
}
template void akb_push_index<int8_t>(const ak::IndexOf<int8_t>&);
template void akb_push_index<uint8_t>(const ak::IndexOf<uint8_t>&);
template void akb_push_index<int32_t>(const ak::IndexOf<int32_t>&);
template void akb_push_index<uint32_t>(const ak::IndexOf<uint32_t>&);
template void akb_push_index<int64_t>(const ak::IndexOf<int64_t>&);

///////////////////////////////////////////////////////////////// argument helpers

ak::ContentPtr akb_content(const AkbArgs* a, int64_t k) {
  if (k < 0 || k >= a->nh) throw std::runtime_error("bridge: handle argument out of range");
  if (a->h[k] == nullptr) return ak::none;
  return reinterpret_cast<AkbContent*>(a->h[k])->p;
}
std::string akb_str(const AkbArgs* a, int64_t k) {
  if (k < 0 || k >= a->ns) throw std::runtime_error("bridge: string argument out of range");
  return std::string(a->s[k], (size_t)a->sl[k]);
}
ak::util::Parameters akb_params(const AkbArgs* a, int64_t from, int64_t npairs) {
  ak::util::Parameters out;
  for (int64_t k = 0; k < npairs; k++) {
    out[akb_str(a, from + 2*k)] = akb_str(a, from + 2*k + 1);
  }
  return out;
}
template <typename T> ak::IndexOf<T> akb_index(const AkbArgs* a, int64_t k) {
  if (k < 0 || k >= a->nx) throw std::runtime_error("bridge: index argument out of range");
  const AkbIndex& x = a->x[k];
  if (x.dtype != idx_code<T>::v) throw std::runtime_error("bridge: index dtype mismatch");
  size_t nbytes = (size_t)x.total * sizeof(T);
  // exact-size allocation: any access beyond the buffer is visible to AddressSanitizer
  void* mem = std::malloc(nbytes == 0 ? 1 : nbytes);
  if (nbytes != 0) std::memcpy(mem, x.ptr, nbytes);
  std::shared_ptr<T> ptr(reinterpret_cast<T*>(mem), free_deleter);
  return ak::IndexOf<T>(ptr, x.offset, x.length, ak::kernel::lib::cpu);
}
template ak::IndexOf<int8_t> akb_index<int8_t>(const AkbArgs*, int64_t);
template ak::IndexOf<uint8_t> akb_index<uint8_t>(const AkbArgs*, int64_t);
template ak::IndexOf<int32_t> akb_index<int32_t>(const AkbArgs*, int64_t);
template ak::IndexOf<uint32_t> akb_index<uint32_t>(const AkbArgs*, int64_t);
template ak::IndexOf<int64_t> akb_index<int64_t>(const AkbArgs*, int64_t);

static ak::SliceItemPtr slice_item(const AkbArgs* a, int64_t& p) {
  if (p >= a->ni) throw std::runtime_error("bridge: slice encoding truncated");
  int64_t kind = a->i[p++];
  switch (kind) {
    case 0: { int64_t at = a->i[p++]; return std::make_shared<ak::SliceAt>(at); }
    case 1: {
      int64_t hs = a->i[p++]; int64_t start = a->i[p++];
      int64_t he = a->i[p++]; int64_t stop = a->i[p++];
      int64_t step = a->i[p++];
      return std::make_shared<ak::SliceRange>(hs ? start : ak::Slice::none(),
                                              he ? stop : ak::Slice::none(), step);
    }
    case 2: return std::make_shared<ak::SliceEllipsis>();
    case 3: return std::make_shared<ak::SliceNewAxis>();
    case 4: { int64_t s = a->i[p++]; return std::make_shared<ak::SliceField>(akb_str(a, s)); }
    case 5: {
      int64_t n = a->i[p++];
      std::vector<std::string> keys;
      for (int64_t k = 0; k < n; k++) keys.push_back(akb_str(a, a->i[p++]));
      return std::make_shared<ak::SliceFields>(keys);
    }
    case 6: {
      int64_t xi = a->i[p++]; int64_t frombool = a->i[p++]; int64_t ndim = a->i[p++];
      std::vector<int64_t> shape, strides;
      for (int64_t k = 0; k < ndim; k++) shape.push_back(a->i[p++]);
      for (int64_t k = 0; k < ndim; k++) strides.push_back(a->i[p++]);
      ak::Index64 index = akb_index<int64_t>(a, xi);
      return std::make_shared<ak::SliceArray64>(index, shape, strides, frombool != 0);
    }
    case 7: {
      int64_t hi = a->i[p++];
      ak::ContentPtr c = akb_content(a, hi);
      return c->asslice();
    }
    case 8: {
      int64_t xi = a->i[p++]; int64_t mi = a->i[p++];
      ak::SliceItemPtr content = slice_item(a, p);
      return std::make_shared<ak::SliceMissing64>(akb_index<int64_t>(a, xi),
                                                  akb_index<int8_t>(a, mi), content);
    }
    case 9: {
      int64_t xi = a->i[p++];
      ak::SliceItemPtr content = slice_item(a, p);
      return std::make_shared<ak::SliceJagged64>(akb_index<int64_t>(a, xi), content);
    }
    default:
      throw std::runtime_error("bridge: unknown slice item kind");
  }
}

ak::Slice akb_slice(const AkbArgs* a, int64_t& p) {
  int64_t n = a->i[p++];
  ak::Slice out;
  for (int64_t k = 0; k < n; k++) out.append(slice_item(a, p));
  out.become_sealed();
  return out;
}

///////////////////////////////////////////////////////////////// construction

static const ak::IdentitiesPtr noid() { return ak::Identities::none(); }

static ak::ContentPtr make_content(const std::string& cls, const AkbArgs* a) {
  // convention: i[0] = number of parameter pairs P; s[0..2P) = parameters; then class specific
  int64_t P = a->i[0];
  ak::util::Parameters params = akb_params(a, 0, P);
  int64_t S = 2 * P;  // first class-specific string
  if (cls == "NumpyArray") {
    // i: P, ndim, shape.., strides.., byteoffset, itemsize, nbytes(total backing);  s[S]=format, s[S+1]=dtype name or ""
    // x[0]: raw bytes (dtype 1)
    int64_t p = 1; int64_t ndim = a->i[p++];
    std::vector<ssize_t> shape, strides;
    for (int64_t k = 0; k < ndim; k++) shape.push_back((ssize_t)a->i[p++]);
    for (int64_t k = 0; k < ndim; k++) strides.push_back((ssize_t)a->i[p++]);
    ssize_t byteoffset = (ssize_t)a->i[p++]; ssize_t itemsize = (ssize_t)a->i[p++];
    std::string format = akb_str(a, S);
    std::string dtname = akb_str(a, S + 1);
    const AkbIndex& x = a->x[0];
    size_t nbytes = (size_t)x.total;
    void* mem = std::malloc(nbytes == 0 ? 1 : nbytes);
    if (nbytes != 0) std::memcpy(mem, x.ptr, nbytes);
    std::shared_ptr<void> ptr(mem, free_deleter);
    ak::util::dtype dt = dtname.empty() ? ak::util::format_to_dtype(format, (int64_t)itemsize)
                                        : ak::util::name_to_dtype(dtname);
    return std::make_shared<ak::NumpyArray>(noid(), params, ptr, shape, strides, byteoffset,
                                            itemsize, format, dt, ak::kernel::lib::cpu);
  }
  if (cls == "EmptyArray") return std::make_shared<ak::EmptyArray>(noid(), params);
  if (cls == "ListOffsetArray32") return std::make_shared<ak::ListOffsetArray32>(noid(), params, akb_index<int32_t>(a, 0), akb_content(a, 0));
  if (cls == "ListOffsetArrayU32") return std::make_shared<ak::ListOffsetArrayU32>(noid(), params, akb_index<uint32_t>(a, 0), akb_content(a, 0));
  if (cls == "ListOffsetArray64") return std::make_shared<ak::ListOffsetArray64>(noid(), params, akb_index<int64_t>(a, 0), akb_content(a, 0));
  if (cls == "ListArray32") return std::make_shared<ak::ListArray32>(noid(), params, akb_index<int32_t>(a, 0), akb_index<int32_t>(a, 1), akb_content(a, 0));
  if (cls == "ListArrayU32") return std::make_shared<ak::ListArrayU32>(noid(), params, akb_index<uint32_t>(a, 0), akb_index<uint32_t>(a, 1), akb_content(a, 0));
  if (cls == "ListArray64") return std::make_shared<ak::ListArray64>(noid(), params, akb_index<int64_t>(a, 0), akb_index<int64_t>(a, 1), akb_content(a, 0));
  if (cls == "RegularArray") return std::make_shared<ak::RegularArray>(noid(), params, akb_content(a, 0), a->i[1], a->i[2]);
  if (cls == "IndexedArray32") return std::make_shared<ak::IndexedArray32>(noid(), params, akb_index<int32_t>(a, 0), akb_content(a, 0));
  if (cls == "IndexedArrayU32") return std::make_shared<ak::IndexedArrayU32>(noid(), params, akb_index<uint32_t>(a, 0), akb_content(a, 0));
  if (cls == "IndexedArray64") return std::make_shared<ak::IndexedArray64>(noid(), params, akb_index<int64_t>(a, 0), akb_content(a, 0));
  if (cls == "IndexedOptionArray32") return std::make_shared<ak::IndexedOptionArray32>(noid(), params, akb_index<int32_t>(a, 0), akb_content(a, 0));
  if (cls == "IndexedOptionArray64") return std::make_shared<ak::IndexedOptionArray64>(noid(), params, akb_index<int64_t>(a, 0), akb_content(a, 0));
  if (cls == "ByteMaskedArray") return std::make_shared<ak::ByteMaskedArray>(noid(), params, akb_index<int8_t>(a, 0), akb_content(a, 0), a->i[1] != 0);
  if (cls == "BitMaskedArray") return std::make_shared<ak::BitMaskedArray>(noid(), params, akb_index<uint8_t>(a, 0), akb_content(a, 0), a->i[1] != 0, a->i[2], a->i[3] != 0);
  if (cls == "UnmaskedArray") return std::make_shared<ak::UnmaskedArray>(noid(), params, akb_content(a, 0));
  if (cls == "UnionArray8_32" || cls == "UnionArray8_U32" || cls == "UnionArray8_64") {
    ak::ContentPtrVec contents;
    for (int64_t k = 0; k < a->nh; k++) contents.push_back(akb_content(a, k));
    if (cls == "UnionArray8_32") return std::make_shared<ak::UnionArray8_32>(noid(), params, akb_index<int8_t>(a, 0), akb_index<int32_t>(a, 1), contents);
    if (cls == "UnionArray8_U32") return std::make_shared<ak::UnionArray8_U32>(noid(), params, akb_index<int8_t>(a, 0), akb_index<uint32_t>(a, 1), contents);
    return std::make_shared<ak::UnionArray8_64>(noid(), params, akb_index<int8_t>(a, 0), akb_index<int64_t>(a, 1), contents);
  }
  if (cls == "RecordArray") {
    // i: P, haslength, length, haskeys ; s[S..]: keys
    ak::ContentPtrVec contents;
    for (int64_t k = 0; k < a->nh; k++) contents.push_back(akb_content(a, k));
    ak::util::RecordLookupPtr lookup(nullptr);
    if (a->i[3] != 0) {
      lookup = std::make_shared<ak::util::RecordLookup>();
      for (int64_t k = 0; k < a->nh; k++) lookup->push_back(akb_str(a, S + k));
    }
    if (a->i[1] != 0) return std::make_shared<ak::RecordArray>(noid(), params, contents, lookup, a->i[2]);
    return std::make_shared<ak::RecordArray>(noid(), params, contents, lookup);
  }
  if (cls == "Record") {
    std::shared_ptr<ak::RecordArray> arr = std::dynamic_pointer_cast<ak::RecordArray>(akb_content(a, 0));
    if (arr.get() == nullptr) throw std::invalid_argument("Record requires a RecordArray");
    return std::make_shared<ak::Record>(arr, a->i[1]);
  }
  throw std::runtime_error(std::string("bridge: unknown class ") + cls);
}

///////////////////////////////////////////////////////////////// description

static void push_params(const ak::util::Parameters& params) {
  AkbRes& R = akb_res();
  R.i.push_back((int64_t)params.size());
  for (auto pair : params) { R.s.push_back(pair.first); R.s.push_back(pair.second); }
}

static void numpy_logical_copy(const ak::NumpyArray* raw, std::string& out) {
  // contiguous (C-order) copy of the logical array, element by element through the strides
  std::vector<ssize_t> shape = raw->shape();
  std::vector<ssize_t> strides = raw->strides();
  ssize_t itemsize = raw->itemsize();
  int64_t n = 1;
  for (auto s : shape) n *= (int64_t)s;
  if (shape.empty()) n = 1;
  out.clear();
  if (n == 0) return;
  out.resize((size_t)(n * itemsize));
  const char* base = reinterpret_cast<const char*>(raw->data());
  std::vector<ssize_t> pos(shape.size(), 0);
  for (int64_t k = 0; k < n; k++) {
    ssize_t off = 0;
    for (size_t d = 0; d < shape.size(); d++) off += pos[d] * strides[d];
    std::memcpy(&out[(size_t)(k * itemsize)], base + off, (size_t)itemsize);
    for (ssize_t d = (ssize_t)shape.size() - 1; d >= 0; d--) {
      pos[(size_t)d]++;
      if (pos[(size_t)d] < shape[(size_t)d]) break;
      pos[(size_t)d] = 0;
    }
  }
}

template <typename T>
static bool describe_listoffset(const ak::Content* c) {
  if (const ak::ListOffsetArrayOf<T>* raw = dynamic_cast<const ak::ListOffsetArrayOf<T>*>(c)) {
    akb_push_index(raw->offsets()); akb_push_content(raw->content()); return true;
  }
  return false;
}
template <typename T>
static bool describe_list(const ak::Content* c) {
  if (const ak::ListArrayOf<T>* raw = dynamic_cast<const ak::ListArrayOf<T>*>(c)) {
    akb_push_index(raw->starts()); akb_push_index(raw->stops()); akb_push_content(raw->content()); return true;
  }
  return false;
}
template <typename T, bool O>
static bool describe_indexed(const ak::Content* c) {
  if (const ak::IndexedArrayOf<T, O>* raw = dynamic_cast<const ak::IndexedArrayOf<T, O>*>(c)) {
    akb_push_index(raw->index()); akb_push_content(raw->content()); return true;
  }
  return false;
}
template <typename T, typename I>
static bool describe_union(const ak::Content* c) {
  if (const ak::UnionArrayOf<T, I>* raw = dynamic_cast<const ak::UnionArrayOf<T, I>*>(c)) {
    akb_push_index(raw->tags()); akb_push_index(raw->index());
    for (auto x : raw->contents()) akb_push_content(x);
    return true;
  }
  return false;
}

static void describe(const ak::ContentPtr& cp) {
  AkbRes& R = akb_res();
  const ak::Content* c = cp.get();
  R.s.push_back(c->classname());
  // Record has its own parameters() (those of the array)
  push_params(c->parameters());
  R.i.push_back(c->length());
  if (const ak::NumpyArray* raw = dynamic_cast<const ak::NumpyArray*>(c)) {
    R.i.push_back((int64_t)raw->ndim());
    for (auto s : raw->shape()) R.i.push_back((int64_t)s);
    for (auto s : raw->strides()) R.i.push_back((int64_t)s);
    R.i.push_back((int64_t)raw->byteoffset());
    R.i.push_back((int64_t)raw->itemsize());
    R.i.push_back(raw->isscalar() ? 1 : 0);
    R.i.push_back((int64_t)(intptr_t)raw->data());
    R.s.push_back(raw->format());
    R.s.push_back(ak::util::dtype_to_name(raw->dtype()));
    AkbIndexOut out; out.dtype = 1;
    numpy_logical_copy(raw, out.bytes);
    R.x.push_back(out);
    return;
  }
  if (dynamic_cast<const ak::EmptyArray*>(c)) return;
  if (describe_listoffset<int32_t>(c) || describe_listoffset<uint32_t>(c) || describe_listoffset<int64_t>(c)) return;
  if (describe_list<int32_t>(c) || describe_list<uint32_t>(c) || describe_list<int64_t>(c)) return;
  if (const ak::RegularArray* raw = dynamic_cast<const ak::RegularArray*>(c)) {
    R.i.push_back(raw->size()); akb_push_content(raw->content()); return;
  }
  if (describe_indexed<int32_t, false>(c) || describe_indexed<uint32_t, false>(c) || describe_indexed<int64_t, false>(c)
      || describe_indexed<int32_t, true>(c) || describe_indexed<int64_t, true>(c)) return;
  if (const ak::ByteMaskedArray* raw = dynamic_cast<const ak::ByteMaskedArray*>(c)) {
    R.i.push_back(raw->valid_when() ? 1 : 0);
    akb_push_index(raw->mask()); akb_push_content(raw->content()); return;
  }
  if (const ak::BitMaskedArray* raw = dynamic_cast<const ak::BitMaskedArray*>(c)) {
    R.i.push_back(raw->valid_when() ? 1 : 0); R.i.push_back(raw->lsb_order() ? 1 : 0);
    akb_push_index(raw->mask()); akb_push_content(raw->content()); return;
  }
  if (const ak::UnmaskedArray* raw = dynamic_cast<const ak::UnmaskedArray*>(c)) {
    akb_push_content(raw->content()); return;
  }
  if (describe_union<int8_t, int32_t>(c) || describe_union<int8_t, uint32_t>(c) || describe_union<int8_t, int64_t>(c)) return;
  if (const ak::RecordArray* raw = dynamic_cast<const ak::RecordArray*>(c)) {
    R.i.push_back(raw->istuple() ? 1 : 0);
    R.i.push_back(raw->numfields());
    if (!raw->istuple()) for (auto k : *raw->recordlookup()) R.s.push_back(k);
    for (auto x : raw->contents()) akb_push_content(x);
    return;
  }
  if (const ak::Record* raw = dynamic_cast<const ak::Record*>(c)) {
    R.i.push_back(raw->at());
    akb_push_content(raw->array()->shallow_copy());
    return;
  }
  if (dynamic_cast<const ak::VirtualArray*>(c)) return;  // see akb_virtual.cpp
  throw std::runtime_error(std::string("bridge: cannot describe ") + c->classname());
}

///////////////////////////////////////////////////////////////// method dispatch

static std::string opt_str(const AkbArgs* a, int64_t flagpos, int64_t spos, bool& has) {
  has = a->i[flagpos] != 0;
  return has ? akb_str(a, spos) : std::string();
}

static void tojson_string(const ak::Content* c, const AkbArgs* a) {
  // i: pretty, maxdecimals, has_nan, has_inf, has_minf, has_re, has_im ; s[0..5)
  bool h0, h1, h2, h3, h4;
  std::string s0 = opt_str(a, 2, 0, h0), s1 = opt_str(a, 3, 1, h1), s2 = opt_str(a, 4, 2, h2),
              s3 = opt_str(a, 5, 3, h3), s4 = opt_str(a, 6, 4, h4);
  akb_res().s.push_back(c->tojson(a->i[0] != 0, a->i[1],
                                  h0 ? s0.c_str() : nullptr, h1 ? s1.c_str() : nullptr,
                                  h2 ? s2.c_str() : nullptr, h3 ? s3.c_str() : nullptr,
                                  h4 ? s4.c_str() : nullptr));
}

static void tojson_file(const ak::Content* c, const AkbArgs* a) {
  // as tojson_string plus i[7] = buffersize; goes through a real FILE* (memory stream)
  bool h0, h1, h2, h3, h4;
  std::string s0 = opt_str(a, 2, 0, h0), s1 = opt_str(a, 3, 1, h1), s2 = opt_str(a, 4, 2, h2),
              s3 = opt_str(a, 5, 3, h3), s4 = opt_str(a, 6, 4, h4);
  char* buf = nullptr; size_t size = 0;
  FILE* f = open_memstream(&buf, &size);
  if (f == nullptr) throw std::runtime_error("bridge: open_memstream failed");
  try {
    c->tojson(f, a->i[0] != 0, a->i[1], a->i[7],
              h0 ? s0.c_str() : nullptr, h1 ? s1.c_str() : nullptr,
              h2 ? s2.c_str() : nullptr, h3 ? s3.c_str() : nullptr,
              h4 ? s4.c_str() : nullptr);
  }
  catch (...) { fclose(f); std::free(buf); throw; }
  fclose(f);
  akb_res().s.push_back(std::string(buf, size));
  std::free(buf);
}

template <typename R>
static void do_reduce(const ak::Content* c, const AkbArgs* a) {
  R reducer;
  akb_push_content(c->reduce(reducer, a->i[0], a->i[1] != 0, a->i[2] != 0));
}

static bool call_class_specific(const ak::ContentPtr& cp, const std::string& m, const AkbArgs* a);

static void call_content(const ak::ContentPtr& cp, const std::string& m, const AkbArgs* a) {
  AkbRes& R = akb_res();
  const ak::Content* c = cp.get();
  if (m == "describe") { describe(cp); return; }
  if (m == "length") { R.i.push_back(c->length()); return; }
  if (m == "classname") { R.s.push_back(c->classname()); return; }
  if (m == "getitem") { int64_t p = 0; ak::Slice s = akb_slice(a, p); akb_push_content(c->getitem(s)); return; }
  if (m == "getitem_at") { akb_push_content(c->getitem_at(a->i[0])); return; }
  if (m == "getitem_at_nowrap") { akb_push_content(c->getitem_at_nowrap(a->i[0])); return; }
  if (m == "getitem_range") {
    akb_push_content(c->getitem_range(a->i[0] ? a->i[1] : ak::Slice::none(), a->i[2] ? a->i[3] : ak::Slice::none())); return;
  }
  if (m == "getitem_range_nowrap") { akb_push_content(c->getitem_range_nowrap(a->i[0], a->i[1])); return; }
  if (m == "getitem_nothing") { akb_push_content(c->getitem_nothing()); return; }
  if (m == "getitem_field") { akb_push_content(c->getitem_field(akb_str(a, 0))); return; }
  if (m == "getitem_fields") {
    std::vector<std::string> keys; for (int64_t k = 0; k < a->ns; k++) keys.push_back(akb_str(a, k));
    akb_push_content(c->getitem_fields(keys)); return;
  }
  if (m == "carry") { akb_push_content(c->carry(akb_index<int64_t>(a, 0), a->i[0] != 0)); return; }
  if (m == "tojson") { tojson_string(c, a); return; }
  if (m == "tojson_file") { tojson_file(c, a); return; }
  if (m == "tostring") { R.s.push_back(c->tostring()); return; }
  if (m == "form") { akb_push_form(c->form(a->ni > 0 ? a->i[0] != 0 : false)); return; }
  if (m == "type") {
    ak::util::TypeStrs ts; for (int64_t k = 0; k + 1 < a->ns; k += 2) ts[akb_str(a, k)] = akb_str(a, k + 1);
    akb_push_type(c->type(ts)); return;
  }
  if (m == "typestr") {
    ak::util::TypeStrs ts; for (int64_t k = 0; k + 1 < a->ns; k += 2) ts[akb_str(a, k)] = akb_str(a, k + 1);
    R.s.push_back(c->type(ts)->tostring()); return;
  }
  if (m == "formjson") { R.s.push_back(c->form(false)->tojson(false, a->ni > 0 ? a->i[0] != 0 : false)); return; }
  if (m == "validityerror") { R.s.push_back(c->validityerror("layout")); return; }
  if (m == "nbytes") { R.i.push_back(c->nbytes()); return; }
  if (m == "deep_copy") { akb_push_content(c->deep_copy(a->i[0] != 0, a->i[1] != 0, a->i[2] != 0)); return; }
  if (m == "shallow_copy") { akb_push_content(c->shallow_copy()); return; }
  if (m == "parameters") { push_params(c->parameters()); return; }
  if (m == "parameter") { R.s.push_back(c->parameter(akb_str(a, 0))); return; }
  if (m == "purelist_parameter") { R.s.push_back(c->purelist_parameter(akb_str(a, 0))); return; }
  if (m == "withparameters") {
    ak::ContentPtr out = c->shallow_copy();
    out->setparameters(akb_params(a, 0, a->i[0]));
    akb_push_content(out); return;
  }
  if (m == "numfields") { R.i.push_back(c->numfields()); return; }
  if (m == "fieldindex") { R.i.push_back(c->fieldindex(akb_str(a, 0))); return; }
  if (m == "key") { R.s.push_back(c->key(a->i[0])); return; }
  if (m == "haskey") { R.i.push_back(c->haskey(akb_str(a, 0)) ? 1 : 0); return; }
  if (m == "keys") { for (auto k : c->keys()) R.s.push_back(k); return; }
  if (m == "purelist_isregular") { R.i.push_back(c->purelist_isregular() ? 1 : 0); return; }
  if (m == "purelist_depth") { R.i.push_back(c->purelist_depth()); return; }
  if (m == "branch_depth") { auto p = c->branch_depth(); R.i.push_back(p.first ? 1 : 0); R.i.push_back(p.second); return; }
  if (m == "minmax_depth") { auto p = c->minmax_depth(); R.i.push_back(p.first); R.i.push_back(p.second); return; }
  if (m == "dimension_optiontype") { R.i.push_back(c->dimension_optiontype() ? 1 : 0); return; }
  if (m == "axis_wrap_if_negative") { R.i.push_back(c->axis_wrap_if_negative(a->i[0])); return; }
  if (m == "fillna") { akb_push_content(c->fillna(akb_content(a, 0))); return; }
  if (m == "num") { akb_push_content(c->num(a->i[0], 0)); return; }
  if (m == "offsets_and_flatten") {
    auto pair = c->offsets_and_flattened(a->i[0], 0);
    akb_push_index(pair.first); akb_push_content(pair.second); return;
  }
  if (m == "rpad") { akb_push_content(c->rpad(a->i[0], a->i[1], 0)); return; }
  if (m == "rpad_and_clip") { akb_push_content(c->rpad_and_clip(a->i[0], a->i[1], 0)); return; }
  if (m == "mergeable") { R.i.push_back(c->mergeable(akb_content(a, 0), a->i[0] != 0) ? 1 : 0); return; }
  if (m == "merge") { akb_push_content(c->merge(akb_content(a, 0))); return; }
  if (m == "merge_as_union") { akb_push_content(c->merge_as_union(akb_content(a, 0))); return; }
  if (m == "mergemany") {
    ak::ContentPtrVec others; for (int64_t k = 0; k < a->nh; k++) others.push_back(akb_content(a, k));
    akb_push_content(c->mergemany(others)); return;
  }
  if (m == "count") { do_reduce<ak::ReducerCount>(c, a); return; }
  if (m == "count_nonzero") { do_reduce<ak::ReducerCountNonzero>(c, a); return; }
  if (m == "sum") { do_reduce<ak::ReducerSum>(c, a); return; }
  if (m == "prod") { do_reduce<ak::ReducerProd>(c, a); return; }
  if (m == "any") { do_reduce<ak::ReducerAny>(c, a); return; }
  if (m == "all") { do_reduce<ak::ReducerAll>(c, a); return; }
  if (m == "argmin") { do_reduce<ak::ReducerArgmin>(c, a); return; }
  if (m == "argmax") { do_reduce<ak::ReducerArgmax>(c, a); return; }
  if (m == "min" || m == "max") {
    // i: axis, mask, keepdims, has_initial, initial_i64 ; d[0] = initial_f64 ; i[5] = initial_u64 bits
    if (a->i[3] == 0) {
      if (m == "min") do_reduce<ak::ReducerMin>(c, a); else do_reduce<ak::ReducerMax>(c, a);
    }
    else {
      double f = a->d[0]; uint64_t u = (uint64_t)a->i[5]; int64_t s = a->i[4];
      if (m == "min") { ak::ReducerMin r(f, u, s); akb_push_content(c->reduce(r, a->i[0], a->i[1] != 0, a->i[2] != 0)); }
      else { ak::ReducerMax r(f, u, s); akb_push_content(c->reduce(r, a->i[0], a->i[1] != 0, a->i[2] != 0)); }
    }
    return;
  }
  if (m == "localindex") { akb_push_content(c->localindex(a->i[0], 0)); return; }
  if (m == "combinations") {
    // i: n, replacement, axis, haskeys, nparampairs ; s: keys (n of them if haskeys) then params
    ak::util::RecordLookupPtr lookup(nullptr);
    int64_t spos = 0;
    if (a->i[3] != 0) {
      lookup = std::make_shared<ak::util::RecordLookup>();
      int64_t nk = a->i[5];
      for (int64_t k = 0; k < nk; k++) lookup->push_back(akb_str(a, spos++));
      if (a->i[0] != (int64_t)lookup->size())
        throw std::invalid_argument("if provided, the length of 'keys' must be 'n'");
    }
    akb_push_content(c->combinations(a->i[0], a->i[1] != 0, lookup, akb_params(a, spos, a->i[4]), a->i[2], 0));
    return;
  }
  if (m == "sort") { akb_push_content(c->sort(a->i[0], a->i[1] != 0, a->i[2] != 0)); return; }
  if (m == "argsort") { akb_push_content(c->argsort(a->i[0], a->i[1] != 0, a->i[2] != 0)); return; }
  if (m == "numbers_to_type") { akb_push_content(c->numbers_to_type(akb_str(a, 0))); return; }
  if (m == "is_unique") { R.i.push_back(c->is_unique() ? 1 : 0); return; }
  if (m == "unique") { akb_push_content(c->unique()); return; }
  if (m == "shallow_simplify") { akb_push_content(c->shallow_simplify()); return; }
  if (m == "referentially_equal") { R.i.push_back(c->referentially_equal(akb_content(a, 0)) ? 1 : 0); return; }
  if (m == "iterate") {
    ak::Iterator it(cp);
    while (!it.isdone()) akb_push_content(it.next());
    return;
  }
  if (call_class_specific(cp, m, a)) return;
  throw std::runtime_error(std::string("bridge: no method ") + m + " on " + c->classname());
}

template <typename T>
static bool list_methods(const ak::ContentPtr& cp, const std::string& m, const AkbArgs* a) {
  // shared by ListArrayOf<T> and ListOffsetArrayOf<T> through duck typing below
  return false;
}

#define LISTLIKE_METHODS(RAW)                                                                       \
  if (m == "compact_offsets64") { akb_push_index(RAW->compact_offsets64(a->i[0] != 0)); return true; }      \
  if (m == "broadcast_tooffsets64") { akb_push_content(RAW->broadcast_tooffsets64(akb_index<int64_t>(a, 0))); return true; } \
  if (m == "toListOffsetArray64") { akb_push_content(RAW->toListOffsetArray64(a->i[0] != 0)); return true; }  \
  if (m == "toRegularArray") { akb_push_content(RAW->toRegularArray()); return true; }               \
  if (m == "simplify") { akb_push_content(RAW->shallow_simplify()); return true; }

template <typename T>
static bool call_listoffset(const ak::ContentPtr& cp, const std::string& m, const AkbArgs* a) {
  const ak::ListOffsetArrayOf<T>* raw = dynamic_cast<const ak::ListOffsetArrayOf<T>*>(cp.get());
  if (raw == nullptr) return false;
  LISTLIKE_METHODS(raw)
  if (m == "starts") { akb_push_index(raw->starts()); return true; }
  if (m == "stops") { akb_push_index(raw->stops()); return true; }
  return false;
}
template <typename T>
static bool call_list(const ak::ContentPtr& cp, const std::string& m, const AkbArgs* a) {
  const ak::ListArrayOf<T>* raw = dynamic_cast<const ak::ListArrayOf<T>*>(cp.get());
  if (raw == nullptr) return false;
  LISTLIKE_METHODS(raw)
  return false;
}
template <typename T, bool O>
static bool call_indexed(const ak::ContentPtr& cp, const std::string& m, const AkbArgs* a) {
  const ak::IndexedArrayOf<T, O>* raw = dynamic_cast<const ak::IndexedArrayOf<T, O>*>(cp.get());
  if (raw == nullptr) return false;
  if (m == "project") {
    if (a->nx > 0) akb_push_content(raw->project(akb_index<int8_t>(a, 0)));
    else akb_push_content(raw->project());
    return true;
  }
  if (m == "bytemask") { akb_push_index(raw->bytemask()); return true; }
  if (m == "simplify") { akb_push_content(raw->simplify_optiontype()); return true; }
  if (m == "isoption") { akb_res().i.push_back(raw->isoption() ? 1 : 0); return true; }
  return false;
}
template <typename T, typename I>
static bool call_union(const ak::ContentPtr& cp, const std::string& m, const AkbArgs* a) {
  const ak::UnionArrayOf<T, I>* raw = dynamic_cast<const ak::UnionArrayOf<T, I>*>(cp.get());
  if (raw == nullptr) return false;
  if (m == "project") { akb_push_content(raw->project(a->i[0])); return true; }
  if (m == "simplify") { akb_push_content(raw->simplify_uniontype(a->i[0] != 0, a->i[1] != 0)); return true; }
  if (m == "content") { akb_push_content(raw->content(a->i[0])); return true; }
  if (m == "numcontents") { akb_res().i.push_back(raw->numcontents()); return true; }
  return false;
}

static bool call_class_specific(const ak::ContentPtr& cp, const std::string& m, const AkbArgs* a) {
  AkbRes& R = akb_res();
  if (call_listoffset<int32_t>(cp, m, a) || call_listoffset<uint32_t>(cp, m, a) || call_listoffset<int64_t>(cp, m, a)) return true;
  if (call_list<int32_t>(cp, m, a) || call_list<uint32_t>(cp, m, a) || call_list<int64_t>(cp, m, a)) return true;
  if (call_indexed<int32_t, false>(cp, m, a) || call_indexed<uint32_t, false>(cp, m, a) || call_indexed<int64_t, false>(cp, m, a)
      || call_indexed<int32_t, true>(cp, m, a) || call_indexed<int64_t, true>(cp, m, a)) return true;
  if (call_union<int8_t, int32_t>(cp, m, a) || call_union<int8_t, uint32_t>(cp, m, a) || call_union<int8_t, int64_t>(cp, m, a)) return true;
  if (const ak::RegularArray* raw = dynamic_cast<const ak::RegularArray*>(cp.get())) {
    LISTLIKE_METHODS(raw)
    return false;
  }
  if (const ak::NumpyArray* raw = dynamic_cast<const ak::NumpyArray*>(cp.get())) {
    if (m == "toRegularArray") { akb_push_content(raw->toRegularArray()); return true; }
    if (m == "contiguous") { akb_push_content(std::make_shared<ak::NumpyArray>(raw->contiguous())); return true; }
    if (m == "iscontiguous") { R.i.push_back(raw->iscontiguous() ? 1 : 0); return true; }
    if (m == "simplify") { akb_push_content(raw->shallow_simplify()); return true; }
    return false;
  }
  if (const ak::EmptyArray* raw = dynamic_cast<const ak::EmptyArray*>(cp.get())) {
    if (m == "toNumpyArray") { akb_push_content(raw->toNumpyArray("d", sizeof(double), ak::util::dtype::float64)); return true; }
    if (m == "simplify") { akb_push_content(raw->shallow_simplify()); return true; }
    return false;
  }
  if (const ak::ByteMaskedArray* raw = dynamic_cast<const ak::ByteMaskedArray*>(cp.get())) {
    if (m == "project") {
      if (a->nx > 0) akb_push_content(raw->project(akb_index<int8_t>(a, 0))); else akb_push_content(raw->project());
      return true;
    }
    if (m == "bytemask") { akb_push_index(raw->bytemask()); return true; }
    if (m == "simplify") { akb_push_content(raw->simplify_optiontype()); return true; }
    if (m == "toIndexedOptionArray64") { akb_push_content(raw->toIndexedOptionArray64()); return true; }
    return false;
  }
  if (const ak::BitMaskedArray* raw = dynamic_cast<const ak::BitMaskedArray*>(cp.get())) {
    if (m == "project") {
      if (a->nx > 0) akb_push_content(raw->project(akb_index<int8_t>(a, 0))); else akb_push_content(raw->project());
      return true;
    }
    if (m == "bytemask") { akb_push_index(raw->bytemask()); return true; }
    if (m == "simplify") { akb_push_content(raw->simplify_optiontype()); return true; }
    if (m == "toByteMaskedArray") { akb_push_content(raw->toByteMaskedArray()); return true; }
    if (m == "toIndexedOptionArray64") { akb_push_content(raw->toIndexedOptionArray64()); return true; }
    return false;
  }
  if (const ak::UnmaskedArray* raw = dynamic_cast<const ak::UnmaskedArray*>(cp.get())) {
    if (m == "project") {
      if (a->nx > 0) akb_push_content(raw->project(akb_index<int8_t>(a, 0))); else akb_push_content(raw->project());
      return true;
    }
    if (m == "bytemask") { akb_push_index(raw->bytemask()); return true; }
    if (m == "simplify") { akb_push_content(raw->simplify_optiontype()); return true; }
    if (m == "toByteMaskedArray") { akb_push_content(raw->toByteMaskedArray()); return true; }
    if (m == "toIndexedOptionArray64") { akb_push_content(raw->toIndexedOptionArray64()); return true; }
    return false;
  }
  if (const ak::RecordArray* raw = dynamic_cast<const ak::RecordArray*>(cp.get())) {
    if (m == "setitem_field") {
      // i[0]: 0 = append (where None), 1 = by key s[0], 2 = by index i[1]
      if (a->i[0] == 0) akb_push_content(raw->setitem_field(raw->numfields(), akb_content(a, 0)));
      else if (a->i[0] == 1) akb_push_content(raw->setitem_field(akb_str(a, 0), akb_content(a, 0)));
      else akb_push_content(raw->setitem_field(a->i[1], akb_content(a, 0)));
      return true;
    }
    if (m == "field") {
      if (a->ns > 0) akb_push_content(raw->field(akb_str(a, 0))); else akb_push_content(raw->field(a->i[0]));
      return true;
    }
    if (m == "astuple") { akb_push_content(raw->astuple()); return true; }
    if (m == "simplify") { akb_push_content(raw->shallow_simplify()); return true; }
    return false;
  }
  if (const ak::Record* raw = dynamic_cast<const ak::Record*>(cp.get())) {
    if (m == "field") {
      if (a->ns > 0) akb_push_content(raw->field(akb_str(a, 0))); else akb_push_content(raw->field(a->i[0]));
      return true;
    }
    if (m == "fields") { for (auto x : raw->fields()) akb_push_content(x); return true; }
    if (m == "astuple") { akb_push_content(raw->astuple()); return true; }
    if (m == "istuple") { R.i.push_back(raw->istuple() ? 1 : 0); return true; }
    return false;
  }
  return false;
}

///////////////////////////////////////////////////////////////// exported entry points

extern "C" {

int akb_make(const char* cls, const AkbArgs* a) {
  AKB_TRY( akb_push_content(make_content(cls, a)) )
}

int akb_call(void* h, const char* method, const AkbArgs* a) {
  AKB_TRY( call_content(reinterpret_cast<AkbContent*>(h)->p, method, a) )
}

void akb_release(void* h) { delete reinterpret_cast<AkbContent*>(h); }
void akb_release_form(void* h) { delete reinterpret_cast<AkbForm*>(h); }
void akb_release_type(void* h) { delete reinterpret_cast<AkbType*>(h); }

// number of other owners of the content node (for sharing diagnostics)
int64_t akb_use_count(void* h) { return (int64_t)reinterpret_cast<AkbContent*>(h)->p.use_count(); }

// result accessors
const char* akb_err_class() { return akb_last().err_class.c_str(); }
const char* akb_err_msg() { return akb_last().err_msg.c_str(); }
int64_t akb_res_ni() { return (int64_t)akb_last().i.size(); }
void akb_res_ints(int64_t* out) { AkbRes& R = akb_last(); if (!R.i.empty()) std::memcpy(out, R.i.data(), R.i.size() * sizeof(int64_t)); }
int64_t akb_res_nd() { return (int64_t)akb_last().d.size(); }
void akb_res_doubles(double* out) { AkbRes& R = akb_last(); if (!R.d.empty()) std::memcpy(out, R.d.data(), R.d.size() * sizeof(double)); }
int64_t akb_res_ns() { return (int64_t)akb_last().s.size(); }
int64_t akb_res_slen(int64_t k) { return (int64_t)akb_last().s[(size_t)k].size(); }
const char* akb_res_sptr(int64_t k) { return akb_last().s[(size_t)k].data(); }
int64_t akb_res_nh() { return (int64_t)akb_last().h.size(); }
void* akb_res_h(int64_t k) { return akb_last().h[(size_t)k]; }
const char* akb_res_hc(int64_t k) { return akb_last().hc[(size_t)k].c_str(); }
int64_t akb_res_nx() { return (int64_t)akb_last().x.size(); }
int64_t akb_res_xdtype(int64_t k) { return akb_last().x[(size_t)k].dtype; }
int64_t akb_res_xlen(int64_t k) { return (int64_t)akb_last().x[(size_t)k].bytes.size(); }
const char* akb_res_xptr(int64_t k) { return akb_last().x[(size_t)k].bytes.data(); }

// Heap churn for C12: allocate, poison and free many blocks of the sizes just used, so that a result
// that still points into a released input buffer reads poison (rel) or trips ASan (san).
void akb_heap_churn(int64_t rounds, int64_t pattern) {
  std::vector<void*> blocks;
  for (int64_t r = 0; r < rounds; r++) {
    for (size_t sz = 1; sz <= 4096; sz = sz * 2 + 7) {
      void* p = std::malloc(sz);
      std::memset(p, (int)pattern, sz);
      blocks.push_back(p);
    }
  }
  for (void* p : blocks) std::free(p);
}

}  // extern "C"
