#!/usr/bin/env python3
"""C01 -- slicing selects exactly the elements Python/NumPy indexing would select."""
import itertools
import os
import sys

sys.path.insert(0, os.path.join(os.path.dirname(os.path.dirname(os.path.abspath(__file__))), "mc"))
import runner  # noqa: E402
import e1  # noqa: E402
import refops  # noqa: E402
import values  # noqa: E402
import opalpha  # noqa: E402
import numpy as np  # noqa: E402
from values import I, F, B, S, UNK, var, reg, opt, rec, tup, union  # noqa: E402


def to_ref_item(x):
    """JSON-able slice item -> reference-model item."""
    if isinstance(x, int):
        return x
    if x is None:
        return None
    if x == "...":
        return Ellipsis
    kind = x[0]
    if kind == "s":
        return slice(x[1], x[2], x[3])
    if kind == "f":
        return refops.Field(x[1])
    if kind == "ff":
        return refops.Fields(x[1])
    if kind == "a":
        return np.array(x[1], dtype=x[2])
    if kind == "opt":
        return list(x[1])
    if kind == "jag":
        return refops.Jagged(x[1])
    raise ValueError(x)


def to_py(x):
    """the same slice as a user would write it for ak.Array.__getitem__: Python ints, slices, Ellipsis, np.newaxis, *lists*
    for index arrays (with None for missing), nested lists for jagged indexes, strings for fields"""
    if isinstance(x, (list, tuple)) and len(x) > 0 and x[0] == "t":
        return tuple(to_py(y) for y in x[1:])
    if x == "...":
        return Ellipsis
    if x is None or isinstance(x, int):
        return x
    kind = x[0]
    if kind == "s":
        return slice(x[1], x[2], x[3])
    if kind == "f":
        return x[1]
    if kind == "ff":
        return list(x[1])
    if kind == "a":
        if x[2] == "int64" and len(x[1]) and not isinstance(x[1][0], list):
            return list(x[1])                      # a plain Python list of integers
        return np.array(x[1], dtype=x[2])
    if kind == "opt":
        return list(x[1])                          # a Python list with None
    if kind == "jag":
        import l3
        return l3.ak().Array(x[1])                 # an explicit (jagged) awkward array
    raise ValueError(x)


def l3_table_c01(T, tvs, tier):
    import l3
    n = len(tvs)
    out = []
    sl = list(singles(n, T, tvs, "quick"))
    if tier == "quick":
        # every integer, index array, mask, option index and jagged index; range slices thinned to the unit/negative steps
        sl = [x for x in sl if not (isinstance(x, list) and x[0] == "s" and x[3] not in (None, -1, 2))]
    items = pair_items(n, T, tvs, "quick")
    pairs = [["t", a, b] for a in items for b in items if not (a == "..." and b == "...")]
    for x in sl + pairs:
        out.append(("getitem %r" % (x,), lambda arr, x=x: l3.tl(arr[to_py(x)]), lambda T, tvs, x=x: refops.getitem(T, tvs, to_ref(x))))
    # the index itself partitioned, at boundaries that differ from the array's: full-length masks and jagged indexes
    if n >= 2:
        for x in sl:
            if isinstance(x, list) and ((x[0] == "a" and x[2] == "bool" and len(x[1]) == n) or x[0] == "jag"):
                for cut in sorted(set([0, 1, n - 1, n])):
                    out.append(("getitem-pidx@%d %r" % (cut, x), lambda arr, x=x, cut=cut: l3.tl(arr[_partitioned_index(x, cut)]),
                                lambda T, tvs, x=x: refops.getitem(T, tvs, to_ref(x))))
    return out


def _partitioned_index(x, cut):
    import l3
    ak = l3.ak()
    whole = ak.Array(np.array(x[1], dtype=np.bool_)) if x[0] == "a" else ak.Array(x[1])
    return ak.partitioned([whole[:cut], whole[cut:]])


def to_ref(sl):
    if isinstance(sl, (list, tuple)) and len(sl) > 0 and sl[0] == "t":
        return tuple(to_ref_item(x) for x in sl[1:])
    return (to_ref_item(sl),)


def singles(n, T, tvs, tier):
    q = tier == "quick"
    out = []
    out.extend(range(-(n + 1), n + 1))
    bounds = [None] + list(range(-(n + 1), n + 2))
    steps = [None, 1, 2, 3, -1, -2, -3] if not q else [None, 1, 2, -1, -2]
    for a in bounds:
        for b in bounds:
            for c in steps:
                out.append(["s", a, b, c])
    out.append("...")
    out.append(None)
    rng = list(range(-(n + 1), n + 1))
    out.append(["a", [], "int64"])
    for a in rng:
        out.append(["a", [a], "int64"])
    for a, b in itertools.product(rng, repeat=2):
        out.append(["a", [a, b], "int64"])
    if n > 0:
        out.append(["a", [[0, n - 1], [-1, 0]], "int64"])
        out.append(["a", [0, n - 1, 0], "int32"])
        out.append(["a", [n - 1], "uint8"])
    for mask in itertools.product([False, True], repeat=n):
        out.append(["a", list(mask), "bool"])
    out.append(["a", [True] * (n + 1), "bool"])
    if n > 0:
        out.append(["a", [True] * (n - 1), "bool"])
    # option-type index arrays
    out.append(["opt", [None]])
    if n > 0:
        out.append(["opt", [0, None]])
        out.append(["opt", [None, n - 1, None, 0]])
        out.append(["opt", [None, n]])
    # jagged indexes (only meaningful when the items are lists)
    inner, isopt = refops.item_types(T)
    if inner[0] in ("var", "reg"):
        sv = values.strip(tvs)
        lens = [len(e) if e is not None else 0 for e in sv]
        out.append(["jag", [list(range(m))[::-1] for m in lens]])
        out.append(["jag", [[0] if m > 0 else [] for m in lens]])
        out.append(["jag", [[-1, 0] if m > 0 else [] for m in lens]])
        out.append(["jag", [[(j % 2 == 0) for j in range(m)] for m in lens]])
        out.append(["jag", [[m] for m in lens]])              # out of range everywhere
        out.append(["jag", [[] for m in lens] + [[]]])        # wrong outer length
        out.append(["jag", [[None, 0] if m > 0 else [None] for m in lens]])
        if any(m > 0 for m in lens):
            out.append(["jag", [[True] * (m + 1) for m in lens]])  # wrong boolean lengths
    keys = _keys(T)
    if keys is not None:
        for k in keys:
            out.append(["f", k])
        out.append(["f", "nonexistent"])
        if keys:
            out.append(["ff", list(keys)])
            out.append(["ff", list(reversed(keys))])
            out.append(["ff", [keys[0], "nonexistent"]])
    return out


def _keys(T):
    k = T[0]
    if k == "rec":
        return [key for key, _ in T[1]]
    if k == "tup":
        return [str(i) for i in range(len(T[1]))]
    if k in ("var", "opt"):
        return _keys(T[1])
    if k == "reg":
        return _keys(T[2])
    return None


def pair_items(n, T, tvs, tier):
    out = [-n - 1, -1, 0, 1, n,
           ["s", None, None, None], ["s", 1, None, None], ["s", None, -1, None], ["s", None, None, -1], ["s", None, None, 2],
           ["s", -1, None, -2], ["s", n + 1, None, None], ["s", 1, 0, None], ["s", -n - 1, n + 1, 1], ["s", 0, 1, None],
           "...", None,
           ["a", [0], "int64"], ["a", [-1, 0], "int64"], ["a", [0, 0], "int64"], ["a", [n], "int64"],
           ["a", [True, False, True, False][:n], "bool"], ["a", [False] * n, "bool"],
           ["opt", [0, None]] if n > 0 else ["opt", [None]]]
    if tier != "quick":
        out += [["a", [[0], [-1]], "int64"], ["a", [1, 0], "int64"], ["s", None, None, 3], ["s", None, None, -3], 2, -2]
    keys = _keys(T)
    if keys:
        out.append(["f", keys[0]])
        out.append(["ff", list(keys)])
    return out


import findings  # noqa: E402


@findings.predicate("c01_partitioned_multi")
def _c01_partitioned_multi(v, params):
    """KF-C01-6: tuple slices, multi-dimensional index arrays and jagged indexes of the wrong length on partitioned arrays"""
    items = str(v.get("items", ""))
    if items.startswith("pidx:"):
        return False
    return "+" in items or bool(v.get("adv_2d")) or (items == "jag" and v.get("failure") == "missing-error")


class C01(e1.E1Check):
    id = "C01"
    types_quick = [I, var(I), var(var(I)), reg(2, I), reg(2, reg(2, I)), var(reg(2, I)), reg(2, var(I)), opt(I), var(opt(I)),
                   opt(var(I)), rec(("x", I), ("y", var(I))), var(rec(("x", I), ("y", F))), S, var(S), tup(I, var(F)),
                   opt(var(opt(I))), reg(0, I), var(UNK), opt(rec(("x", I))), reg(3, I)]
    types_thorough = types_quick + [var(var(var(I))), var(opt(var(I))), reg(2, reg(2, reg(2, I))), var(reg(0, I)),
                                    reg(1, var(I)), var(var(opt(I))), rec(("x", var(I)), ("y", var(var(F)))),
                                    var(rec(("x", opt(I)), ("y", var(I)))), var(opt(S)), F, B, var(B),
                                    union(I, var(I)), var(union(I, S))]
    bounds_quick = dict(N=2, M=2, K=5, enc_k=1, state_cap=18, parts=2)
    bounds_thorough = dict(N=3, M=2, K=7, enc_k=1, state_cap=3, parts=16)
    rule = ("states = arrays of the type menu x physical encodings (<= enc_k non-canonical nodes); transitions = getitem with "
            "every single item of the full item alphabet (all ints, all start/stop/step ranges, ellipsis, newaxis, all small "
            "integer arrays incl. out-of-range and repeated, 2-d and narrow dtypes, all boolean masks and wrong lengths, "
            "option-type index arrays, jagged int/bool/None arrays matching and mismatching the structure, fields and field "
            "lists) and every pair (thorough: also triples) over a reduced item alphabet; oracle = level-by-level "
            "Python/NumPy selection on nested lists (model/refops.py; equals NumPy on rectilinear inputs by self-test); "
            "out-of-range (by type for regular dimensions, by data for variable ones) must raise. non-trivial = non-empty "
            "result or required error raised.")
    assumptions = ["bridge+mirror marshalling; the Python port of toslice()/getitem<T> from src/python/content.cpp "
                   "stands in for the uncompilable original"]

    l3_table = "C01"

    def l3_spec(self):
        from values import I, F, S, var, opt, rec, reg
        return l3_table_c01, [var(I), var(var(I)), opt(var(I)), var(opt(I)), reg(2, I), rec(("x", I), ("y", var(I))),
                              var(rec(("x", I), ("y", F))), var(S), I]

    def l3_bounds(self, tier):
        # three rows are needed for two partitions of an index to differ from the array's two partitions
        return (3, 2, 10) if tier == "quick" else (3, 2, 40)

    def l3_signature(self, T, tvs, label):
        import ast
        pidx = label.startswith("getitem-pidx")
        sl = ast.literal_eval(label[label.index(" ") + 1:])
        sig = {"op": "getitem"}
        sig.update(self.signature(T, tvs, None, None, "getitem", (sl,), None))
        if pidx:
            sig["items"] = "pidx:" + sig["items"]
        return sig

    def alphabet(self, T, tvs, tier):
        n = len(tvs)
        ops = [("getitem", (x,)) for x in singles(n, T, tvs, tier)]
        items = pair_items(n, T, tvs, tier)
        for a in items:
            for b in items:
                if a == "..." and b == "...":
                    continue
                ops.append(("getitem", (["t", a, b],)))
        if tier != "quick":
            small = [0, -1, ["s", None, None, None], ["s", None, None, -1], ["s", 1, None, None], "...", None,
                     ["a", [0], "int64"], ["a", [-1, 0], "int64"], ["a", [True, False, True][:n], "bool"]]
            for a in small:
                for b in small:
                    for c in small:
                        if [a, b, c].count("...") > 1:
                            continue
                        ops.append(("getitem", (["t", a, b, c],)))
        return ops

    def expected(self, T, tvs, opname, args):
        return refops.getitem(T, tvs, to_ref(args[0]))

    def refusal_ok(self, T, tvs, opname, args, err):
        """Documented refusal (Slice.cpp): 'advanced indexes separated by basic indexes is not permitted (simple integers are
        advanced when any arrays are present)'.  Accepted only by this syntactic test on the slice, never because an error
        was seen: some index array is present, and between two advanced items (arrays, and integers once arrays are
        present) stands a basic one (range slice, ellipsis, newaxis)."""
        sl = args[0]
        items = sl[1:] if isinstance(sl, (list, tuple)) and sl and sl[0] == "t" else [sl]

        def is_array(x):
            return isinstance(x, (list, tuple)) and len(x) > 1 and x[0] in ("a", "opt", "jag")
        if not any(is_array(x) for x in items):
            return False
        adv = [k for k, x in enumerate(items) if is_array(x) or (isinstance(x, int) and not isinstance(x, bool))]
        if len(adv) < 2:
            return False
        between = items[adv[0]:adv[-1] + 1]
        return any(x is None or x == "..." or (isinstance(x, (list, tuple)) and x and x[0] == "s") for x in between)

    def signature(self, T, tvs, d, names, opname, args, failure):
        sl = args[0]
        kinds = []
        for x in (sl[1:] if isinstance(sl, (list, tuple)) and sl and sl[0] == "t" else [sl]):
            if isinstance(x, int):
                kinds.append("int")
            elif x is None:
                kinds.append("newaxis")
            elif x == "...":
                kinds.append("ellipsis")
            else:
                kinds.append(x[0] + (":" + x[2] if x[0] == "a" else ""))
        adv_empty = False
        for x in (sl[1:] if isinstance(sl, (list, tuple)) and sl and sl[0] == "t" else [sl]):
            if isinstance(x, (list, tuple)) and len(x) > 1 and x[0] == "a":
                arr = np.array(x[1], dtype=x[2])
                adv_empty = adv_empty or (int(arr.sum()) == 0 if arr.dtype == np.bool_ else arr.size == 0)
        adv_2d = any(isinstance(x, (list, tuple)) and len(x) > 1 and x[0] == "a" and x[1] and isinstance(x[1][0], list)
                     for x in (sl[1:] if isinstance(sl, (list, tuple)) and sl and sl[0] == "t" else [sl]))
        sig = {"items": "+".join(kinds), "adv_empty": adv_empty, "adv_2d": adv_2d,
               "long_record": any("long-contents" in n for n in (names or []))}
        if "opt" in kinds and len(kinds) > 1:
            # does the part of the slice before the option-type index select no rows / an option-type row?
            items = sl[1:]
            first = items[0]
            if isinstance(first, (list, tuple)) and first[0] == "s":
                sig["rows_selected"] = min(2, len(range(*slice(first[1], first[2], first[3]).indices(len(tvs)))))
            if isinstance(first, int) or (isinstance(first, (list, tuple)) and first[0] == "s"):
                sig["row_is_option"] = T[0] == "opt"
        return sig


if __name__ == "__main__":
    sys.exit(runner.main(C01()))
