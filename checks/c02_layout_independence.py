#!/usr/bin/env python3
"""C02 -- results depend only on an array's logical value, never on its physical layout (differential)."""
import json
import os
import sys

sys.path.insert(0, os.path.join(os.path.dirname(os.path.dirname(os.path.abspath(__file__))), "mc"))
import runner  # noqa: E402
from runner import Stats  # noqa: E402
import pool  # noqa: E402
import e1  # noqa: E402
import layouts  # noqa: E402
import layoutsem  # noqa: E402
import values  # noqa: E402
import encs  # noqa: E402
import opalpha  # noqa: E402
import ext  # noqa: E402


def outcome(lay, name, args):
    try:
        res = opalpha.apply(lay, name, list(args))
        if name == "tojson":
            return ("value", json.loads(res, parse_constant=lambda c: c))
        return ("value", e1.observe(res))
    except AttributeError:
        return ("n/a", None)   # node-class specific method that this encoding's class does not have
    except e1.ERRORS as err:
        return ("error", type(err).__name__)
    except layoutsem.Invalid as err:
        return ("invalid", str(err))


class C02(runner.Check):
    id = "C02"
    level = "model_checking"
    rule = ("states = (value, encoding) pairs: every array of the type menu in its canonical encoding and in every re-encoding "
            "with <= enc_k non-canonical nodes (ListOffset/List 32/U32/64, shifted origins and windows of longer index buffers, "
            "permuted/gapped ListArrays, empty lists placed anywhere, IndexedArray indirection, the five option encodings incl. "
            "bit masks with garbage padding, strided/offset/2-d NumPy buffers, permuted unions, over-long record fields); "
            "transitions = the union alphabet of structural operations (slices, reducers, sort/argsort, num/flatten/localindex, "
            "combinations, rpad, fillna, merge, copies, normalisers, tojson, iteration) with small argument domains; oracle = "
            "differential: same value and same success/error outcome (error class not compared) as the canonical encoding; "
            "thorough also re-runs depth-2 chains on results vs. a canonical rebuild of the result's value. non-trivial = "
            "canonical outcome is a non-empty value. distinct by construction.")
    assumptions = ["bridge+mirror marshalling", "equivalence of encodings is established by model/layoutsem.py (self-test)"]
    bounds = {"quick": dict(N=2, M=2, K=5, enc_k=1, state_cap=28), "thorough": dict(N=3, M=2, K=7, enc_k=1, state_cap=20)}

    def types(self, tier):
        return values.TYPES_QUICK if tier == "quick" else values.TYPES_THOROUGH

    def shards(self, tier):
        return [(tier, ti, part) for ti in range(len(self.types(tier))) for part in range(2 if tier == "quick" else 8)] + \
               [(tier, "extra", g) for g in range(len(self.extra_states(tier)))]

    def extra_states(self, tier):
        """values the generic universe is too small for: option nodes that span more than one mask byte"""
        from values import I, var, opt
        g1 = [(opt(I), tvs) for tvs in values.long_option_values((9, 17) if tier == "quick" else (8, 9, 15, 16, 17, 25))]
        g2 = [(var(opt(I)), tvs) for tvs in values.long_option_list_values()]
        h = len(g1) // 2
        return [g1[:h], g1[h:], g2]

    def run_shard(self, shard):
        tier, ti, part = shard
        nparts = 2 if tier == "quick" else 8
        b = self.bounds[tier]
        st = Stats()
        no = 0
        nvals = 0
        if ti == "extra":
            universe = [(0, T, tvs) for T, tvs in self.extra_states(tier)[part]]
            nparts, part = 1, 0
        else:
            T0 = self.types(tier)[ti]
            universe = ((ai, T0, tvs) for ai, tvs in enumerate(values.arrays(T0, b["N"], b["M"], b["K"])))
        for ai, T, tvs in universe:
            if ai % nparts != part:
                continue
            nvals += 1
            if ti != "extra" and nvals > b["state_cap"]:
                st.caps.append("type %s part %d: value cap %d" % (values.tstr(T), part, b["state_cap"]))
                break
            canon_d = None
            canon_out = None
            ops = None
            for d, names in encs.encodings(T, tvs, b["enc_k"], True):
                st.states += 1
                lay = layouts.build(d)
                if canon_d is None:
                    canon_d = d
                    ops = [(n, a) for n, a, _ in opalpha.ops_for(d, T, tier)] + [("tojson", ()), ("iterate", ())]
                    canon_out = []
                    for name, args in ops:
                        no += 1
                        pool.mark(no)
                        canon_out.append(outcome(lay, name, args))
                        st.transitions += 1
                        st.evaluations += 1
                    continue
                for (name, args), want in zip(ops, canon_out):
                    no += 1
                    pool.mark(no)
                    st.transitions += 1
                    st.evaluations += 1
                    got = outcome(lay, name, args)
                    if want[0] == "n/a" or got[0] == "n/a":
                        st.outcome("%s:class-specific" % name)
                        continue
                    same = (want[0] == got[0]) and (want[0] != "value" or layoutsem.same(want[1], got[1]))
                    if same:
                        st.outcome("%s:%s" % (name, want[0]))
                        if want[0] == "value" and not e1.trivial(want[1]):
                            st.nontrivial += 1
                    else:
                        st.violation("layout-dependence",
                                     "%s%r: canonical %s -> %s %r ; re-encoding %s (%s) -> %s %r" % (
                                         name, tuple(args), layouts.short(canon_d)[:250], want[0], want[1],
                                         layouts.short(d)[:300], names, got[0], got[1]),
                                     {"canonical": layouts.to_json(canon_d), "layout": layouts.to_json(d), "op": name,
                                      "args": e1._jsonable(args)},
                                     op=name, enc="+".join(sorted(set(n.split("-")[0].rstrip("0123456789U_") + ("-" + "-".join(n.split("-")[1:]) if "-" in n else "") for n in names))),
                                     want=want[0], got=got[0], has_option=_has(T, "opt"), has_string=_has(T, "str") or _has(T, "bytes"),
                                     has_record=_has(T, "rec") or _has(T, "tup"), has_union=_has(T, "union"))
                if nvals % 23 == 1:
                    st.sample({"type": values.tstr(T), "value": repr(values.strip(tvs))[:150], "encoding": names,
                               "layout": layouts.short(d)[:300]})
        pool.unmark()
        return st.pack()

    def replay(self, case):
        a = layouts.build(layouts.from_json(case["canonical"]))
        b = layouts.build(layouts.from_json(case["layout"]))
        wa = outcome(a, case["op"], case["args"])
        wb = outcome(b, case["op"], case["args"])
        bad = not ((wa[0] == wb[0]) and (wa[0] != "value" or layoutsem.same(wa[1], wb[1])))
        return bad, "op %s%r\ncanonical   %s\n  -> %r\nre-encoding %s\n  -> %r" % (
            case["op"], case["args"], layouts.short(layouts.from_json(case["canonical"])), wa,
            layouts.short(layouts.from_json(case["layout"])), wb)


def _has(T, kind):
    import refops
    return refops._has_kind(T, (kind,))


if __name__ == "__main__":
    sys.exit(runner.main(C02()))
