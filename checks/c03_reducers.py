#!/usr/bin/env python3
"""C03 -- reducers combine exactly the elements that differ only along the reduced axis."""
import os
import sys

sys.path.insert(0, os.path.join(os.path.dirname(os.path.dirname(os.path.abspath(__file__))), "mc"))
import runner  # noqa: E402
import e1  # noqa: E402
import refops  # noqa: E402
import values  # noqa: E402
from values import I, F, B, var, reg, opt, rec  # noqa: E402

REDUCERS = ["count", "count_nonzero", "sum", "prod", "any", "all", "min", "max", "argmin", "argmax"]


def tie_labels(kind, k):
    """Leaf values with ties, zeros and negatives so that extremum positions and identities matter."""
    if kind == "int":
        return [2, 0, 2, -1, 0, 3, -1, 3][k % 8]
    if kind == "float":
        return [1.5, -0.5, 1.5, 0.0, 2.5, -0.5, 2.5, 0.0][k % 8]
    if kind == "bool":
        return [True, False, False, True][k % 4]
    return values.default_label(kind, k)


def has_empty_inner(v, top=True):
    if isinstance(v, list):
        if not top and len(v) == 0:
            return True
        return any(has_empty_inner(e, False) for e in v)
    return False


def rows_permuted(exp, got):
    """True when got can be obtained from exp by permuting rows at some list level (right groups, wrong
    places) -- used only to keep the known-finding signature narrow."""
    import itertools
    if refops.matches(exp, got):
        return True
    if isinstance(exp, list) and isinstance(got, list) and len(exp) == len(got):
        if len(exp) <= 5:
            for perm in itertools.permutations(range(len(exp))):
                if all(refops.matches(exp[i], got[j]) for i, j in enumerate(perm)):
                    return True
        return all(rows_permuted(e, g) for e, g in zip(exp, got))
    return False


def empty_list_of_regular(T, v):
    """Does the value contain an empty list (the array itself included) whose elements are regular lists?"""
    k = T[0]
    if k == "opt":
        return v is not None and empty_list_of_regular(T[1], v)
    if k in ("var", "reg"):
        Tc = T[1] if k == "var" else T[2]
        inner = Tc[1] if Tc[0] == "opt" else Tc
        if len(v) == 0 and inner[0] == "reg" and inner[1] > 0:
            return True
        return any(empty_list_of_regular(Tc, e) for e in v)
    return False


def option_of_list(T):
    k = T[0]
    if k == "opt":
        return T[1][0] in ("var", "reg") or option_of_list(T[1])
    if k == "var":
        return option_of_list(T[1])
    if k == "reg":
        return option_of_list(T[2])
    return False


def empty_lol(T, v):
    """Does the value contain an empty list whose elements would themselves be lists?"""
    k = T[0]
    if k == "opt":
        return v is not None and empty_lol(T[1], v)
    if k in ("var", "reg"):
        Tc = T[1] if k == "var" else T[2]
        inner = Tc[1] if Tc[0] == "opt" else Tc
        if len(v) == 0 and inner[0] in ("var", "reg"):
            return True
        return any(empty_lol(Tc, e) for e in v)
    return False


class C03(e1.E1Check):
    id = "C03"
    l3_table = "C03"
    types_quick = [I, F, B, var(I), var(F), var(B), var(var(I)), reg(2, I), var(reg(2, I)), reg(2, var(I)), opt(I), var(opt(I)),
                   opt(var(I)), opt(var(opt(F))), var(var(opt(I))), reg(0, I), reg(3, I), var(opt(var(I)))]
    types_thorough = types_quick + [var(var(var(I))), reg(2, reg(2, I)), var(var(F)), var(opt(B)), opt(var(var(I))),
                                    var(reg(0, I)), reg(1, var(I)), var(var(var(opt(I))))]
    bounds_quick = dict(N=3, M=2, K=6, enc_k=1, state_cap=45, parts=2)
    bounds_thorough = dict(N=4, M=3, K=8, enc_k=1, state_cap=40, parts=16)
    labeler = staticmethod(tie_labels)
    rule = ("states = arrays (leaf values with ties, zeros, negatives; missing values and missing lists at every level; empty "
            "lists and empty arrays) x encodings; transitions = 10 reducers x every axis in [-depth-1, depth] x mask_identity x "
            "keepdims; oracle = group-by-coordinates definition (model/refops.reduce): missing skipped, missing lists stay "
            "missing, empty group -> identity or None, arg-reducers give the first extremum's position (both counting "
            "conventions admitted for missing *lists*, DESIGN 7); illegal axes must raise. non-trivial = non-empty result or "
            "required error.")
    assumptions = ["bridge+mirror marshalling", "reference reducer semantics in model/refops.py"]

    def extra_states(self, tier):
        """Rows of pairwise different lengths with distinct leaf values (increasing and decreasing), every position of a
        single None and no None at all under an option type: the states in which a non-innermost reduction has to
        carry the gaps of the shorter rows along (nextshifts)."""
        import itertools
        import encs
        groups = []
        lens = [(1, 2, 3), (0, 1, 2), (0, 2, 3), (1, 3)] if tier == "quick" else [(1, 2, 3), (0, 1, 2), (0, 2, 3), (0, 1, 3), (1, 3), (2, 3), (1, 2, 4)]
        for leafT, optional in ((I, False), (I, True), (F, True)):
            T = var(opt(leafT)) if optional else var(leafT)
            group = []
            for pattern in lens:
                for perm in sorted(set(itertools.permutations(pattern))):
                    n = sum(perm)
                    for direction in (1, -1):
                        labels = list(range(1, n + 1))[::direction]
                        if leafT is F:
                            labels = [x + 0.5 for x in labels]
                        holes = [None] + (list(range(n)) if optional else [])
                        for hole in holes:
                            flat = [None if i == hole else x for i, x in enumerate(labels)]
                            tvs, k = [], 0
                            for r in perm:
                                tvs.append(flat[k:k + r])
                                k += r
                            group.append((T, tvs, list(encs.encodings(T, tvs, 1, tier != "quick"))))
            # split into shards of about 40 values
            for k in range(0, len(group), 40):
                groups.append(group[k:k + 40])
        return groups

    def alphabet(self, T, tvs, tier):
        lo, hi = refops.array_depth(T)
        ops = []
        for ax in range(-hi - 1, hi + 1):
            for r in REDUCERS:
                for mask in (False, True):
                    for keep in (False, True):
                        ops.append((r, (ax, mask, keep)))
        return ops

    def expected(self, T, tvs, opname, args):
        return refops.reduce(T, tvs, opname, args[0], bool(args[1]), bool(args[2]))

    def l3_signature(self, T, tvs, label):
        import re
        m = re.search(r"axis=(-?\d+)", label)
        if not m:
            return {}
        lo, hi = refops.array_depth(T)
        ax = int(m.group(1))
        pos = ax if ax >= 0 else ax + lo
        permuted = False
        if getattr(self, "_last", None) is not None:
            permuted = rows_permuted(self._last[0], self._last[1])
        return {"innermost": pos == lo - 1, "empty_with_regular": empty_list_of_regular(("var", T), list(tvs)),
                "empty_inner_list": has_empty_inner(values.strip(list(tvs))), "option_of_list": option_of_list(T),
                "arg": label.startswith("arg"), "rows_permuted": permuted, "levels_below": lo - 1 - pos, "depth": lo}

    def signature(self, T, tvs, d, names, opname, args, failure):
        tvs = [e for e in tvs]
        lo, hi = refops.array_depth(T)
        ax = args[0]
        pos = ax if ax >= 0 else ax + lo
        permuted = False
        if failure == "value" and self._last is not None:
            permuted = rows_permuted(self._last[0], self._last[1])
        return {"innermost": pos == lo - 1, "rows_permuted": permuted, "empty_inner_list": has_empty_inner(values.strip(tvs)),
                "levels_below": lo - 1 - pos, "depth": lo,
                "has_option": refops._has_kind(T, ("opt",)), "arg": opname.startswith("arg"),
                "option_of_list": option_of_list(T),
                "empty_with_regular": empty_list_of_regular(("var", T), list(tvs))}


if __name__ == "__main__":
    sys.exit(runner.main(C03()))
