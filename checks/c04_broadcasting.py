#!/usr/bin/env python3
"""C04 -- ufuncs apply element-wise after NumPy-right / tree-left broadcasting (tier L3: the repository's own
Python layer -- _util.broadcast_and_apply, _connect/_numpy.array_ufunc, highlevel operators -- on the mirror)."""
import itertools
import os
import sys

sys.path.insert(0, os.path.join(os.path.dirname(os.path.dirname(os.path.abspath(__file__))), "mc"))
import runner  # noqa: E402
from runner import Stats  # noqa: E402
import pool  # noqa: E402
import numpy as np  # noqa: E402
import layouts  # noqa: E402
import layoutsem  # noqa: E402
import values  # noqa: E402
import encs  # noqa: E402
import refops  # noqa: E402
from values import I, F, B, var, reg, opt  # noqa: E402

TYPES = [I, F, var(I), var(var(I)), reg(2, I), reg(1, I), var(reg(2, I)), reg(2, var(I)), opt(I), var(opt(I)), opt(var(I)),
         reg(1, var(I)), var(reg(1, I)), reg(2, reg(1, I)), B, var(F)]
EXTRA = [("scalar", 3), ("scalar", 2.5), ("numpy", [10, 20]), ("numpy", [[10], [20]]), ("numpy", [[10, 20]]), ("numpy", [5]),
         ("numpy", [[1, 2], [3, 4]]), ("numpy", [])]
BINARY = ["add", "subtract", "multiply", "equal", "less", "logical_and", "maximum"]
UNARY = ["negative", "absolute"]


def operands(tier):
    """-> list of (label, kind, T, value, desc) ; arrays in canonical and one non-canonical encoding"""
    out = []
    N, M, cap = (2, 2, 5) if tier == "quick" else (3, 2, 14)
    for T in TYPES:
        n = 0
        for tvs in values.arrays(T, N, M, 5):
            n += 1
            if n > cap:
                break
            encl = list(encs.encodings(T, tvs, 1, False))
            picks = [encl[0]]
            if len(encl) > 1:
                picks.append(encl[1 + (n * 7) % (len(encl) - 1)])
            for d, names in picks:
                out.append((values.tstr(T) + ":" + repr(values.strip(tvs)) + ("" if not names else " as " + "+".join(names)), "ak", T, tvs, d))
    for kind, v in EXTRA:
        out.append(("%s:%r" % (kind, v), kind, None, v, None))
    return out


class C04(runner.Check):
    id = "C04"
    level = "exploration"
    rule = ("all ordered pairs of operands drawn from: awkward arrays over a numeric type menu (regular / ragged / option at "
            "each level, size-1 regular dimensions, canonical plus one non-canonical encoding), Python scalars and NumPy arrays "
            "of 1-2 dimensions; x binary ufuncs {add, subtract, multiply, equal, less, logical_and, maximum} through "
            "numpy.<ufunc>(a, b) and the operator mix-in, plus unary {negative, absolute}; oracle = reference broadcasting "
            "(scalars and size-1 regular dimensions repeat, all-regular operands align right as NumPy, ragged operands align "
            "left, None in any operand gives None, unequal list lengths raise) with NumPy applied at the leaves; on "
            "rectilinear inputs NumPy itself is a second oracle. non-trivial = non-empty result or required error.")
    assumptions = ["tier L3: /repo/src/awkward runs unmodified on the pure-Python mirror of awkward._ext",
                   "reference broadcasting in model/refops.py"]

    def shards(self, tier):
        n = len(operands(tier))
        k = 32
        return [(tier, i, k) for i in range(k)]

    def run_shard(self, shard):
        tier, part, nparts = shard
        import install
        ak = install.install()
        st = Stats()
        ops = operands(tier)
        built = {}

        def build(o):
            label, kind, T, v, d = o
            if label in built:
                return built[label]
            if kind == "ak":
                x = ak.Array(layouts.build(d))
                b = refops.array_to_blist(T, v)
            elif kind == "numpy":
                x = np.array(v, dtype=np.int64)
                b = refops.numpy_to_blist(x)
            else:
                x, b = v, v
            built[label] = (x, b)
            return x, b
        no = 0
        pairno = 0
        for ia, oa in enumerate(ops):
            for ib, ob in enumerate(ops):
                pairno += 1
                if pairno % nparts != part:
                    continue
                if oa[1] != "ak" and ob[1] != "ak":
                    continue
                st.states += 1
                xa, ba = build(oa)
                xb, bb = build(ob)
                for uf in BINARY:
                    if uf == "subtract" and _is_bool(oa) and _is_bool(ob):
                        continue   # NumPy itself refuses boolean subtract (TypeError, raised even for empty arrays)
                    no += 1
                    pool.mark(no)
                    st.transitions += 1
                    st.evaluations += 1
                    f = getattr(np, uf)
                    try:
                        exp = ("value", refops.broadcast_apply(f, [ba, bb]))
                    except refops.RefError as err:
                        exp = ("error", str(err))
                    except refops.Skip:
                        continue
                    try:
                        if uf == "add" and (ia + ib) % 2 == 0:
                            res = xa + xb
                        elif uf == "less" and (ia + ib) % 2 == 0:
                            res = xa < xb
                        else:
                            res = f(xa, xb)
                        got = ("value", ak.to_list(res))
                    except (ValueError, TypeError, RuntimeError, IndexError) as err:
                        got = ("error", "%s: %s" % (type(err).__name__, str(err)[:120]))
                    self._judge(st, uf, oa, ob, exp, got)
                if pairno % 401 == 0:
                    st.sample({"a": oa[0][:120], "b": ob[0][:120], "ufuncs": BINARY})
        # unary
        for ia, oa in enumerate(ops):
            if oa[1] != "ak" or ia % nparts != part:
                continue
            xa, ba = build(oa)
            for uf in UNARY:
                if refops._leaf_kind(oa[2]) == "bool":
                    continue
                no += 1
                pool.mark(no)
                st.transitions += 1
                st.evaluations += 1
                f = getattr(np, uf)
                try:
                    exp = ("value", refops.broadcast_apply(f, [ba]))
                except refops.Skip:
                    continue
                try:
                    got = ("value", ak.to_list(f(xa)))
                except (ValueError, TypeError, RuntimeError, IndexError) as err:
                    got = ("error", str(err)[:120])
                self._judge(st, uf, oa, None, exp, got)
        pool.unmark()
        return st.pack()

    def _judge(self, st, uf, oa, ob, exp, got):
        if exp[0] == got[0] and (exp[0] == "error" or refops.matches(exp[1], got[1])):
            st.outcome("%s:%s" % (uf, exp[0]))
            if exp[0] == "error" or not _trivial(exp[1]):
                st.nontrivial += 1
            return
        case = {"ufunc": uf, "a": _case_of(oa), "b": _case_of(ob) if ob else None}
        st.violation("broadcast-" + ("value" if exp[0] == got[0] else exp[0] + "-vs-" + got[0]),
                     "%s(%s, %s): expected %s %r, got %s %r" % (uf, oa[0][:200], ob[0][:200] if ob else "", exp[0], exp[1], got[0], got[1]),
                     case, failure=exp[0] + "/" + got[0], kinds="%s+%s" % (oa[1], ob[1] if ob else "-"),
                     shape="%s|%s" % (_shape(oa), _shape(ob) if ob else "-"),
                     reg_over_var=_reg_over_var(oa) or (ob is not None and _reg_over_var(ob)),
                     tail=(" as " in oa[0] and "RegularArray-tail" in oa[0]) or (ob is not None and "RegularArray-tail" in ob[0]),
                     all_none=_all_none(oa[0]) or (ob is not None and _all_none(ob[0])))

    def replay(self, case):
        import install
        ak = install.install()

        def mk(c):
            if c["kind"] == "ak":
                return ak.Array(layouts.build(layouts.from_json(c["layout"])))
            if c["kind"] == "numpy":
                return np.array(c["value"], dtype=np.int64)
            return c["value"]
        a = mk(case["a"])
        f = getattr(np, case["ufunc"])
        try:
            res = f(a, mk(case["b"])) if case["b"] else f(a)
            return True, "observed: %r" % (ak.to_list(res),)
        except Exception as err:
            return True, "raised: %r" % (err,)


def _is_bool(o):
    label, kind, T, v, d = o
    if kind == "ak":
        return refops._leaf_kind(T) == "bool"
    return isinstance(v, bool)


def _all_none(text):
    """operand description 'type:value as encoding': is the value a non-empty list of None only?"""
    import re
    v = text.split(":", 1)[1] if ":" in text else text
    v = v.split(" as ")[0].strip()
    return re.match(r"^\[None(, None)*\]$", v) is not None


def _reg_over_var(o):
    """a regular dimension of size != 1 above a variable-length one"""
    label, kind, T, v, d = o
    if kind != "ak":
        return False

    def rec(T, seen_reg):
        k = T[0]
        if k == "opt":
            return rec(T[1], seen_reg)
        if k == "reg":
            return rec(T[2], seen_reg or T[1] != 1)
        if k == "var":
            return seen_reg or rec(T[1], seen_reg)
        return False
    return rec(T, False)


def _shape(o):
    """coarse structural class of an operand, for signatures"""
    label, kind, T, v, d = o
    if kind != "ak":
        return kind + (str(np.array(v).ndim) if kind == "numpy" else "")
    t = values.tstr(T).replace("int", "n").replace("float", "n").replace("bool", "n")
    return t


def _case_of(o):
    label, kind, T, v, d = o
    if kind == "ak":
        return {"kind": "ak", "type": values.tstr(T), "layout": layouts.to_json(d)}
    return {"kind": kind, "value": v}


def _trivial(v):
    if v is None:
        return True
    if isinstance(v, list):
        return all(_trivial(x) for x in v)
    return False


if __name__ == "__main__":
    sys.exit(runner.main(C04()))
