#!/usr/bin/env python3
"""C05 -- flatten, num, local_index (and unflatten, L3 part) obey the list-structure laws."""
import os
import sys

sys.path.insert(0, os.path.join(os.path.dirname(os.path.dirname(os.path.abspath(__file__))), "mc"))
import runner  # noqa: E402
import e1  # noqa: E402
import refops  # noqa: E402
import values  # noqa: E402


class C05(e1.E1Check):
    id = "C05"
    l3_table = "C05"
    rule = ("states = every array of the type menu (outer length<=N, inner lists<=M, leaves<=K, distinct leaf labels) in "
            "every physical encoding with <= enc_k non-canonical nodes; transitions = num / offsets_and_flatten / localindex "
            "at every axis in [-depth-1, depth+1]; oracle = list laws on nested lists (model/refops.py), illegal axes must "
            "raise. non-trivial = result holds at least one element, or a required error was raised; distinct by construction.")
    assumptions = ["bridge+mirror marshalling (self-tested)", "reference list semantics in model/refops.py"]

    def alphabet(self, T, tvs, tier):
        lo, hi = refops.array_depth(T)
        ops = []
        for ax in range(-hi - 1, hi + 2):
            ops.append(("num", (ax,)))
            ops.append(("flatten", (ax,)))
            ops.append(("localindex", (ax,)))
        return ops

    def expected(self, T, tvs, opname, args):
        ax = args[0]
        if opname == "num":
            return refops.num(T, tvs, ax)
        if opname == "localindex":
            return refops.local_index(T, tvs, ax)
        if opname == "flatten":
            lo, hi = refops.array_depth(T)
            if ax == 0 or (lo == hi and ax + lo == 0):
                raise refops.Skip("offsets_and_flattened(axis=0) is refused at this level (the Python layer handles axis 0)")
            return refops.flatten(T, tvs, ax)
        raise ValueError(opname)

    def matches(self, exp, got, opname, args):
        if opname == "flatten":
            return isinstance(got, tuple) and refops.matches(exp, got[1])
        return refops.matches(exp, got)

    def signature(self, T, tvs, d, names, opname, args, failure):
        return {"axis_sign": "neg" if args[0] < 0 else "nonneg", "type": values.tstr(T)}


if __name__ == "__main__":
    sys.exit(runner.main(C05()))
