#!/usr/bin/env python3
"""C06 -- sort/argsort order every list along the axis without moving data between lists."""
import math
import os
import sys

sys.path.insert(0, os.path.join(os.path.dirname(os.path.dirname(os.path.abspath(__file__))), "mc"))
import runner  # noqa: E402
import e1  # noqa: E402
import refops  # noqa: E402
import values  # noqa: E402
from values import I, F, B, S, BY, var, reg, opt  # noqa: E402


def sort_labels(kind, k):
    if kind == "int":
        return [1, 0, 1, 2, 0, 2, -3, 1][k % 8]
    if kind == "float":
        return [0.0, math.nan, 1.0, -math.inf, 0.0, math.nan, 1.0, 2.5][k % 8]
    if kind == "bool":
        return [True, False, True, True, False][k % 5]
    if kind == "str":
        return ["b", "", "ab", "a", "B", "é", "b", "ab"][k % 8]
    if kind == "bytes":
        return [b"b", b"", b"ab", b"a", b"B", b"\xff", b"b"][k % 7]
    return values.default_label(kind, k)


class C06(e1.E1Check):
    id = "C06"
    types_quick = [I, F, B, S, BY, var(I), var(F), var(B), var(S), opt(I), opt(F), var(opt(I)), var(opt(F)), opt(var(I)),
                   reg(2, I), reg(3, F), var(var(I)), var(reg(2, I)), reg(2, var(F)), var(opt(var(I))), opt(S), var(opt(S))]
    types_thorough = types_quick + [var(var(F)), var(var(opt(I))), var(var(var(I))), reg(2, reg(2, F)), opt(var(opt(F))), var(BY)]
    bounds_quick = dict(N=3, M=3, K=7, enc_k=1, state_cap=120, parts=2)
    bounds_thorough = dict(N=4, M=4, K=10, enc_k=1, state_cap=3000, parts=8)
    labeler = staticmethod(sort_labels)
    rule = ("states = arrays whose leaves carry ties, NaN, -inf, signed values, booleans, strings/bytestrings ('' 'a' 'ab' 'b' 'B' "
            "non-ASCII), missing leaves and missing lists, x encodings; transitions = sort and argsort at every axis x ascending x "
            "stable; oracle (innermost lists and lists of strings): the output is the sorted permutation with NaN first and None "
            "last, argsort realises exactly that order and keeps equal keys in increasing position when stable; other levels "
            "unchanged; illegal axes must raise. Non-innermost axes are compared between encodings by C02 only. non-trivial = "
            "result with at least one element or required error.")
    assumptions = ["bridge+mirror marshalling", "reference ordering in model/refops.py (NaN first both directions, None last)"]

    def alphabet(self, T, tvs, tier):
        lo, hi = refops.array_depth(T)
        ops = []
        for ax in range(-hi - 1, hi + 1):
            for asc in (True, False):
                for stable in (False, True):
                    ops.append(("sort", (ax, asc, stable)))
                    ops.append(("argsort", (ax, asc, stable)))
        return ops

    def expected(self, T, tvs, opname, args):
        return refops.sort(T, tvs, args[0], bool(args[1]), bool(args[2]), arg=(opname == "argsort"))

    def matches(self, exp, got, opname, args):
        return refops.matches_sorted(exp, got)

    def signature(self, T, tvs, d, names, opname, args, failure):
        return {"ascending": bool(args[1]), "stable": bool(args[2]), "has_option": refops._has_kind(T, ("opt",)),
                "strings": refops._has_kind(T, ("str", "bytes")), "leaf": refops._leaf_kind(T),
                "shifted_origin": any("shift" in n for n in (names or [])), "empty_array": len(tvs) == 0}


if __name__ == "__main__":
    sys.exit(runner.main(C06()))
