#!/usr/bin/env python3
"""C06 -- sort/argsort order every list along the axis without moving data between lists."""
import math
import os
import sys

sys.path.insert(0, os.path.join(os.path.dirname(os.path.dirname(os.path.abspath(__file__))), "mc"))
import runner  # noqa: E402
import e1  # noqa: E402
import refops  # noqa: E402
import values  # noqa: E402
from values import I, F, B, S, BY, var, reg, opt  # noqa: E402


def sort_labels(kind, k):
    if kind == "int":
        return [1, 0, 1, 2, 0, 2, -3, 1][k % 8]
    if kind == "float":
        return [0.0, math.nan, 1.0, -math.inf, 0.0, math.nan, 1.0, 2.5][k % 8]
    if kind == "bool":
        return [True, False, True, True, False][k % 5]
    if kind == "str":
        return ["b", "", "ab", "a", "B", "é", "b", "ab"][k % 8]
    if kind == "bytes":
        return [b"b", b"", b"ab", b"a", b"B", b"\xff", b"b"][k % 7]
    return values.default_label(kind, k)


# leaf dtypes x extremal value pools (every kernel instantiation of the sort templates): neighbours that collide when
# rounded to double or float, the limits of the type, zero, and for floats NaN / infinities / denormals
DTYPE_POOLS = [
    ("bool", B, [False, True]),
    ("int8", I, [-128, -1, 0, 1, 127]),
    ("uint8", I, [0, 1, 127, 128, 255]),
    ("int16", I, [-32768, -1, 0, 255, 256, 32767]),
    ("uint16", I, [0, 255, 256, 32767, 32768, 65535]),
    ("int32", I, [-2 ** 31, -2 ** 24 - 1, -2 ** 24, 0, 2 ** 24, 2 ** 24 + 1, 2 ** 31 - 1]),
    ("uint32", I, [0, 2 ** 24, 2 ** 24 + 1, 2 ** 31 - 1, 2 ** 31, 2 ** 32 - 1]),
    ("int64", I, [-2 ** 63, -2 ** 63 + 1, -2 ** 53 - 1, 0, 2 ** 53, 2 ** 53 + 1, 2 ** 63 - 2, 2 ** 63 - 1]),
    ("uint64", I, [0, 2 ** 53, 2 ** 53 + 1, 2 ** 63 - 1, 2 ** 63, 2 ** 64 - 2, 2 ** 64 - 1]),
    ("float32", F, [0.0, 1.401298464324817e-45, 16777216.0, -3.4028234663852886e+38, math.inf, -math.inf, math.nan]),
    ("float64", F, [0.0, 5e-324, 9007199254740992.0, 9007199254740994.0, -1.7976931348623157e+308, math.inf, -math.inf, math.nan]),
]


class C06(e1.E1Check):
    id = "C06"
    l3_table = "C06"
    types_quick = [I, F, B, S, BY, var(I), var(F), var(B), var(S), opt(I), opt(F), var(opt(I)), var(opt(F)), opt(var(I)),
                   reg(2, I), reg(3, F), var(var(I)), var(reg(2, I)), reg(2, var(F)), var(opt(var(I))), opt(S), var(opt(S))]
    types_thorough = types_quick + [var(var(F)), var(var(opt(I))), var(var(var(I))), reg(2, reg(2, F)), opt(var(opt(F))), var(BY)]
    bounds_quick = dict(N=3, M=3, K=7, enc_k=1, state_cap=120, parts=2)
    bounds_thorough = dict(N=4, M=4, K=9, enc_k=1, state_cap=100, parts=16)
    labeler = staticmethod(sort_labels)
    rule = ("states = arrays whose leaves carry ties, NaN, -inf, signed values, booleans, strings/bytestrings ('' 'a' 'ab' 'b' 'B' "
            "non-ASCII), missing leaves and missing lists, x encodings; transitions = sort and argsort at every axis x ascending x "
            "stable; oracle (innermost lists and lists of strings): the output is the sorted permutation with NaN first and None "
            "last, argsort realises exactly that order and keeps equal keys in increasing position when stable; other levels "
            "unchanged; illegal axes must raise. Non-innermost axes are compared between encodings by C02 only. non-trivial = "
            "result with at least one element or required error.")
    assumptions = ["bridge+mirror marshalling", "reference ordering in model/refops.py (NaN first both directions, None last)"]

    def extra_states(self, tier):
        import itertools
        import numpy as np
        L = 2 if tier == "quick" else 3
        groups = []
        for name, leaf, pool_ in DTYPE_POOLS:
            lists = [list(c) for n in range(0, L + 1) for c in itertools.product(pool_, repeat=n)]
            if tier == "quick" and len(pool_) > 6:     # all pairs, and the triples over the first 5 values
                lists += [list(c) for c in itertools.product(pool_[:5], repeat=3)]
            group = []
            for k in range(0, len(lists), 40):
                chunk = lists[k:k + 40]
                flat = [x for lst in chunk for x in lst]
                off = np.cumsum([0] + [len(lst) for lst in chunk]).astype(np.int64)
                d = {"class": "ListOffsetArray64", "offsets": off,
                     "content": {"class": "NumpyArray", "array": np.array(flat, dtype=name)}}
                group.append((var(leaf), chunk, [(d, ["dtype-" + name])]))
            groups.append(group)
        # long lists (beyond the small-input paths of std::sort / std::stable_sort / quick_sort)
        import encs
        longs = values.long_sort_values((17, 24, 33) if tier == "quick" else (16, 17, 18, 24, 32, 33, 40, 65))
        group = []
        for kind, tvs in longs:
            T = var(F) if kind == "float" else var(I)
            group.append((T, tvs, list(encs.encodings(T, tvs, 1, False))[:6]))
        for k in range(0, len(group), 12):
            groups.append(group[k:k + 12])
        return groups

    def alphabet(self, T, tvs, tier):
        lo, hi = refops.array_depth(T)
        ops = []
        for ax in range(-hi - 1, hi + 1):
            if hi >= 4 and ax not in (-1, hi - 1, -hi - 1, hi):
                # four-deep arrays sorted along a non-innermost axis read past a heap buffer (KF-C12-NONLOCAL-SORT, reported
                # deterministically by C12 under ASan); the release build would corrupt its heap at random
                continue
            for asc in (True, False):
                for stable in (False, True):
                    ops.append(("sort", (ax, asc, stable)))
                    ops.append(("argsort", (ax, asc, stable)))
        return ops

    def expected(self, T, tvs, opname, args):
        return refops.sort(T, tvs, args[0], bool(args[1]), bool(args[2]), arg=(opname == "argsort"))

    def matches(self, exp, got, opname, args):
        return refops.matches_sorted(exp, got)

    def l3_matches(self, exp, got, label):
        return refops.matches_sorted(exp, got)

    def l3_bounds(self, tier):
        return (3, 2, 10) if tier == "quick" else (3, 3, 60)

    def l3_signature(self, T, tvs, label):
        return {"has_option": refops._has_kind(T, ("opt",)), "strings": refops._has_kind(T, ("str", "bytes")),
                "empty_array": len(tvs) == 0}

    def signature(self, T, tvs, d, names, opname, args, failure):
        return {"ascending": bool(args[1]), "stable": bool(args[2]), "has_option": refops._has_kind(T, ("opt",)),
                "strings": refops._has_kind(T, ("str", "bytes")), "leaf": refops._leaf_kind(T),
                "shifted_origin": any("shift" in n for n in (names or [])), "empty_array": len(tvs) == 0}


if __name__ == "__main__":
    sys.exit(runner.main(C06()))
