#!/usr/bin/env python3
"""C07 -- combinations (and, at L3, cartesian) enumerate exactly the itertools tuples, in order."""
import os
import sys

sys.path.insert(0, os.path.join(os.path.dirname(os.path.dirname(os.path.abspath(__file__))), "mc"))
import runner  # noqa: E402
import e1  # noqa: E402
import refops  # noqa: E402
import values  # noqa: E402
from values import I, F, S, var, reg, opt, rec  # noqa: E402


class C07(e1.E1Check):
    id = "C07"
    l3_table = "C07"
    types_quick = [I, var(I), var(var(I)), reg(0, I), reg(1, I), reg(2, I), reg(3, I), var(reg(2, I)), opt(var(I)), var(opt(I)),
                   var(rec(("x", I), ("y", F))), var(var(var(I))), reg(2, var(I)), var(S), var(opt(var(I))), opt(I)]
    types_thorough = types_quick + [var(reg(3, I)), reg(4, I), var(var(opt(I))), opt(var(var(I))), reg(2, reg(2, I)), rec(("x", I))]
    bounds_quick = dict(N=2, M=3, K=6, enc_k=1, state_cap=50, parts=2)
    bounds_thorough = dict(N=3, M=4, K=8, enc_k=1, state_cap=45, parts=16)
    rule = ("states = arrays whose lists at every level have lengths 0..M (regular sizes 0..3/4), missing lists, element types "
            "record/list/option/string, x every list-node encoding; transitions = combinations(n, replacement, axis, keys) for "
            "n in 0..5, every axis in [-depth-1, depth], with and without field names; oracle = itertools.combinations / "
            "combinations_with_replacement applied to each list at that axis (distinct leaf labels make duplication, loss and "
            "leakage between neighbouring lists visible); n<1 and illegal axes must raise. non-trivial = at least one tuple "
            "produced or required error.")
    assumptions = ["bridge+mirror marshalling", "itertools as the reference"]

    def alphabet(self, T, tvs, tier):
        lo, hi = refops.array_depth(T)
        ops = []
        for ax in range(-hi - 1, hi + 1):
            for n in (0, 1, 2, 3, 4, 5):
                for repl in (False, True):
                    ops.append(("combinations", (n, repl, ax)))
            ops.append(("combinations", (2, False, ax, ["a", "b"])))
            ops.append(("combinations", (3, True, ax, ["a", "b"])))   # wrong number of keys
        return ops

    def expected(self, T, tvs, opname, args):
        keys = args[3] if len(args) > 3 else None
        return refops.combinations(T, tvs, args[0], bool(args[1]), args[2], keys)

    def l3_signature(self, T, tvs, label):
        return {"regular": refops._has_kind(T, ("reg",))}

    def signature(self, T, tvs, d, names, opname, args, failure):
        lo, hi = refops.array_depth(T)
        return {"n": args[0], "replacement": bool(args[1]), "axis0": (args[2] if args[2] >= 0 else args[2] + lo) == 0,
                "top": d["class"].rstrip("0123456789U_")}


if __name__ == "__main__":
    sys.exit(runner.main(C07()))
