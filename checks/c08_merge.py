#!/usr/bin/env python3
"""C08 -- concatenation keeps every element; merging, simplifying and casting never change a value (L2 part)."""
import itertools
import os
import sys

sys.path.insert(0, os.path.join(os.path.dirname(os.path.dirname(os.path.abspath(__file__))), "mc"))
import runner  # noqa: E402
from runner import Stats  # noqa: E402
import pool  # noqa: E402
import e1  # noqa: E402
import layouts  # noqa: E402
import layoutsem  # noqa: E402
import values  # noqa: E402
import encs  # noqa: E402
import ext  # noqa: E402
import numpy as np  # noqa: E402
from values import I, F, B, S, UNK, var, reg, opt, rec, tup, union  # noqa: E402

DTYPES = ["bool", "int8", "int16", "int32", "int64", "uint8", "uint16", "uint32", "uint64", "float32", "float64",
          "complex64", "complex128"]

TYPES = [I, F, B, var(I), var(F), opt(I), opt(F), var(opt(I)), opt(var(I)), S, var(S), rec(("x", I), ("y", var(I))),
         rec(("x", F), ("y", var(I))), rec(("x", I)), tup(I, F), reg(2, I), var(var(I)), union(I, var(I)), var(UNK), UNK,
         var(rec(("x", I), ("y", F))), opt(rec(("x", I), ("y", var(I))))]


def mergeable_types(a, b):
    """Type-level rule of the statement: identical list/record/option skeletons (numbers promote, option-ness
    and unknown absorb) merge into one type; anything else must become a union."""
    if a[0] == "unknown" or b[0] == "unknown":
        return True
    if a[0] == "union" or b[0] == "union":
        return None   # a union absorbs anything; the rule is about non-union types
    if a[0] == "opt":
        return mergeable_types(a[1], b[1] if b[0] == "opt" else b)
    if b[0] == "opt":
        return mergeable_types(a, b[1])
    num = ("int", "float")
    if a[0] in num and b[0] in num:
        return True
    if a[0] in ("var", "reg") and b[0] in ("var", "reg"):
        return mergeable_types(a[-1], b[-1])   # list types merge whether regular or variable
    if a[0] != b[0]:
        return False
    if a[0] in ("bool", "str", "bytes"):
        return True
    if a[0] == "var":
        return mergeable_types(a[1], b[1])
    if a[0] == "reg":
        return mergeable_types(a[2], b[2])   # different sizes merge as variable-length lists
    if a[0] == "rec":
        return [k for k, _ in a[1]] == [k for k, _ in b[1]] and all(mergeable_types(x, y) for (_, x), (_, y) in zip(a[1], b[1]))
    if a[0] == "tup":
        return len(a[1]) == len(b[1]) and all(mergeable_types(x, y) for x, y in zip(a[1], b[1]))
    return None   # unions: not decided by the rule


def has_union(t):
    if t[0] == "union":
        return True
    if t[0] == "param":
        return has_union(t[2])
    if t[0] in ("var", "opt"):
        return has_union(t[1])
    if t[0] == "reg":
        return has_union(t[2])
    if t[0] == "rec":
        return any(has_union(x) for _, x in t[1])
    if t[0] == "tup":
        return any(has_union(x) for x in t[1])
    return False


class _L3(e1.E1Check):
    """carrier for the tier-L3 half (ak.concatenate) run by the generic L3 runner of mc/e1.py"""
    id = "C08"
    l3_table = "C08"


class C08(runner.Check):
    id = "C08"
    level = "model_checking"
    rule = ("(a) states = ordered pairs (quick) / pairs and triples (thorough) of arrays over the type menu (same and different "
            "types, EmptyArray, options, records, unions) each in canonical and one non-canonical encoding; transitions = merge, "
            "mergemany, merge_as_union, reverse order; oracle = list concatenation of the logical values, and the type rule "
            "(identical skeletons must not produce a union, different ones must). (b) all 13x13 numeric dtype pairs: result "
            "dtype and values equal numpy.concatenate (bool pairs aside, which the C++ level keeps as unions unless mergebool). "
            "(c) numbers_to_type over all dtype pairs with boundary values equals numpy.astype. (d) simplify_optiontype / "
            "simplify_uniontype on every directly nested option-in-option / indexed-in-option / union-in-union layout of depth "
            "<= 3 keeps the value and yields a valid layout. non-trivial = non-empty result.")
    assumptions = ["bridge+mirror marshalling", "NumPy as the promotion/cast oracle"]

    def shards(self, tier):
        out = [(tier, "merge", i) for i in range(len(TYPES))]
        out += [(tier, "dtypes", 0), (tier, "astype", 0), (tier, "simplify", 0)]
        import l3
        out += [(tier, "l3", g) for g in range(len(l3.TABLES["C08"][1]))]
        return out

    def run_shard(self, shard):
        tier, part, i = shard
        st = Stats()
        if part == "l3":
            h = _L3()
            h._no = 0
            h._run_l3(st, tier, i)
            pool.unmark()
            return st.pack()
        getattr(self, "_" + part)(tier, i, st)
        pool.unmark()
        return st.pack()

    # ---- (a)
    def _arrays(self, T, tier):
        N, M = (2, 2) if tier == "quick" else (3, 2)
        out = []
        for k, tvs in enumerate(values.arrays(T, N, M, 5)):
            if k >= (6 if tier == "quick" else 14):
                break
            out.append(tvs)
        return out

    def _merge(self, tier, ti, st):
        Ta = TYPES[ti]
        no = 0
        for tb, Tb in enumerate(TYPES):
            for va in self._arrays(Ta, tier):
                for vb in self._arrays(Tb, tier):
                    # second operand gets labels shifted so that every leaf is distinct across operands
                    vb2 = _shift(vb, 50)
                    want = values.strip(va) + values.strip(vb2)
                    for da, na in _two_encodings(Ta, va):
                        for db, nb in _two_encodings(Tb, vb2) + _permuted_fields(Tb, vb2):
                            st.states += 1
                            la, lb = layouts.build(da), layouts.build(db)
                            no += 1
                            pool.mark(no)
                            try:
                                can = la.mergeable(lb, False)
                                can_rev = lb.mergeable(la, False)
                            except e1.ERRORS as err:
                                self._v(st, "unexpected-error", "mergeable", Ta, Tb, da, db, str(err)[:150])
                                continue
                            st.transitions += 1
                            st.evaluations += 1
                            rule = mergeable_types(Ta, Tb)
                            if rule is not None and (len(va) > 0 and len(vb) > 0):
                                if rule and not can:
                                    self._v(st, "spurious-union", "mergeable", Ta, Tb, da, db, "identical type skeletons are declared not mergeable")
                                elif not rule and can:
                                    self._v(st, "missing-union", "mergeable", Ta, Tb, da, db, "different types are declared mergeable")
                            if can != can_rev:
                                self._v(st, "asymmetric", "mergeable", Ta, Tb, da, db, "mergeable(a,b)=%s but mergeable(b,a)=%s" % (can, can_rev))
                            for op in ("merge", "mergemany", "merge_as_union", "reverse"):
                                if op != "merge_as_union" and not (can if op != "reverse" else can_rev):
                                    continue
                                no += 1
                                pool.mark(no)
                                st.transitions += 1
                                st.evaluations += 1
                                try:
                                    if op == "merge":
                                        res = la.merge(lb)
                                    elif op == "mergemany":
                                        res = la.mergemany([lb])
                                    elif op == "merge_as_union":
                                        res = la.merge_as_union(lb)
                                    else:
                                        res = lb.merge(la)
                                    rd = ext.describe(res)
                                    got = layoutsem.to_list(rd)
                                except e1.ERRORS as err:
                                    self._v(st, "unexpected-error", op, Ta, Tb, da, db, "raised %s: %s" % (type(err).__name__, str(err)[:150]))
                                    continue
                                except layoutsem.Invalid as err:
                                    self._v(st, "invalid-result", op, Ta, Tb, da, db, str(err))
                                    continue
                                w = want if op != "reverse" else values.strip(vb2) + values.strip(va)
                                if not layoutsem.same(_sortkeys(got), _sortkeys(w)):
                                    self._v(st, "value", op, Ta, Tb, da, db, "expected %r, got %r" % (w, got))
                                    continue
                                if len(w) > 0:
                                    st.nontrivial += 1
                                st.outcome(op + ":ok")
                                if op in ("merge", "reverse"):
                                    rt = layoutsem.strip_params(layoutsem.type_of(rd))
                                    if has_union(rt) and not (has_union_g(Ta) or has_union_g(Tb)):
                                        self._v(st, "spurious-union", op, Ta, Tb, da, db, "mergeable arrays merged into %r" % (rt,))
            if tb % 7 == 0:
                st.sample({"a": values.tstr(Ta), "b": values.tstr(Tb)})

    def _v(self, st, failure, op, Ta, Tb, da, db, text):
        st.violation(failure, "%s of %s [%s] and %s [%s]: %s" % (op, layouts.short(da)[:250], values.tstr(Ta),
                                                                  layouts.short(db)[:250], values.tstr(Tb), text[:400]),
                     {"part": "merge", "op": op, "a": layouts.to_json(da), "b": layouts.to_json(db)},
                     op=op, failure=failure, ta=kind_of(Ta), tb=kind_of(Tb))

    # ---- (b)
    def _dtypes(self, tier, _, st):
        no = 0
        for a, b in itertools.product(DTYPES, repeat=2):
            for va, vb in (([1], [2]), ([], [3]), ([0, 1], [])):
                no += 1
                pool.mark(no)
                st.states += 1
                st.transitions += 1
                st.evaluations += 1
                xa, xb = np.array(va, dtype=a), np.array(vb, dtype=b)
                la, lb = ext.NumpyArray(xa), ext.NumpyArray(xb)
                want = np.concatenate([xa, xb])
                try:
                    res = la.merge(lb)
                except e1.ERRORS as err:
                    st.violation("unexpected-error", "merge of %s and %s raised %s" % (a, b, err), {"part": "dtypes", "a": a, "b": b},
                                 op="merge-dtypes", failure="unexpected-error")
                    continue
                rd = ext.describe(res)
                isbool = (a == "bool") != (b == "bool")
                if isbool:
                    st.outcome("bool-with-number:" + rd["class"][:5])
                    gotl = layoutsem.to_list(rd)
                    if not (layoutsem.same(gotl, xa.tolist() + xb.tolist()) or layoutsem.same(gotl, want.tolist())):
                        st.violation("value", "merge of %s%r and %s%r gave %r" % (a, va, b, vb, layoutsem.to_list(rd)),
                                     {"part": "dtypes", "a": a, "b": b}, op="merge-dtypes", failure="value")
                    continue
                if rd["class"] != "NumpyArray" or rd["array"].dtype != want.dtype or not layoutsem.same(rd["array"].tolist(), want.tolist()):
                    st.violation("promotion", "merge of %s%r and %s%r: numpy gives %s%r, got %s" % (
                        a, va, b, vb, want.dtype, want.tolist(), layouts.short(rd)), {"part": "dtypes", "a": a, "b": b, "va": va, "vb": vb},
                        op="merge-dtypes", failure="promotion", pair="%s+%s" % tuple(sorted((a, b))))
                else:
                    st.nontrivial += 1
                    st.outcome("promoted:" + str(want.dtype))
        st.sample({"dtype pairs": len(DTYPES) ** 2})

    # ---- (c)
    def _astype(self, tier, _, st):
        no = 0
        for a, b in itertools.product(DTYPES, repeat=2):
            info = np.iinfo(a) if np.dtype(a).kind in "iu" else None
            vals = [0, 1] + ([info.max, info.min] if info else []) + ([1.5, -2.5] if np.dtype(a).kind in "fc" else [])
            if np.dtype(a).kind == "c":
                vals.append(1 + 2j)
            xa = np.array(vals, dtype=a)
            no += 1
            pool.mark(no)
            st.states += 1
            st.transitions += 1
            st.evaluations += 1
            with np.errstate(all="ignore"):
                import warnings
                with warnings.catch_warnings():
                    warnings.simplefilter("ignore")
                    want = xa.astype(b)
            try:
                res = ext.NumpyArray(xa).numbers_to_type(b)
            except e1.ERRORS as err:
                st.violation("unexpected-error", "numbers_to_type(%s) of %s raised %s" % (b, a, err), {"part": "astype", "a": a, "b": b},
                             op="numbers_to_type", failure="unexpected-error")
                continue
            rd = ext.describe(res)
            got = rd["array"]
            # casts that NumPy itself leaves implementation-defined (float -> int out of range, complex -> real) are compared
            # only where the value is representable
            ok = got.dtype == want.dtype
            if ok:
                for x, g, w in zip(xa.tolist(), got.tolist(), want.tolist()):
                    representable = True
                    if np.dtype(b).kind in "iu":
                        ii = np.iinfo(b)
                        xr = x.real if isinstance(x, complex) else x
                        representable = ii.min <= xr <= ii.max
                    if np.dtype(a).kind == "c" and np.dtype(b).kind != "c":
                        representable = False
                    if representable and not layoutsem.same(g, w):
                        ok = False
            if not ok:
                st.violation("cast", "numbers_to_type(%s) of %s%r: numpy %r, got %s%r" % (b, a, vals, want.tolist(), got.dtype, got.tolist()),
                             {"part": "astype", "a": a, "b": b}, op="numbers_to_type", failure="cast", pair="%s->%s" % (a, b))
            else:
                st.nontrivial += 1
                st.outcome("cast-ok")
        st.sample({"casts": len(DTYPES) ** 2})

    # ---- (d)
    def _simplify(self, tier, _, st):
        leaf = lambda n, dt=np.int64: {"class": "NumpyArray", "array": np.arange(n).astype(dt)}  # noqa: E731
        opts = [
            lambda c, n: {"class": "IndexedOptionArray64", "index": np.array([(i if i % 2 == 0 else -1) for i in range(n)], np.int64), "content": c},
            lambda c, n: {"class": "IndexedOptionArray32", "index": np.array(list(range(n))[::-1], np.int32), "content": c},
            lambda c, n: {"class": "ByteMaskedArray", "mask": np.array([i % 3 == 0 for i in range(n)], np.int8), "content": c, "valid_when": False},
            lambda c, n: {"class": "BitMaskedArray", "mask": np.array([0xB5, 0xFF], np.uint8), "content": c, "valid_when": True, "length": n, "lsb_order": True},
            lambda c, n: {"class": "UnmaskedArray", "content": c},
            lambda c, n: {"class": "IndexedArray64", "index": np.array(list(range(n))[::-1], np.int64), "content": c},
            lambda c, n: {"class": "IndexedArrayU32", "index": np.arange(n).astype(np.uint32), "content": c},
        ]
        no = 0
        # two levels only: the *content* handed to simplify must itself be valid (an option directly inside an option is
        # what simplify removes; a third level would make the input's content invalid, outside the property's domain)
        depth = 2
        for n in ((0, 1, 3) if tier == "quick" else (0, 1, 2, 3, 5, 9)):
            level = [leaf(n), {"class": "ListOffsetArray64", "offsets": np.arange(n + 1).astype(np.int64), "content": leaf(n, np.float64)}]
            for _ in range(depth):
                nxt = []
                for c in level:
                    for w in opts:
                        d = w(c, n)
                        nxt.append(d)
                        no += 1
                        pool.mark(no)
                        st.states += 1
                        st.transitions += 1
                        st.evaluations += 1
                        self._simp1(st, d)
                level = nxt[:40]
        # union-in-union and union-of-option
        u1 = {"class": "UnionArray8_64", "tags": np.array([0, 1, 0], np.int8), "index": np.array([0, 0, 1], np.int64),
              "contents": [leaf(2), {"class": "ListOffsetArray64", "offsets": np.array([0, 2], np.int64), "content": leaf(2)}]}
        u2 = {"class": "UnionArray8_32", "tags": np.array([1, 0, 1, 1], np.int8), "index": np.array([0, 0, 1, 2], np.int32),
              "contents": [leaf(1, np.float64), u1]}
        u3 = {"class": "UnionArray8_64", "tags": np.array([0, 1], np.int8), "index": np.array([1, 0], np.int64),
              "contents": [opts[0](leaf(3), 3), leaf(2, np.float64)]}
        u4 = {"class": "UnionArray8_U32", "tags": np.array([0, 1, 1, 0], np.int8), "index": np.array([3, 1, 0, 0], np.uint32), "contents": [u2, u3]}
        u5 = {"class": "UnionArray8_64", "tags": np.array([0, 1, 0], np.int8), "index": np.array([0, 0, 1], np.int64),
              "contents": [leaf(2), leaf(1, np.float64)]}   # mergeable contents: simplify must merge them
        for d in (u1, u2, u3, u4, u5, opts[0](u1, 3), opts[2](u5, 3)):
            no += 1
            pool.mark(no)
            st.states += 1
            st.transitions += 1
            st.evaluations += 1
            self._simp1(st, d)
        st.sample({"simplify": layouts.short(u2)[:300]})

    def _simp1(self, st, d):
        try:
            want = layoutsem.to_list(d)
        except layoutsem.Invalid:
            return
        lay = layouts.build(d)
        try:
            res = lay.simplify()
        except e1.ERRORS as err:
            st.violation("unexpected-error", "simplify of %s raised %s" % (layouts.short(d)[:300], str(err)[:150]),
                         {"part": "simplify", "layout": layouts.to_json(d)}, op="simplify", failure="unexpected-error")
            return
        rd = ext.describe(res)
        try:
            got = layoutsem.to_list(rd)
        except layoutsem.Invalid as err:
            got = ("invalid", str(err))
        ve = res.validityerror()
        if not layoutsem.same(got, want) or ve is not None:
            st.violation("value" if ve is None else "invalid-result",
                         "simplify of %s: expected %r, got %r (validity: %s)" % (layouts.short(d)[:300], want, got, ve and ve[:100]),
                         {"part": "simplify", "layout": layouts.to_json(d)}, op="simplify", failure="value" if ve is None else "invalid-result",
                         top=d["class"].rstrip("0123456789U_"), inner=d.get("content", {}).get("class", "").rstrip("0123456789U_") if "content" in d else "union")
        else:
            st.outcome("simplify:ok")
            if len(want) > 0:
                st.nontrivial += 1

    def replay(self, case):
        if case.get("mode") == "l3":
            return _L3()._replay_l3(case)
        return self._replay(case)

    def _replay(self, case):
        if case.get("part") == "merge":
            a, b = layouts.build(layouts.from_json(case["a"])), layouts.build(layouts.from_json(case["b"]))
            va, vb = layoutsem.to_list(layouts.from_json(case["a"])), layoutsem.to_list(layouts.from_json(case["b"]))
            op = case["op"]
            try:
                res = {"merge": lambda: a.merge(b), "mergemany": lambda: a.mergemany([b]), "merge_as_union": lambda: a.merge_as_union(b),
                       "reverse": lambda: b.merge(a)}[op]()
                got = layoutsem.to_list(ext.describe(res))
            except Exception as err:
                return True, "raised %r" % (err,)
            want = va + vb if op != "reverse" else vb + va
            return not layoutsem.same(got, want), "expected %r\nobserved %r" % (want, got)
        return True, "re-run the check to re-judge this part: %r" % (case,)


def kind_of(T):
    return T[0] if T[0] not in ("var", "opt", "reg") else T[0] + ":" + kind_of(T[-1])


def has_union_g(T):
    import refops
    return refops._has_kind(T, ("union",))


def _shift(tv, delta):
    if isinstance(tv, values.U):
        return values.U(tv.tag, _shift(tv.v, delta))
    if isinstance(tv, list):
        return [_shift(x, delta) for x in tv]
    if isinstance(tv, tuple):
        return tuple(_shift(x, delta) for x in tv)
    if isinstance(tv, dict):
        return {k: _shift(v, delta) for k, v in tv.items()}
    if isinstance(tv, bool) or tv is None:
        return tv
    if isinstance(tv, (int, float)):
        return tv + delta
    if isinstance(tv, str):
        return tv + "Q"
    if isinstance(tv, bytes):
        return tv + b"Q"
    return tv


def _sortkeys(v):
    """Records compare by field name, not by the order in which the fields are stored."""
    if isinstance(v, dict):
        return {k: _sortkeys(v[k]) for k in sorted(v)}
    if isinstance(v, list):
        return [_sortkeys(x) for x in v]
    if isinstance(v, tuple):
        return tuple(_sortkeys(x) for x in v)
    return v


def _permute_desc(d):
    if not isinstance(d, dict):
        return d, False
    out = dict(d)
    changed = False
    for k in ("content",):
        if k in out:
            out[k], c = _permute_desc(out[k])
            changed = changed or c
    if "contents" in out:
        new = []
        for c in out["contents"]:
            c2, ch = _permute_desc(c)
            new.append(c2)
            changed = changed or ch
        out["contents"] = new
        if out["class"] == "RecordArray" and out.get("keys") and len(out["keys"]) > 1:
            out["contents"] = out["contents"][::-1]
            out["keys"] = list(out["keys"])[::-1]
            changed = True
    return out, changed


def _permuted_fields(T, tvs):
    """the canonical encoding with the fields of every named record stored in reverse order (same record type)"""
    d, names = next(iter(encs.encodings(T, tvs, 1, False)))
    d2, changed = _permute_desc(d)
    return [(d2, ["record-fields-reversed"])] if changed else []


def _two_encodings(T, tvs):
    """canonical plus the (deterministically chosen) last non-canonical encoding"""
    encl = list(encs.encodings(T, tvs, 1, False))
    out = [encl[0]]
    if len(encl) > 1:
        out.append(encl[1 + (len(tvs) + len(encl)) % (len(encl) - 1)])
    return out


if __name__ == "__main__":
    sys.exit(runner.main(C08()))
