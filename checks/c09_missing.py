#!/usr/bin/env python3
"""C09 -- pad, fill, and the option encodings touch exactly the None positions (L2 part)."""
import os
import sys

sys.path.insert(0, os.path.join(os.path.dirname(os.path.dirname(os.path.abspath(__file__))), "mc"))
import runner  # noqa: E402
import e1  # noqa: E402
import refops  # noqa: E402
import values  # noqa: E402
import numpy as np  # noqa: E402
from values import I, F, S, var, reg, opt, rec  # noqa: E402

CONVERSIONS = ["project", "bytemask", "simplify", "toIndexedOptionArray64", "toByteMaskedArray", "deep_copy",
               "shallow_simplify"]


class C09(e1.E1Check):
    id = "C09"
    l3_table = "C09"
    types_quick = [opt(I), var(opt(I)), opt(var(I)), opt(var(opt(I))), var(I), var(var(I)), reg(2, I), var(reg(2, I)), I,
                   opt(rec(("x", I))), var(opt(rec(("x", I), ("y", var(I))))), opt(S), var(opt(S)), rec(("x", opt(I)), ("y", var(I))),
                   reg(2, opt(I)), opt(reg(2, I))]
    types_thorough = types_quick + [var(var(opt(I))), opt(var(var(I))), var(opt(var(I))), reg(3, opt(F)), opt(var(reg(2, I)))]
    bounds_quick = dict(N=3, M=2, K=6, enc_k=1, state_cap=150, parts=2)
    bounds_thorough = dict(N=4, M=3, K=8, enc_k=1, state_cap=120, parts=16)
    rule = ("states = arrays with options at any level x all five option encodings (IndexedOption32/64, ByteMasked either "
            "polarity, BitMasked in either bit order and polarity with garbage padding bits, Unmasked) and list encodings; "
            "transitions = rpad / rpad_and_clip (target 0..M+2, every axis), fillna(99), and the option conversions project / "
            "bytemask / simplify / toIndexedOptionArray64 / toByteMaskedArray; oracle = the statement on nested lists: lengths "
            "become max(len, target) (exactly target when clipping), only None positions are filled, conversions keep the value, "
            "bytemask is 1 exactly at None; illegal axes raise. non-trivial = non-empty result or required error.")
    assumptions = ["bridge+mirror marshalling", "reference semantics in model/refops.py"]

    def extra_states(self, tier):
        import encs
        g1 = [(opt(I), tvs, list(encs.encodings(opt(I), tvs, 1, True))) for tvs in values.long_option_values((9, 17) if tier == "quick" else (8, 9, 15, 16, 17, 25))]
        g2 = [(var(opt(I)), tvs, list(encs.encodings(var(opt(I)), tvs, 1, True))) for tvs in values.long_option_list_values()]
        return [g1[:len(g1) // 2], g1[len(g1) // 2:], g2]

    def alphabet(self, T, tvs, tier):
        lo, hi = refops.array_depth(T)
        ops = []
        for ax in range(-hi - 1, hi + 1):
            for target in range(0, 5):
                ops.append(("rpad", (target, ax)))
                ops.append(("rpad_and_clip", (target, ax)))
        ops.append(("fillna", ()))
        for c in CONVERSIONS:
            ops.append((c, ()))
        return ops

    def apply(self, lay, opname, args):
        if opname in CONVERSIONS and not hasattr(lay, opname) and opname not in ("shallow_simplify", "deep_copy"):
            raise NotImplementedError(opname)
        if opname == "toIndexedOptionArray64" and not hasattr(type(lay), "toIndexedOptionArray64"):
            raise NotImplementedError(opname)
        return e1.E1Check.apply(self, lay, opname, args)

    def expected(self, T, tvs, opname, args):
        if opname == "rpad":
            return refops.rpad(T, tvs, args[0], args[1], False)
        if opname == "rpad_and_clip":
            return refops.rpad(T, tvs, args[0], args[1], True)
        if opname == "fillna":
            return refops.fillna(T, tvs, 99)
        if opname in ("simplify", "toIndexedOptionArray64", "toByteMaskedArray", "deep_copy", "shallow_simplify"):
            return values.strip(tvs)
        if opname == "project":
            if T[0] != "opt":
                raise refops.Skip("project of a non-option node")
            return values.strip([e for e in tvs if e is not None])
        if opname == "bytemask":
            if T[0] != "opt":
                raise refops.Skip("bytemask of a non-option node")
            return [1 if e is None else 0 for e in tvs]
        raise ValueError(opname)

    def refusal_ok(self, T, tvs, opname, args, err):
        # conversions exist only on the node classes that define them
        return opname in CONVERSIONS and isinstance(err, (NotImplementedError, AttributeError, RuntimeError))

    def signature(self, T, tvs, d, names, opname, args, failure):
        return {"top": d["class"].rstrip("0123456789U_"), "strings": refops._has_kind(T, ("str", "bytes"))}


if __name__ == "__main__":
    sys.exit(runner.main(C09()))
