#!/usr/bin/env python3
"""C10 -- record fields: projection commutes with positional slicing; setitem_field keeps everything else (L2 part)."""
import os
import sys

sys.path.insert(0, os.path.join(os.path.dirname(os.path.dirname(os.path.abspath(__file__))), "mc"))
import runner  # noqa: E402
import e1  # noqa: E402
import refops  # noqa: E402
import values  # noqa: E402
import layouts  # noqa: E402
import opalpha  # noqa: E402
import ext  # noqa: E402
import numpy as np  # noqa: E402
from values import I, F, S, var, reg, opt, rec, tup, union  # noqa: E402
import c01_slicing  # noqa: E402

POS = [0, -1, ["s", 1, None, None], ["s", None, None, -1], ["s", None, 1, None], ["a", [0, 0], "int64"], ["a", [-1], "int64"],
       "...", None, ["opt", [0, None]]]


def field_paths(T):
    """Lists of field names reachable from the array's item type (through lists/options), depth <= 2."""
    out = []
    keys = c01_slicing._keys(T)
    if keys:
        for k in keys:
            out.append([k])
            try:
                T2 = refops.project_type(("var", T), refops.Field(k))[1]
            except (refops.RefError, refops.Skip):
                continue
            for k2 in (c01_slicing._keys(T2) or []):
                out.append([k, k2])
    return out


def project_value(v, path):
    """Field projection on a plain logical value (through lists and None)."""
    for k in path:
        v = _proj1(v, k)
    return v


def _proj1(v, k):
    if v is None:
        return None
    if isinstance(v, list):
        return [_proj1(e, k) for e in v]
    if isinstance(v, dict):
        if k not in v:
            raise refops.RefError("no field")
        return v[k]
    if isinstance(v, tuple):
        if not (k.isdigit() and int(k) < len(v)):
            raise refops.RefError("no field")
        return v[int(k)]
    raise refops.RefError("no fields at a leaf")


class C10(e1.E1Check):
    id = "C10"
    l3_table = "C10"
    types_quick = [rec(("x", I), ("y", var(I))), var(rec(("x", I), ("y", F))), tup(I, var(F)), opt(rec(("x", I))),
                   var(opt(rec(("x", I), ("y", var(I))))), rec(("x", rec(("a", I), ("b", var(I)))), ("y", I)), rec(),
                   reg(2, rec(("x", I))), var(var(rec(("x", I), ("y", S)))), rec(("x", opt(I)), ("y", var(I))), var(tup(I, I)),
                   reg(0, rec(("x", I), ("y", F))), var(reg(0, rec(("x", I), ("y", F)))), reg(1, rec(("x", I), ("y", F)))]
    types_thorough = types_quick + [rec(("x", var(I)), ("y", var(var(F)))), var(rec(("x", opt(I)), ("y", var(I)))),
                                    opt(var(rec(("x", I)))), var(reg(2, rec(("x", I), ("y", I))))]
    bounds_quick = dict(N=3, M=2, K=6, enc_k=1, state_cap=40, parts=2)
    bounds_thorough = dict(N=3, M=2, K=8, enc_k=1, state_cap=35, parts=16)
    rule = ("states = record-bearing arrays (records under lists, options, regular lists, nested records, tuples, zero fields, "
            "contents longer than the record) x encodings; transitions = (field path, positional slice) pairs executed in both "
            "orders x[fields][slice] and x[slice][fields] and as one tuple, field-list projection, and setitem_field(name | new "
            "| index) followed by reading every field back; oracle = both orders equal the reference projection of the reference "
            "slice; after setitem_field the named field equals the given content and every other field, the record count and the "
            "enclosing structure are unchanged; dict/tuple rendering in declaration order. non-trivial = non-empty result or "
            "required error.")
    assumptions = ["bridge+mirror marshalling", "reference semantics in model/refops.py"]

    def alphabet(self, T, tvs, tier):
        n = len(tvs)
        ops = []
        paths = field_paths(T)
        for path in paths:
            for p in POS:
                ops.append(("field_then_slice", (path, p)))
                ops.append(("slice_then_field", (path, p)))
                ops.append(("tuple_slice_field", (path, p)))
            for p in POS[:5]:
                for q in POS[:4]:
                    ops.append(("slice_then_field", (path, ["t", p, q])))
                    ops.append(("field_then_slice", (path, ["t", p, q])))
        keys = c01_slicing._keys(T)
        if keys:
            # projection onto a list of fields, at any depth, alone and combined with positional slices in both orders
            for ks in (list(keys), list(reversed(keys)), list(keys)[:1]):
                ops.append(("getitem_fields", (ks,)))
                for p in POS[:6]:
                    ops.append(("fields_then_slice", (ks, p)))
                    ops.append(("slice_then_fields", (ks, p)))
        if keys is not None and T[0] in ("rec", "tup"):
            for where in list(keys) + ["new", None]:
                ops.append(("setitem_field", (where,)))
        return ops

    def apply(self, lay, opname, args):
        if opname in ("field_then_slice", "slice_then_field", "tuple_slice_field"):
            path, p = args
            if opname == "field_then_slice":
                x = lay
                for k in path:
                    x = x[k]
                return x[opalpha.decode_slice(p)]
            if opname == "slice_then_field":
                x = lay[opalpha.decode_slice(p)]
                if x is None:
                    return None
                for k in path:
                    if not isinstance(x, (ext.Content, ext.Record)):
                        raise ValueError("scalar has no fields")
                    x = x[k]
                return x
            items = opalpha.decode_slice(p)
            if not isinstance(items, tuple):
                items = (items,)
            return lay[items + tuple(path)]
        if opname == "getitem_fields":
            return lay[list(args[0])]
        if opname == "fields_then_slice":
            return lay[list(args[0])][opalpha.decode_slice(args[1])]
        if opname == "slice_then_fields":
            x = lay[opalpha.decode_slice(args[1])]
            if x is None:
                return None
            if not isinstance(x, (ext.Content, ext.Record)):
                raise ValueError("scalar has no fields")
            return x[list(args[0])]
        if opname == "setitem_field":
            if not isinstance(lay, ext.RecordArray):
                raise NotImplementedError("setitem_field is a method of RecordArray only")
            n = len(lay)
            what = ext.NumpyArray(np.arange(100, 100 + n, dtype=np.int64))
            return lay.setitem_field(args[0], what)
        return e1.E1Check.apply(self, lay, opname, args)

    def expected(self, T, tvs, opname, args):
        if opname in ("field_then_slice", "slice_then_field", "tuple_slice_field"):
            path, p = args
            if opname == "slice_then_field":
                # the slice is applied to whole records first: it must be valid for every field
                whole = refops.getitem(T, tvs, c01_slicing.to_ref(p))
                return project_value(whole, path)
            items = c01_slicing.to_ref(p) + tuple(refops.Field(k) for k in path)
            return refops.getitem(T, tvs, items)
        if opname == "getitem_fields":
            return refops.getitem(T, tvs, (refops.Fields(args[0]),))
        if opname in ("fields_then_slice", "slice_then_fields"):
            items = c01_slicing.to_ref(args[1])
            if not isinstance(items, tuple):
                items = (items,)
            return refops.getitem(T, tvs, items + (refops.Fields(args[0]),))
        if opname == "setitem_field":
            where = args[0]
            out = []
            for i, v in enumerate(values.strip(tvs)):
                if T[0] == "rec":
                    d = dict(v)
                    d[where if where is not None else str(len(T[1]))] = 100 + i
                    out.append(d)
                else:
                    raise refops.Skip("setitem_field on a tuple (keys become positions)")
            return out
        raise ValueError(opname)

    def refusal_ok(self, T, tvs, opname, args, err):
        return opname == "setitem_field" and isinstance(err, NotImplementedError)

    def signature(self, T, tvs, d, names, opname, args, failure):
        p = args[1] if len(args) > 1 else None
        return {"pos": c01_slicing.C01.signature(None, T, tvs, d, names, "getitem", (p,), failure)["items"] if p is not None or opname.endswith("field") else "",
                "top": d["class"].rstrip("0123456789U_")}


if __name__ == "__main__":
    sys.exit(runner.main(C10()))
