#!/usr/bin/env python3
"""C11 -- the validity check is exact (part a) and operations on valid arrays return valid arrays (part b).

(a) Every physical layout of a bounded grammar -- index buffers ranging over *all* small integer vectors,
    valid or not, mask/content/length mismatches, forbidden nestings, string/categorical parameter sets --
    at top level and embedded at depth inside valid wrappers: the implementation reports an error iff the
    reference rules (model/layoutsem.py, from docs-sphinx/ak.layout.*.rst) do.
(b) Closure: the union alphabet of structural operations applied (depth <= 2) to every valid layout of the
    value universe x encodings; every result must pass the implementation's own validity check.
"""
import itertools
import re
import os
import sys

sys.path.insert(0, os.path.join(os.path.dirname(os.path.dirname(os.path.abspath(__file__))), "mc"))
import runner  # noqa: E402
from runner import Stats  # noqa: E402
import numpy as np  # noqa: E402
import pool  # noqa: E402
import layouts  # noqa: E402
import layoutsem  # noqa: E402
import values  # noqa: E402
import encs  # noqa: E402
import ext  # noqa: E402
import opalpha  # noqa: E402

W = {"32": np.int32, "U32": np.uint32, "64": np.int64}


def leaf(n, dtype=np.int64, par=None):
    d = {"class": "NumpyArray", "array": np.arange(n).astype(dtype)}
    if par:
        d["parameters"] = par
    return d


def vectors(n, lo, hi):
    return itertools.product(range(lo, hi + 1), repeat=n)


def candidates(group, tier):
    """Yield possibly-invalid layout descriptions of one group."""
    q = tier == "quick"
    maxn = 3 if q else 4
    if group.startswith("ListOffsetArray"):
        w = group[len("ListOffsetArray"):]
        lo = 0 if w == "U32" else -2
        for L in (0, 2):
            for n in range(1, maxn + 1):
                for v in vectors(n, lo, L + 1):
                    yield {"class": group, "offsets": np.array(v, W[w]), "content": leaf(L)}
    elif group.startswith("ListArray"):
        w = group[len("ListArray"):]
        lo = 0 if w == "U32" else -2
        for L in (0, 2):
            for n in range(0, (2 if q else 3) + 1):
                for st in vectors(n, lo, L + 1):
                    for sp in vectors(n, lo, L + 1):
                        yield {"class": group, "starts": np.array(st, W[w]), "stops": np.array(sp, W[w]),
                               "content": leaf(L)}
        # stops longer than starts is allowed; shorter is not
        yield {"class": group, "starts": np.array([0], W[w]), "stops": np.array([1, 1], W[w]), "content": leaf(2)}
        yield {"class": group, "starts": np.array([0, 0], W[w]), "stops": np.array([1], W[w]), "content": leaf(2)}
    elif group.startswith("IndexedOptionArray") or group.startswith("IndexedArray"):
        w = group[len("IndexedOptionArray"):] if group.startswith("IndexedOption") else group[len("IndexedArray"):]
        lo = 0 if w == "U32" else -2
        for L in (0, 1, 2):
            for n in range(0, maxn + 1):
                for v in vectors(n, lo, L + 1):
                    yield {"class": group, "index": np.array(v, W[w]), "content": leaf(L)}
    elif group == "ByteMaskedArray":
        for L in range(0, 4):
            for n in range(0, 4):
                for vw in (True, False):
                    yield {"class": group, "mask": np.array([1, 0, 1, 0][:n], np.int8), "content": leaf(L),
                           "valid_when": vw}
    elif group == "BitMaskedArray":
        for length in (0, 1, 7, 8, 9, 16, 17):  # negative declared lengths: see DESIGN.md 7 (ambiguity rule)
            for nbytes in (0, 1, 2, 3):
                for L in (0, 1, 7, 8, 9, 16, 17, 18):
                    for lsb in (True, False):
                        yield {"class": group, "mask": np.array([0xA5, 0x5A, 0xFF][:nbytes], np.uint8),
                               "content": leaf(L), "valid_when": True, "length": length, "lsb_order": lsb}
    elif group == "UnmaskedArray":
        for L in (0, 2):
            yield {"class": group, "content": leaf(L)}
    elif group.startswith("UnionArray8_"):
        w = group[len("UnionArray8_"):]
        lo = 0 if w == "U32" else -1
        for n in range(0, (2 if q else 3) + 1):
            for tags in vectors(n, -1, 2):
                for index in vectors(n, lo, 2):
                    yield {"class": group, "tags": np.array(tags, np.int8), "index": np.array(index, W[w]),
                           "contents": [leaf(2), leaf(1, np.float64)]}
        yield {"class": group, "tags": np.array([0, 0], np.int8), "index": np.array([0], W[w]),
               "contents": [leaf(2), leaf(1, np.float64)]}
        yield {"class": group, "tags": np.array([0], np.int8), "index": np.array([0, 1], W[w]),
               "contents": [leaf(2), leaf(1, np.float64)]}
    elif group == "RegularArray":
        for size in (-1, 0, 1, 2, 3):
            for zl in (-1, 0, 2):
                for L in (0, 1, 2, 5):
                    yield {"class": group, "size": size, "zeros_length": zl, "content": leaf(L)}
    elif group == "RecordArray":
        for length in (None, -1, 0, 1, 2, 3):
            for lens in ((), (2,), (2, 3), (0, 2), (3, 1)):
                for keys in (None, True):
                    yield {"class": group, "contents": [leaf(n) for n in lens],
                           "keys": None if keys is None else ["f%d" % i for i in range(len(lens))], "length": length}
    elif group == "nesting":
        opt = [
            lambda c: {"class": "IndexedOptionArray64", "index": np.array([0, -1][:min(2, layoutsem.length(c) + 1)][:1 + 0 * 1], np.int64) if layoutsem.length(c) else np.array([-1], np.int64), "content": c},
            lambda c: {"class": "IndexedOptionArray32", "index": np.array([-1], np.int32), "content": c},
            lambda c: {"class": "ByteMaskedArray", "mask": np.zeros(min(1, layoutsem.length(c)), np.int8), "content": c, "valid_when": True},
            lambda c: {"class": "BitMaskedArray", "mask": np.array([1], np.uint8), "content": c, "valid_when": True,
                       "length": min(1, layoutsem.length(c)), "lsb_order": True},
            lambda c: {"class": "UnmaskedArray", "content": c},
        ]
        idx = [
            lambda c: {"class": "IndexedArray64", "index": np.arange(layoutsem.length(c)).astype(np.int64), "content": c},
            lambda c: {"class": "IndexedArray32", "index": np.zeros(0, np.int32), "content": c},
            lambda c: {"class": "IndexedArrayU32", "index": np.arange(layoutsem.length(c)).astype(np.uint32), "content": c},
        ]
        lst = [
            lambda c: {"class": "ListOffsetArray64", "offsets": np.array([0, layoutsem.length(c)], np.int64), "content": c},
            lambda c: {"class": "RegularArray", "size": 1, "zeros_length": 0, "content": c},
            lambda c: {"class": "RecordArray", "contents": [c], "keys": ["x"], "length": None},
        ]
        uni = [
            lambda c: {"class": "UnionArray8_64", "tags": np.zeros(layoutsem.length(c), np.int8),
                       "index": np.arange(layoutsem.length(c)).astype(np.int64), "contents": [c, leaf(1, np.float64)]},
            lambda c: {"class": "UnionArray8_32", "tags": np.ones(min(1, layoutsem.length(c)), np.int8),
                       "index": np.zeros(min(1, layoutsem.length(c)), np.int32), "contents": [leaf(1, np.float64), c]},
        ]
        wrappers = opt + idx + lst + uni
        base = [leaf(2)]
        depth = 2 if q else 3
        level = base
        for _ in range(depth):
            nxt = []
            for c in level:
                for wfn in wrappers:
                    d = wfn(c)
                    nxt.append(d)
                    yield d
            level = nxt
    elif group == "parameters":
        def strlist(cls, lp, cp, dtype=np.uint8, ndim=1, content=None):
            c = content
            if c is None:
                arr = np.arange(4).astype(dtype)
                if ndim == 2:
                    arr = arr.reshape(4, 1)
                c = {"class": "NumpyArray", "array": arr}
                if cp:
                    c["parameters"] = {"__array__": cp}
            d = {"class": cls, "content": c}
            if cls.startswith("ListOffset"):
                d["offsets"] = np.array([0, 2, 4], W[cls[len("ListOffsetArray"):]])
            elif cls.startswith("ListArray"):
                d["starts"] = np.array([0, 2], W[cls[len("ListArray"):]])
                d["stops"] = np.array([2, 4], W[cls[len("ListArray"):]])
            elif cls == "RegularArray":
                d["size"] = 2
                d["zeros_length"] = 0
            if lp:
                d["parameters"] = {"__array__": lp}
            return d
        for cls in ("ListOffsetArray64", "ListOffsetArray32", "ListOffsetArrayU32", "ListArray64", "ListArray32",
                    "ListArrayU32", "RegularArray"):
            for lp in (None, "string", "bytestring", "other"):
                for cp in (None, "char", "byte", "other"):
                    for dtype in (np.uint8, np.int8, np.int64):
                        for ndim in (1, 2):
                            yield strlist(cls, lp, cp, dtype, ndim)
                # string whose content is not a NumpyArray
                yield strlist(cls, lp, None, content={"class": "ListOffsetArray64", "offsets": np.array([0, 1, 2, 3, 4], np.int64),
                                                      "content": leaf(4, np.uint8), "parameters": {"__array__": "char"}})
        # string/char parameters on nodes that cannot carry them
        for lp in ("string", "bytestring", "char", "byte"):
            yield leaf(3, np.uint8, {"__array__": lp})
            yield {"class": "IndexedArray64", "index": np.array([0], np.int64), "content": leaf(1), "parameters": {"__array__": lp}}
            yield {"class": "RecordArray", "contents": [leaf(1)], "keys": ["x"], "length": None, "parameters": {"__array__": lp}}
        # categorical: only on IndexedArray / IndexedOptionArray, content must be unique
        for content in ([1, 2, 3], [1, 2, 2], [], [5]):
            c = {"class": "NumpyArray", "array": np.array(content, np.int64)}
            n = len(content)
            for cls, w in (("IndexedArray64", np.int64), ("IndexedArray32", np.int32), ("IndexedArrayU32", np.uint32),
                           ("IndexedOptionArray64", np.int64), ("IndexedOptionArray32", np.int32)):
                yield {"class": cls, "index": np.arange(n).astype(w), "content": c, "parameters": {"__array__": "categorical"}}
            yield dict(c, parameters={"__array__": "categorical"})
            yield {"class": "ListOffsetArray64", "offsets": np.array([0, n], np.int64), "content": c,
                   "parameters": {"__array__": "categorical"}}
    else:
        raise ValueError(group)


def embeddings(d):
    """The candidate itself and the candidate embedded at depth inside valid wrappers."""
    yield "top", d
    n = layoutsem.length(d) if _has_len(d) else None
    if n is None or n < 0:
        return
    yield "in-list", {"class": "ListOffsetArray64", "offsets": np.array([0, n], np.int64), "content": d}
    yield "in-record", {"class": "RecordArray", "contents": [leaf(n), d], "keys": ["a", "b"], "length": None}
    yield "in-union", {"class": "UnionArray8_64", "tags": np.array([1] * min(n, 1), np.int8),
                       "index": np.array([0] * min(n, 1), np.int64), "contents": [leaf(1, np.float64), d]}


def _has_len(d):
    try:
        layoutsem.length(d)
        return True
    except Exception:
        return False


def model_verdict(d):
    try:
        return layoutsem.validity_error(d)
    except Exception as err:  # malformed beyond the rule language (e.g. negative lengths)
        return "model exception: %r" % (err,)


def impl_verdict(d):
    """None if the implementation accepts the layout, else a string (constructor refusal or validity error)."""
    try:
        lay = layouts.build(d)
    except (ValueError, RuntimeError, IndexError) as err:
        return "constructor: " + str(err)[:80]
    return lay.validityerror()



def has_string(d):
    if d is None:
        return False
    if (d.get("parameters") or {}).get("__array__") in ("string", "bytestring"):
        return True
    if isinstance(d.get("content"), dict) and has_string(d["content"]):
        return True
    if isinstance(d.get("array"), dict) and has_string(d["array"]):
        return True
    return any(has_string(x) for x in d.get("contents", []))


def has_record(d, zero_fields=False):
    if d is None:
        return False
    if d["class"] == "RecordArray" and (not zero_fields or len(d["contents"]) == 0):
        return True
    if isinstance(d.get("content"), dict) and has_record(d["content"], zero_fields):
        return True
    if isinstance(d.get("array"), dict) and has_record(d["array"], zero_fields):
        return True
    return any(has_record(x, zero_fields) for x in d.get("contents", []))


def has_option(d):
    if d is None:
        return False
    c = d["class"]
    if c.startswith("IndexedOption") or c in ("ByteMaskedArray", "BitMaskedArray", "UnmaskedArray"):
        return True
    if isinstance(d.get("content"), dict) and has_option(d["content"]):
        return True
    if isinstance(d.get("array"), dict) and has_option(d["array"]):
        return True
    return any(has_option(x) for x in d.get("contents", []))


def top_family(d):
    c = d["class"]
    for fam in ("IndexedOption", "Indexed", "ByteMasked", "BitMasked", "Unmasked", "Union", "ListOffset", "List",
                "Regular", "Record", "Numpy", "Empty"):
        if c.startswith(fam):
            return fam
    return c


def msgclass(ve):
    if ve is None:
        return None
    if "__array__ = " in ve:
        return "string-parameter-rule"
    if "contains Union" in ve:
        return "union-contains-union"
    if " contains " in ve and "simplify_optiontype" in ve:
        return "indexed-or-option-contains-indexed-or-option"
    if "negative length" in ve:
        return "negative-length"
    m = re.search(r"\((\w+)\): (.*?)( at i=\d+)?\s*(\(https|$)", ve, re.S)
    if m:
        return "structure: %s: %s" % (m.group(1), m.group(2).strip())
    return "structure: " + ve.split("(https")[0][-60:]


GROUPS_A = (["ListOffsetArray32", "ListOffsetArrayU32", "ListOffsetArray64", "ListArray32", "ListArrayU32", "ListArray64",
             "IndexedArray32", "IndexedArrayU32", "IndexedArray64", "IndexedOptionArray32", "IndexedOptionArray64",
             "ByteMaskedArray", "BitMaskedArray", "UnmaskedArray", "UnionArray8_32", "UnionArray8_U32", "UnionArray8_64",
             "RegularArray", "RecordArray", "nesting", "parameters"])


class C11(runner.Check):
    id = "C11"
    level = "model_checking"
    variant = "rel"
    rule = ("(a) states = physical layouts of the bounded grammar (index vectors over all small integers incl. negative "
            "and overshooting, mask/content/length mismatches, forbidden nestings to depth 2/3, string/categorical "
            "parameter sets), each also embedded under list/record/union; transition = validity check; oracle = documented "
            "rules. (b) states = valid layouts of the value universe x encodings (<=1 non-canonical node); transitions = "
            "structural operations (depth<=2 chains in thorough); invariant = every result passes validityerror. "
            "non-trivial = case whose model verdict is 'invalid' (a) or whose operation returned a non-empty array (b); "
            "distinct by construction (shards partition the enumeration).")
    assumptions = ["bridge + mirror marshal layouts faithfully (self-tested against layoutsem)",
                   "RapidJSON stand-in for parameter comparison"]

    def shards(self, tier):
        out = [("a", g) for g in GROUPS_A]
        types = values.TYPES_QUICK if tier == "quick" else values.TYPES_THOROUGH
        for ti in range(len(types)):
            out.append(("b", ti))
        if tier != "quick":
            out.append(("probe", 0))
        return [(tier,) + s for s in out]

    def run_shard(self, shard):
        tier, part = shard[0], shard[1]
        st = Stats()
        if part == "a":
            self._part_a(tier, shard[2], st)
        elif part == "probe":
            self._probe(st)
        else:
            self._part_b(tier, shard[2], st)
        return st.pack()

    def _probe(self, st):
        """operations known to kill the process are executed in a child process, once per run"""
        import subprocess
        env = dict(os.environ)
        p = subprocess.run([sys.executable, os.path.abspath(__file__), "--probe-num-tuples"], env=env, stdout=subprocess.PIPE,
                           stderr=subprocess.DEVNULL, text=True, timeout=300)
        st.states += 1
        st.transitions += 1
        st.evaluations += 1
        if p.returncode < 0:
            st.violation("crash", "num(axis=-1) of an (empty) list of lists of 1-tuples of lists died with signal %d in a child process" % (
                -p.returncode), {"part": "probe", "probe": "num-neg-axis-tuples"}, op="num", probe="num-neg-axis-tuples")
        elif p.returncode != 0:
            st.outcome("probe:num-neg-axis-tuples:raised")
        else:
            st.outcome("probe:num-neg-axis-tuples:ok")
            st.nontrivial += 1

    def _part_a(self, tier, group, st):
        no = 0
        for cand in candidates(group, tier):
            for where, d in embeddings(cand):
                no += 1
                pool.mark(no)
                st.states += 1
                st.transitions += 1
                st.evaluations += 1
                want = model_verdict(d)
                got = impl_verdict(d)
                if want is not None:
                    st.nontrivial += 1
                st.outcome("%s:%s" % (group, "invalid" if want else "valid"))
                if (want is None) != (got is None):
                    st.violation("validity-mismatch",
                                 "model says %s, implementation says %s for %s" % (want or "valid", got or "valid", layouts.short(d)),
                                 {"part": "a", "layout": layouts.to_json(d)}, op="validityerror",
                                 direction="missed" if want else "spurious", cls=cand["class"], where=where)
                elif no % 997 == 1:
                    st.sample({"layout": layouts.short(d), "model": want, "impl": (got or "")[:100] or None})
        pool.unmark()

    def _part_b(self, tier, ti, st):
        types = values.TYPES_QUICK if tier == "quick" else values.TYPES_THOROUGH
        T = types[ti]
        N, M = (2, 2) if tier == "quick" else (3, 2)
        depth2 = tier != "quick"
        no = 0
        nstates = 0
        for tvs in values.arrays(T, N, M, K=6):
            nstates += 1
            if nstates > (100 if tier == "quick" else 250):
                st.caps.append("type %s: state cap reached" % values.tstr(T))
                break
            for d, names in encs.encodings(T, tvs, 1):
                lay = layouts.build(d)
                st.states += 1
                for opname, args, fn in opalpha.ops_for(d, T, tier):
                    no += 1
                    pool.mark(no)
                    st.transitions += 1
                    st.evaluations += 1
                    try:
                        res = fn(lay)
                    except (ValueError, RuntimeError, IndexError, NotImplementedError) as err:
                        st.outcome(opname + ":error")
                        continue
                    for r in opalpha.contents_of(res):
                        ve = r.validityerror()
                        rlen = r._call(b"length").i[0]
                        if rlen > 0:
                            st.nontrivial += 1
                        if rlen < 0 and ve is None and not isinstance(r, ext.Record):
                            ve = "negative length %d" % rlen
                        if ve is not None:
                            st.violation("invalid-result",
                                         "%s%r on %s returned an invalid array: %s" % (opname, args, layouts.short(d), ve[:200]),
                                         {"part": "b", "layout": layouts.to_json(d), "op": opname, "args": list(args)},
                                         op=opname, msgclass=msgclass(ve), input_top=top_family(d),
                                         has_string=has_string(d), has_record=has_record(d),
                                         has_empty_record=has_record(d, True), has_option=has_option(d))
                        elif depth2 and nstates <= 12 and not isinstance(r, ext.Record):
                            rd = ext.describe(r)
                            for op2, args2, fn2 in opalpha.ops_for(rd, None, "quick", small=True):
                                if op2 == "num" and args2 and args2[0] < 0 and has_record(rd):
                                    # num(axis < 0) of nested lists of tuples kills the process (KF-C11-13): observed once
                                    # per run in a child process by the 'probe' shard instead of here
                                    continue
                                no += 1
                                pool.mark(no)
                                st.transitions += 1
                                st.evaluations += 1
                                try:
                                    res2 = fn2(r)
                                except (ValueError, RuntimeError, IndexError, NotImplementedError):
                                    continue
                                for r2 in opalpha.contents_of(res2):
                                    ve2 = r2.validityerror()
                                    if ve2 is not None:
                                        st.violation("invalid-result",
                                                     "%s%r after %s%r on %s returned an invalid array: %s" % (
                                                         op2, args2, opname, args, layouts.short(d), ve2[:200]),
                                                     {"part": "b", "layout": layouts.to_json(d), "op": opname, "args": list(args),
                                                      "op2": op2, "args2": list(args2)}, op=op2, chain=True, first_op=opname,
                                                     msgclass=msgclass(ve2),
                                                     input_top=top_family(rd), has_string=has_string(rd),
                                                     has_record=has_record(rd), has_empty_record=has_record(rd, True), has_option=has_option(rd))
                    st.outcome(opname + ":ok")
                if no % 50 == 0:
                    st.sample({"layout": layouts.short(d), "encoding": names})
        pool.unmark()

    def replay(self, case):
        d = layouts.from_json(case["layout"])
        if case.get("part") == "a":
            want, got = model_verdict(d), impl_verdict(d)
            return ((want is None) != (got is None),
                    "layout: %s\nmodel: %s\nimplementation: %s" % (layouts.short(d), want, got))
        lay = layouts.build(d)
        fn = opalpha.op_by_name(case["op"], case["args"])
        res = fn(lay)
        text = ["layout: %s" % layouts.short(d), "op: %s%r" % (case["op"], case["args"])]
        bad = False
        for r in opalpha.contents_of(res):
            if "op2" in case:
                r2 = opalpha.op_by_name(case["op2"], case["args2"])(r)
                for x in opalpha.contents_of(r2):
                    ve = x.validityerror()
                    text.append("result2 validity: %s" % ve)
                    bad = bad or ve is not None
            else:
                ve = r.validityerror()
                text.append("result validity: %s" % ve)
                bad = bad or ve is not None
        return bad, "\n".join(text)


def _probe_num_tuples():
    inner = {"class": "ListOffsetArray64", "offsets": np.array([0]), "content": {"class": "NumpyArray", "array": np.array([], dtype=np.int64)}}
    d = {"class": "RecordArray", "keys": None, "contents": [inner]}
    for _ in range(2):
        d = {"class": "ListOffsetArray64", "offsets": np.array([0]), "content": d}
    lay = layouts.build(d)
    try:
        r = lay.num(-1)
    except (ValueError, RuntimeError, IndexError):
        return 3
    print(r.validityerror() if hasattr(r, "validityerror") else r)
    return 0


if __name__ == "__main__":
    if len(sys.argv) > 1 and sys.argv[1] == "--probe-num-tuples":
        sys.exit(_probe_num_tuples())
    sys.exit(runner.main(C11()))
