#!/usr/bin/env python3
"""C12 -- operations never crash, hang, touch foreign memory, or modify their inputs (sanitizer build)."""
import json
import os
import sys

sys.path.insert(0, os.path.join(os.path.dirname(os.path.dirname(os.path.abspath(__file__))), "mc"))
import runner  # noqa: E402
from runner import Stats  # noqa: E402
import pool  # noqa: E402
import e1  # noqa: E402
import layouts  # noqa: E402
import layoutsem  # noqa: E402
import values  # noqa: E402
import encs  # noqa: E402
import opalpha  # noqa: E402
import ext  # noqa: E402
import akb  # noqa: E402
import c11_validity  # noqa: E402

PRINT_OPS = [("validityerror", ()), ("tojson", ()), ("tostring", ()), ("typestr", ()), ("formjson", ()), ("iterate", ()),
             ("length", ()), ("nbytes", ()), ("purelist_depth", ()), ("minmax_depth", ()), ("branch_depth", ())]


def run_print_op(lay, name):
    if name == "validityerror":
        return lay.validityerror()
    if name == "tojson":
        return lay.tojson()
    if name == "tostring":
        return repr(lay)
    if name == "typestr":
        return lay._typestr()
    if name == "formjson":
        return lay._formjson()
    if name == "iterate":
        out = []
        it = iter(lay)
        for k, x in enumerate(it):
            out.append(x)
            if k > 20:
                break
        return len(out)
    if name == "length":
        return len(lay)
    if name == "nbytes":
        return lay.nbytes
    return getattr(lay, name)


import findings  # noqa: E402


@findings.predicate("c12_nonlocal_sort")
def _c12_nonlocal_sort(v, params):
    """crash while sorting along a non-innermost axis (one of the two operations of the case is sort/argsort at an axis
    other than the last one of the layout)"""
    case = v.get("case") or {}
    if v.get("kind") != "crash" or "layout" not in case:
        return False
    try:
        d = layouts.from_json(case["layout"])
        lo, hi = layoutsem.minmax_depth(d)
    except Exception:  # noqa: B902
        return False
    for name, args in case.get("ops", []):
        if name in ("sort", "argsort"):
            ax = args[0]
            if ax not in (-1, hi - 1):
                return True
    return False


class C12(runner.Check):
    id = "C12"
    level = "model_checking"
    variant = "san"
    watchdog_s = 60.0
    budget_s = {"thorough": 1500}      # shards not started within the budget are reported as a cap
    rule = ("ASan+UBSan build of /repo. (a) histories: for every valid layout of the value universe x encodings, every ordered "
            "pair of operations from the union alphabet sharing that input (quick: a fixed partner per operation) is run; the "
            "input's bytes are compared before/after (purity); then the input is released, the heap is churned and poisoned "
            "with each of the patterns 0x00/0xFF(/0xA5), and both results are read again and must be unchanged. (b) the "
            "check/print/convert entry points (validityerror, tojson, tostring, type, form, iteration, length, nbytes, depth "
            "queries) on the full valid+invalid layout grammar of C11(a). Oracle: no signal, no sanitizer report, no watchdog "
            "hit, only ordinary exceptions, unchanged inputs, stable results. non-trivial = operation returned a value.")
    assumptions = ["AddressSanitizer/UBSan as the detector of out-of-buffer accesses (buffers are exact-size heap copies)",
                   "signed-overflow/shift checks are off for ForthMachine.cpp only (C19 defines wrap-around)"]

    def shards(self, tier):
        types = values.TYPES_QUICK if tier == "quick" else values.TYPES_THOROUGH
        out = [(tier, "hist", ti) for ti in range(len(types))]
        out += [(tier, "print", g) for g in c11_validity.GROUPS_A]
        out += [(tier, "long", g) for g in range(6)]
        return out

    def run_shard(self, shard):
        tier, part, x = shard
        st = Stats()
        if part == "hist":
            self._hist(tier, x, st)
        elif part == "long":
            self._hist(tier, None, st, self._long_universe(tier, x))
        else:
            self._print(tier, x, st)
        pool.unmark()
        return st.pack()

    def _long_universe(self, tier, g):
        """arrays that leave the small-input paths: lists longer than the sorting thresholds, option nodes spanning
        several mask bytes"""
        from values import I, F, var, opt
        out = []
        for kind, tvs in values.long_sort_values((17, 33) if tier == "quick" else (16, 17, 24, 33, 65)):
            out.append((var(F) if kind == "float" else var(I), tvs))
        for tvs in values.long_option_values((9,) if tier == "quick" else (9, 17)):
            out.append((opt(I), tvs))
        for tvs in values.long_option_list_values():
            out.append((var(opt(I)), tvs))
        return [x for k, x in enumerate(out) if k % 6 == g]

    def _hist(self, tier, ti, st, universe=None):
        types = values.TYPES_QUICK if tier == "quick" else values.TYPES_THOROUGH
        N, M, cap = (2, 2, 12) if tier == "quick" else (3, 2, 18)
        patterns = (0x00, 0xFF) if tier == "quick" else (0x00, 0xFF, 0xA5)
        no = 0
        nvals = 0
        if universe is None:
            universe = ((types[ti], tvs) for tvs in values.arrays(types[ti], N, M, 5))
            nenc = None
        else:
            nenc = 3
        for T, tvs in universe:
            nvals += 1
            if ti is not None and nvals > cap:
                st.caps.append("type %s: value cap %d" % (values.tstr(T), cap))
                break
            for d, names in list(encs.encodings(T, tvs, 1, True))[:nenc]:
                st.states += 1
                ops = [(n, a) for n, a, _ in opalpha.ops_for(d, T, "quick", small=(tier == "quick"))]
                for k, (n1, a1) in enumerate(ops):
                    partners = [ops[(k * 7 + 3) % len(ops)]] if tier == "quick" else [ops[(k * 7 + 3) % len(ops)], ops[(k * 11 + 5) % len(ops)]]
                    for n2, a2 in partners:
                        no += 1
                        pool.mark(no)
                        st.transitions += 2
                        st.evaluations += 1
                        lay = layouts.build(d)
                        before = layouts.key(ext.describe(lay))
                        r1 = self._try(lay, n1, a1)
                        r2 = self._try(lay, n2, a2)
                        after = layouts.key(ext.describe(lay))
                        if before != after:
                            st.violation("input-modified", "%s%r then %s%r modified the input %s" % (n1, a1, n2, a2, layouts.short(d)[:300]),
                                         {"part": "hist", "layout": layouts.to_json(d), "ops": [[n1, e1._jsonable(a1)], [n2, e1._jsonable(a2)]]},
                                         op=n1, failure="input-modified")
                            continue
                        v1 = self._read(r1)
                        v2 = self._read(r2)
                        del lay
                        ok = True
                        for pat in patterns:
                            akb.lib().akb_heap_churn(3, pat)
                            if not (self._same(v1, self._read(r1)) and self._same(v2, self._read(r2))):
                                ok = False
                        if not ok:
                            st.violation("unstable-result",
                                         "result of %s%r / %s%r on %s changed after the input was released" % (n1, a1, n2, a2, layouts.short(d)[:300]),
                                         {"part": "hist", "layout": layouts.to_json(d), "ops": [[n1, e1._jsonable(a1)], [n2, e1._jsonable(a2)]]},
                                         op=n1, failure="unstable-result")
                        else:
                            st.outcome("%s:%s" % (n1, r1[0]))
                            if r1[0] == "value":
                                st.nontrivial += 1
                if nvals % 5 == 1:
                    st.sample({"layout": layouts.short(d)[:200], "ops": len(ops)})

    def _try(self, lay, name, args):
        try:
            return ("value", opalpha.apply(lay, name, list(args)))
        except e1.ERRORS as err:
            return ("error", type(err).__name__)

    def _read(self, r):
        if r[0] != "value":
            return r
        try:
            return ("value", e1.observe(r[1]))
        except layoutsem.Invalid as err:
            return ("invalid", str(err))
        except e1.ERRORS as err:
            return ("error-on-read", type(err).__name__)

    def _same(self, a, b):
        return a[0] == b[0] and (a[0] != "value" or layoutsem.same(a[1], b[1]))

    def _print(self, tier, group, st):
        no = 0
        for cand in c11_validity.candidates(group, tier):
            for where, d in c11_validity.embeddings(cand):
                try:
                    lay = layouts.build(d)
                except e1.ERRORS:
                    st.outcome("constructor-refused")
                    continue
                st.states += 1
                for name, _ in PRINT_OPS:
                    no += 1
                    pool.mark(no)
                    st.transitions += 1
                    st.evaluations += 1
                    try:
                        run_print_op(lay, name)
                        st.outcome(name + ":returned")
                        st.nontrivial += 1
                    except e1.ERRORS:
                        st.outcome(name + ":raised")
                if no % 4001 < len(PRINT_OPS):
                    st.sample({"layout": layouts.short(d)[:200], "entry points": [n for n, _ in PRINT_OPS]})

    def crash_case(self, crash):
        """Re-enumerate the shard (without executing) up to the crashing case to name it."""
        tier, part, x = crash.shard
        target = crash.case_no
        no = 0
        try:
            if part == "print":
                for cand in c11_validity.candidates(x, tier):
                    for where, d in c11_validity.embeddings(cand):
                        try:
                            layouts.build(d)
                        except e1.ERRORS:
                            continue
                        for name, _ in PRINT_OPS:
                            no += 1
                            if no == target:
                                return {"part": "print", "layout": layouts.to_json(d), "op": name}
            else:
                types = values.TYPES_QUICK if tier == "quick" else values.TYPES_THOROUGH
                N, M, cap = (2, 2, 12) if tier == "quick" else (3, 2, 18)
                if part == "long":
                    universe = self._long_universe(tier, x)
                    nenc, cap = 3, 10 ** 9
                else:
                    universe = ((types[x], tvs) for tvs in values.arrays(types[x], N, M, 5))
                    nenc = None
                nvals = 0
                for T, tvs in universe:
                    nvals += 1
                    if nvals > cap:
                        break
                    for d, names in list(encs.encodings(T, tvs, 1, True))[:nenc]:
                        ops = [(n, a) for n, a, _ in opalpha.ops_for(d, T, "quick", small=(tier == "quick"))]
                        for k, (n1, a1) in enumerate(ops):
                            partners = [ops[(k * 7 + 3) % len(ops)]] if tier == "quick" else [ops[(k * 7 + 3) % len(ops)], ops[(k * 11 + 5) % len(ops)]]
                            for n2, a2 in partners:
                                no += 1
                                if no == target:
                                    return {"part": "hist", "layout": layouts.to_json(d),
                                            "ops": [[n1, e1._jsonable(a1)], [n2, e1._jsonable(a2)]]}
        except Exception as err:
            return {"shard": list(crash.shard), "case_no": target, "note": "could not re-enumerate: %r" % (err,)}
        return {"shard": list(crash.shard), "case_no": target}

    def replay(self, case):
        d = layouts.from_json(case["layout"])
        lay = layouts.build(d)
        text = ["layout: %s" % layouts.short(d)]
        if case.get("part") == "print":
            text.append("%s -> %r" % (case["op"], run_print_op(lay, case["op"])))
            return False, "\n".join(text)
        for n, a in case["ops"]:
            text.append("%s%r -> %r" % (n, a, self._read(self._try(lay, n, a))))
        return False, "\n".join(text) + "\n(a crash or sanitizer report while replaying is the violation)"


if __name__ == "__main__":
    sys.exit(runner.main(C12()))
