#!/usr/bin/env python3
"""C13 -- every compiled CPU kernel computes what its Python specification computes (engine E2, tier L1)."""
import json
import os
import re
import sys

sys.path.insert(0, os.path.join(os.path.dirname(os.path.dirname(os.path.abspath(__file__))), "mc"))
import runner  # noqa: E402
from runner import Stats  # noqa: E402
import pool  # noqa: E402
import e2  # noqa: E402
import kernelspec as ks  # noqa: E402
import build  # noqa: E402
import findings  # noqa: E402
import ast  # noqa: E402

import numpy as np  # noqa: E402

TIERS = {
    # case_cap: cases per specialisation; root_cap: scalar tuples per specialisation; ext: largest index the
    # definition may touch in an input / output; fills: guard and filler byte patterns (nuisance dimension)
    "quick": dict(case_cap=24000, root_cap=2000, in_ext=16, out_ext=48, fills=(0x00, 0xFF), raw_cap=60000),
    "thorough": dict(case_cap=120000, root_cap=4000, in_ext=24, out_ext=64, fills=(0x00, 0xFF, 0xA5),
                     raw_cap=200000),
}

# class B kernels whose definition cannot execute (NameError / signature mismatch): they additionally get the
# definition-free treatment of class C (DESIGN.md 5 C13, class B)
RAW_FALLBACK = ("awkward_ListArray_getitem_next_range", "awkward_ListArray_getitem_next_range_carrylength",
                "awkward_NumpyArray_rearrange_shifted")



@findings.predicate("c13_case")
def _c13_case(v, params):
    """Narrowing of C13 known findings: the failure class is one of `failure_in`, and/or the failing input's array
    argument `arg` holds a value of class `has` (negative / nonzero / zero / nan), and/or its scalar argument `scalar` lies
    in [min, max]."""
    if "failure_in" in params and v.get("failure") not in params["failure_in"]:
        return False
    if "scalar" in params:
        x = ((v.get("case") or {}).get("args") or {}).get(params["scalar"])
        if not isinstance(x, int) or x < params.get("min", x) or x > params.get("max", x):
            return False
    if "arg" in params:
        case = v.get("case") or {}
        a = (case.get("args") or case.get("input") or {}).get(params["arg"])
        if isinstance(a, dict) and "vals" in a:
            vals = list(a["vals"].values())
        elif isinstance(a, dict):
            vals = [x for payload in a.values() if isinstance(payload, list) for x in payload]
        else:
            return False
        test = {"negative": lambda x: x < 0, "nonzero": lambda x: x != 0, "zero": lambda x: x == 0,
                "nan": lambda x: x != x}[params.get("has", "nonzero")]
        if not any(test(x) for x in vals):
            return False
    return True


_lib = None


def klib():
    global _lib
    if _lib is None:
        import akb
        akb.lib()
        _lib = e2.KernelLib(akb.info()["libkernels"])
    return _lib


# ----------------------------------------------------------------------------------------------------------
# dynamic (element-dependent) domains


class Domains(object):
    """Per specialisation: one domain function per array argument."""

    def __init__(self, spec, tier, relax=(), inout=(), opts=None):
        self.static = {}
        self.fn = {}
        self.relax = relax
        self.inout = inout
        # harness-defined kernels that dereference their data at every offset do without the `huge` members: each would
        # only produce candidates outside the contract
        self.huge = not (opts and opts.get("huge") is False)
        for a in spec["args"]:
            if a["depth"] == 0 or (a["dir"] == "out" and a["name"] not in inout):
                continue
            self.static[a["name"]] = ks.static_domain(a, tier, relax, opts)
            kind = a["kind"]
            if not self.huge and kind in ("offsets", "starts", "stops"):
                self.static[a["name"]] = [m for m in self.static[a["name"]] if m[0] < ks.HUGE64]
            if kind == "offsets":
                self.fn[a["name"]] = self._offsets(a)
            elif kind in ("starts", "stops"):
                self.fn[a["name"]] = self._startstop(a, ks.partner(a["name"], kind))
            else:
                self.fn[a["name"]] = self._plain(a)

    def _plain(self, a):
        dom = self.static[a["name"]]

        def f(lz, i):
            return dom
        return f

    def _offsets(self, a):
        dom = self.static[a["name"]]
        lo_t, hi_t = e2.INT_RANGE[a["base"]]
        hi_t = min(hi_t, ks.HUGE64)
        relax = "monotone" in self.relax

        def f(lz, i):
            vals = lz.vals
            if not vals:
                return dom
            below = [j for j in vals if j < i]
            above = [j for j in vals if j > i]
            lo = vals[max(below)] if below else None
            hi = vals[min(above)] if above else None
            if lo is None:
                cand = [v for v, r in dom if not r]
            else:
                cand = [lo, lo + 1, lo + 2, hi_t] if self.huge else [lo, lo + 1, lo + 2]
            out = []
            for v in cand:
                if v > hi_t or (hi is not None and v > hi) or (lo is not None and v < lo):
                    continue
                if (v, False) not in out:
                    out.append((v, False))
            # relaxed: break monotonicity by one step
            if relax:
                if lo is not None and lo - 1 >= max(lo_t, 0) and (hi is None or lo - 1 <= hi):
                    out.append((lo - 1, True))
                elif lo is None and hi is not None and hi + 1 <= hi_t:
                    out.append((hi + 1, True))
            if not out:
                # the neighbours already break the rule (relaxed earlier): any value between is as good
                out = [(lo if lo is not None else 0, False)]
            return out
        return f

    def _startstop(self, a, partner):
        dom = self.static[a["name"]]
        lo_t, hi_t = e2.INT_RANGE[a["base"]]
        hi_t = min(hi_t, ks.HUGE64)
        is_stop = a["kind"] == "stops"
        relax = "order" in self.relax

        def f(lz, i):
            other = lz.state.aux.get(partner)
            if other is None or i not in other.vals:
                return dom
            o = other.vals[i]
            if o < 0:
                return dom
            out = []
            if is_stop:
                for v in (o, o + 1, o + 2, hi_t) if self.huge else (o, o + 1, o + 2):
                    if o <= v <= hi_t and (v, False) not in out:
                        out.append((v, False))
                if relax and o - 1 >= 0:
                    out.append((o - 1, True))
            else:
                for v in (0, 1, 2, 3, o):
                    if 0 <= v <= o and (v, False) not in out:
                        out.append((v, False))
                if relax and o + 1 <= hi_t:
                    out.append((o + 1, True))
            return out
        return f


class RelaxedIn(e2.LazyIn):
    """LazyIn whose domain members are (value, relaxed) pairs; at most one relaxed member per candidate.
    `declared` is the extent the signature declares through a length argument (None: not declared)."""
    __slots__ = ("declared",)

    def __getitem__(self, i):
        if type(i) is not int:
            if isinstance(i, float) and not isinstance(i, e2.CFloat):
                raise TypeError("float index")
            i = int(i)
        w = self.written
        if w and i in w:
            return w[i]
        v = self.vals.get(i, self)
        if v is self:
            st = self.state
            st.ops += 1
            if st.ops > st.maxops:
                raise e2.Skip("definition-too-long")
            if i < 0 or i >= self.maxext:
                raise e2.OutOfExtent(self.name)
            if self.child is not None:
                v = self.child(i)
            else:
                dom = self.domain(self, i)
                n = len(dom)
                v, relaxed = dom[self.ctx.choose(n)] if n > 1 else dom[0]
                if relaxed:
                    aux = st.aux
                    aux["#relaxed"] = aux.get("#relaxed", 0) + 1
                    if aux["#relaxed"] > 1:
                        self.vals[i] = v
                        raise e2.Skip("two-rules-relaxed")
            self.vals[i] = v
        return v


# ----------------------------------------------------------------------------------------------------------
# one candidate: definition vs compiled kernel


def inout_outputs(source, spec):
    """Output arguments whose first access in the definition (statement order) is a read: they are in/out (e.g. toptr of
    awkward_NumpyArray_reduce_adjust_starts_64, toindex of awkward_Index_nones_as_index) and get input treatment:
    their initial content is enumerated like an input, their final content is compared like an output."""
    outs = set(a["name"] for a in spec["args"] if a["dir"] == "out" and a["depth"] == 1)
    first = {}
    try:
        tree = ast.parse(source)
    except SyntaxError:
        return set()

    def is_out(t):
        return isinstance(t, ast.Subscript) and isinstance(t.value, ast.Name) and t.value.id in outs

    def reads(expr):
        if expr is None:
            return
        for sub in ast.walk(expr):
            if is_out(sub) and isinstance(sub.ctx, ast.Load):
                first.setdefault(sub.value.id, "r")

    def block(stmts):
        for st in stmts:
            if isinstance(st, ast.Assign):
                reads(st.value)
                for t in st.targets:
                    if is_out(t):
                        reads(t.slice)
                        first.setdefault(t.value.id, "w")
                    else:
                        reads(t)
            elif isinstance(st, ast.AugAssign):
                reads(st.value)
                if is_out(st.target):
                    first.setdefault(st.target.value.id, "r")
                else:
                    reads(st.target)
            elif isinstance(st, ast.For):
                reads(st.iter)
                block(st.body)
                block(st.orelse)
            elif isinstance(st, (ast.While, ast.If)):
                reads(st.test)
                block(st.body)
                block(st.orelse)
            elif isinstance(st, ast.FunctionDef):
                block(st.body)
            else:
                for child in ast.iter_child_nodes(st):
                    reads(child)
    block(tree.body)
    return set(n for n, kd in first.items() if kd == "r")


def build_args(spec, scalars, ctx, doms, T, preset=None):
    """-> (python args for the definition, RunState).  preset: {name: {"n":, "vals":}} for replay."""
    st = e2.RunState()
    args = []
    for a in spec["args"]:
        name = a["name"]
        if a["depth"] == 0:
            args.append(scalars[name])
        elif a["dir"] == "out" and name not in doms.inout:
            if a["depth"] == 2:
                o = e2.OutOuter(name, a["base"], T["out_ext"], st)
            else:
                o = e2.Out(name, a["base"], T["out_ext"], st)
            st.aux[name] = o
            args.append(o)
        else:
            if a["depth"] == 2:
                def child(i, a=a, name=name, st=st):
                    cname = "%s[%d]" % (name, i)
                    c = RelaxedIn(cname, a["base"], doms.fn[name], ctx, T["in_ext"], st)
                    c.declared = None
                    if preset is not None:
                        p = preset.get(name, {}).get("rows", {}).get(str(i))
                        if p is None:
                            raise e2.OutOfExtent(name)
                        c.maxext = p["n"]
                        c.vals.update({int(k): v for k, v in p["vals"].items()})
                    return c
                lz = RelaxedIn(name, a["base"], None, ctx, 4, st, child=child)
                lz.declared = None
                if preset is not None:
                    lz.maxext = preset.get(name, {}).get("n", 0)
            else:
                lz = RelaxedIn(name, a["base"], doms.fn[name], ctx, T["in_ext"], st)
                lz.declared = None
                if a.get("extent_of"):
                    lz.declared = max(0, min(scalars[a["extent_of"]], T["in_ext"]))
                    lz.maxext = lz.declared
                if preset is not None:
                    p = preset.get(name, {"n": 0, "vals": {}})
                    lz.maxext = p["n"]
                    lz.vals.update({int(k): v for k, v in p["vals"].items()})
            st.aux[name] = lz
            args.append(lz)
    return args, st


def extent(d):
    return (max(d) + 1) if d else 0


def in_extent(obj):
    """Extent of an input buffer: what the signature declares, else exactly what the definition touched."""
    n = max(extent(obj.vals), extent(obj.written))
    d = getattr(obj, "declared", None)
    return n if d is None else max(n, d)


class Call(object):
    """Concrete buffers for one call of the compiled kernel."""

    def __init__(self, spec, scalars, st, fill, errored, preset=None):
        self.bufs = {}      # name -> Buf (or list of row Bufs for depth 2)
        self.rows = {}
        cargs = []
        fill0 = fill
        for ai, a in enumerate(spec["args"]):
            name = a["name"]
            if a["depth"] == 0:
                cargs.append(scalars[name])
                continue
            obj = st.aux[name]
            fill = e2.arg_fill(fill0, ai)
            if a["depth"] == 2:
                rows = []
                if isinstance(obj, e2.OutOuter):
                    nrows = extent(obj.rows)
                    for r in range(nrows):
                        o = obj.rows.get(r)
                        n = extent(o.written) if o is not None else 0
                        rows.append(e2.Buf(a["base"], n + (e2.GUARD if errored else 0), e2.arg_fill(fill0, ai, r)))
                else:
                    nrows = obj.maxext if preset is not None else extent(obj.vals)
                    for r in range(nrows):
                        c = obj.vals.get(r)
                        if c is None:
                            rows.append(e2.Buf(a["base"], 0, e2.arg_fill(fill0, ai, r)))
                        else:
                            n = c.maxext if preset is not None else max(extent(c.vals), extent(c.written))
                            rows.append(e2.Buf(a["base"], n, e2.arg_fill(fill0, ai, r), c.vals))
                pb = e2.Buf("uint64_t", nrows, fill, {r: b.ptr() for r, b in enumerate(rows)})
                self.rows[name] = rows
                self.bufs[name] = pb
                for b in rows:
                    b.snapshot()
                pb.snapshot()
                cargs.append(pb.ptr())
                continue
            if isinstance(obj, e2.Out):
                if preset is not None and name in preset:
                    n = preset[name]["n"]
                else:
                    n = extent(obj.written) + (e2.GUARD if errored else 0)
                b = e2.Buf(a["base"], n, fill)
            else:
                if preset is not None:
                    n = obj.maxext
                else:
                    n = in_extent(obj)
                b = e2.Buf(a["base"], n, fill, obj.vals)
                b.snapshot()
            self.bufs[name] = b
            cargs.append(b.ptr())
        self.cargs = cargs


def case_dict(spec, scalars, st, fill, errored):
    """Replayable description: scalars, and for each array its exact extent and the values the definition read."""
    args = {}
    for a in spec["args"]:
        name = a["name"]
        if a["depth"] == 0:
            args[name] = scalars[name]
            continue
        obj = st.aux[name]
        if isinstance(obj, e2.OutOuter):
            args[name] = {"out_rows": extent(obj.rows)}
        elif isinstance(obj, e2.Out):
            args[name] = {"n": extent(obj.written) + (e2.GUARD if errored else 0), "out": True}
        elif a["depth"] == 2:
            rows = {}
            for r, c in obj.vals.items():
                rows[str(r)] = {"n": max(extent(c.vals), extent(c.written)),
                                "vals": {str(k): v for k, v in sorted(c.vals.items())}}
            args[name] = {"n": extent(obj.vals), "rows": rows}
        else:
            args[name] = {"n": in_extent(obj),
                          "vals": {str(k): v for k, v in sorted(obj.vals.items())}}
    return {"spec": spec["name"], "fill": fill, "args": args}


def compare(spec, run, st, call, err, fill, checks=None, scalars=None):
    """-> list of (failure, text).  checks: {output name: checker} for outputs whose correct value is not unique
    (model/kernelspec_extra.py)."""
    bad = []
    c_failed = err.str is not None
    if (run.status == "error") != c_failed:
        bad.append(("status", "definition %s, compiled kernel %s" % (
            "raises ValueError(%r)" % run.message if run.status == "error" else "succeeds",
            "fails with %r" % err.str if c_failed else "succeeds")))
    for a in spec["args"]:
        if a["depth"] == 0:
            continue
        name = a["name"]
        b = call.bufs[name]
        allb = [(name, b)] + [("%s[%d]" % (name, r), rb) for r, rb in enumerate(call.rows.get(name, []))]
        for bn, bb in allb:
            if not bb.guards_ok():
                bad.append(("guard", "compiled kernel wrote outside %s[0:%d] (guard zone of %d elements changed)"
                            % (bn, bb.n, e2.GUARD)))
            elif a["const"] and bb.before is not None and not bb.unchanged():
                bad.append(("guard", "compiled kernel modified its const input %s" % bn))
    if run.status == "ok" and not c_failed:
        for a in spec["args"]:
            if a["depth"] == 0:
                continue
            name = a["name"]
            obj = st.aux[name]
            if a["depth"] == 2:
                if not isinstance(obj, e2.OutOuter):
                    continue
                for r, o in obj.rows.items():
                    got = call.rows[name][r].tolist()
                    for i, v in sorted(o.written.items()):
                        if not e2.same(a["base"], v, got[i]):
                            bad.append(("value", "%s[%d][%d]: definition %r, compiled kernel %r" % (name, r, i, v, got[i])))
                            break
                continue
            written = obj.written
            if not written:
                continue
            got = call.bufs[name].tolist()
            if checks and name in checks:
                ins = {n: o.vals for n, o in st.aux.items() if isinstance(o, e2.LazyIn)}
                text = checks[name](scalars, ins, written, got)
                if text:
                    bad.append(("value", text))
                continue
            for i, v in sorted(written.items()):
                if not e2.same(a["base"], v, got[i]):
                    bad.append(("value", "%s[%d]: definition %r, compiled kernel %r" % (name, i, v, got[i])))
                    break
    return bad


def describe(case):
    parts = []
    for k, v in case["args"].items():
        if isinstance(v, dict):
            if v.get("out"):
                parts.append("%s=<out[%d]>" % (k, v["n"]))
            elif "rows" in v:
                parts.append("%s=%s" % (k, [[r["vals"].get(str(i), "_") for i in range(r["n"])]
                                              for _, r in sorted(v["rows"].items())]))
            elif "vals" in v:
                parts.append("%s=%s" % (k, [v["vals"].get(str(i), "_") for i in range(v["n"])]))
            else:
                parts.append("%s=%r" % (k, v))
        else:
            parts.append("%s=%r" % (k, v))
    return "%s(%s)" % (case["spec"], ", ".join(parts))


# ----------------------------------------------------------------------------------------------------------


def roots_for(spec, tier, T, opts=None):
    """Scalar tuples (eagerly enumerated roots), shrunk until they fit the root cap.  opts (harness-defined kernels):
    `scalars` replaces the domain of a scalar, `require` is the calling contract between the scalars, `per_root`
    orders the tuples by the sum of their length-like members."""
    opts = opts or {}
    scal = [a for a in spec["args"] if a["depth"] == 0]
    shrink = 0
    over = opts.get("scalars", {})
    while True:
        doms = [list(over[a["name"]]) if a["name"] in over else ks.scalar_domain(a, tier, shrink) for a in scal]
        n = 1
        for d in doms:
            n *= len(d)
        if n <= T["root_cap"] or shrink >= 2:
            break
        shrink += 1
    roots = [()]
    for d in doms:
        roots = [r + (i,) for r in roots for i in range(len(d))]
    if opts.get("require"):
        names = [a["name"] for a in scal]
        roots = [r for r in roots if opts["require"]({n: d[i] for n, d, i in zip(names, doms, r)})]
    if opts.get("per_root"):
        sized = [j for j, a in enumerate(scal) if a["kind"] == "length" and a["name"] not in over]
        roots.sort(key=lambda r: (sum(doms[j][r[j]] for j in sized), r))
    capped = None
    if len(roots) > T["root_cap"]:
        capped = len(roots)
        # keep a deterministic spread over the product
        step = len(roots) / float(T["root_cap"])
        roots = [roots[int(i * step)] for i in range(T["root_cap"])]
    return scal, doms, roots, shrink, capped


class C13(runner.Check):
    id = "C13"
    level = "exploration"
    variant = "rel"
    watchdog_s = 60.0
    rule = ("classes A/B, per specialisation: every tuple of scalar arguments (lengths 0..3 quick / 0..4 thorough, flags both "
            "ways, positions incl. negatives and kSliceNone) x every assignment of the array elements the Python definition "
            "reads (an element becomes a choice point when first read; per-kind domains: small in-range values, -1, the "
            "extreme values of the C type (2**32+1 for 64-bit index-like arguments); offsets monotone, starts<=stops, one "
            "validity rule relaxed at a time where the definition itself raises for it), enumerated breadth-first by number "
            "of non-default elements up to the per-specialisation cap; each candidate inside the contract is run through "
            "the definition and through the compiled kernel (ctypes, buffers of the declared/touched extent between guard "
            "zones, every filler/guard byte pattern) and status, written outputs, guard zones and const inputs are compared. "
            "class H: kernels whose YAML entry has no executable definition but for which the harness carries one "
            "(model/kernelspec_extra.py: awkward_sort, argsort, quick_sort, quick_argsort, sorting_ranges(_length), unique, "
            "NumpyArray_subrange_equal, ListOffsetArray_argsort_strings, NumpyArray_sort_asstrings_uint8, "
            "ListOffsetArray/IndexedArray_local_preparenext_64, NumpyArray_copy, contiguous_copy, getitem_next_null, "
            "fill_tocomplex) are compared exactly like A/B; sorting definitions are insertion sorts on exact Python numbers "
            "(NaN first); the sort family is explored scalar tuple by scalar tuple, smallest first, each on its share of the "
            "cap, with NaN in the floating-point domain and without the 2**32+1 offsets; where the answer is not unique "
            "(argsort with stable=false, quick_argsort, argsort_strings with is_stable=false, local_preparenext) a checker "
            "accepts every per-range permutation whose key sequence equals that of the stable answer; 64-bit integer data "
            "include max-1, min+1 and the pair 2**53, 2**53+1. "
            "class C (+ class B with non-executable definition): role-aware bounded-exhaustive inputs, every specialisation "
            "x every byte pattern; guards, const inputs, independence of the pattern, agreement of the specialisations. "
            "non-trivial = the definition wrote an output element or raised ValueError (class C: the kernel wrote an output "
            "or failed); candidates are distinct by construction (distinct choice sequences / inputs of one kernel). "
            "Agreement between the specialisations of a class A/B kernel follows from the agreement of each with the one "
            "definition on the shared members of the domains; it is checked directly only where there is no definition.")
    assumptions = [
        "ctypes marshalling of the kernel ABI (struct Error returned by value) -- exercised by every call",
        "a definition that reads an input outside its declared extent (or outside the touched-extent cap), divides by zero, "
        "reads an unwritten output, loses precision in float()/int(), or exceeds 3000 array accesses is outside its contract "
        "(counted as skipped, DESIGN 3.2 i-ii)",
        "argument kinds and declared extents (lenarray for fromarray ...) are inferred from argument names "
        "(model/kernelspec.py) because YAML roles only name the repository's test data sets",
        "signed overflow in a compiled kernel is observed as wrap-around (gcc -O2); outputs are compared after C conversion; "
        "64-bit index-like arguments take 2**32+1 instead of INT64_MAX as their huge member",
        "float(x) in a definition is a C cast (usable in range()); a by-value call of awkward_regularize_rangeslice in a "
        "definition is read as the by-reference call of the C source, with Python's slice.indices as its meaning",
        "the harness-side definitions (class H) state the meaning the callers in src/libawkward rely on; where a kernel is "
        "only defined under a calling contract the enumeration is restricted to it (awkward_sort: parentslength == length; "
        "quick sorts: maxlevels in {1, 8}, work arrays tmpbeg/tmpend of maxlevels elements with unspecified content)",
        "class C kernels (no Python definition) get guard-zone, crash, pattern-independence and cross-specialisation checks only; "
        "reads outside an extent are seen only when the result depends on them (no sanitizer on ctypes buffers)",
        "known crash findings are re-executed in a forked child on every run (quarantine field of known_findings.json)",
    ]

    def __init__(self):
        self._kernels = None
        self._quarantine = None

    # Known crash findings are executed in a forked child first, so that the worker survives, the finding is
    # re-observed on every run (never assumed), and the exploration of that specialisation continues.
    def quarantine(self):
        if self._quarantine is None:
            q = {"spec": {}, "kernel": set()}
            for ent in findings.load():
                if ent.get("property") == "C13" and ent.get("status") == "known":
                    for qq in ent.get("quarantine") or []:
                        if "spec" in qq:
                            q["spec"].setdefault(qq["spec"], []).append(qq)
                        if "kernel" in qq:
                            q["kernel"].add(qq["kernel"])
            self._quarantine = q
        return self._quarantine

    def quarantined_kernels(self):
        return self.quarantine()["kernel"]

    def kernels(self):
        if self._kernels is None:
            self._kernels = ks.load()
        return self._kernels

    # ---- shards
    def shards(self, tier):
        raw, out = [], [("sig", tier)]
        only = os.environ.get("AKV_C13_ONLY")
        for ki, k in enumerate(self.kernels()):
            if only and only not in k["name"]:
                continue
            if k["class"] == "C" or k["name"] in RAW_FALLBACK:
                # the definition-free kernels with many specialisations are the longest shards: split their input
                # enumeration into disjoint residue classes and start them first
                nparts = 8 if len(k["specializations"]) > 3 or k["name"] in self.quarantined_kernels() else 1
                for part in range(nparts):
                    raw.append(("raw", tier, ki, part, nparts))
            if k["class"] != "C":
                for si in range(len(k["specializations"])):
                    out.append(("def", tier, ki, si))
        return raw + out

    def run_shard(self, shard):
        if os.environ.get("AKV_C13_TIMES"):
            import time
            t0 = time.process_time()
            r = self._run_shard(shard)
            with open(os.environ["AKV_C13_TIMES"], "a") as f:
                f.write("%.2f %r %s nontrivial=%d states=%d %r\n" % (
                    time.process_time() - t0, shard, self.kernels()[shard[2]]["name"] if len(shard) > 2 else "",
                    r["nontrivial"], r["states"], sorted(r["outcomes"].items())))
            return r
        return self._run_shard(shard)

    def _run_shard(self, shard):
        if shard[0] == "sig":
            return self.run_sig(shard[1])
        if shard[0] == "def":
            return self.run_def(shard[1], shard[2], shard[3])
        import c13_raw
        return c13_raw.run_raw(self, shard[1], shard[2], shard[3], shard[4])

    # ---- signatures
    def run_sig(self, tier):
        st = Stats()
        root = build.repo_root()
        lib = klib()
        hdr = {}
        try:
            text = open(os.path.join(root, "include", "awkward", "kernels.h")).read()
        except OSError:
            text = ""
        for m in re.finditer(r"EXPORT_SYMBOL ERROR\s+(\w+)\(([^;]*?)\);", text, re.S):
            args = []
            for part in m.group(2).split(","):
                part = " ".join(part.split())
                tname, _, an = part.rpartition(" ")
                args.append((an, tname.replace(" ", "")))
            hdr[m.group(1)] = args
        pys = {}
        try:
            ptext = open(os.path.join(root, "src", "awkward", "_kernel_signatures.py")).read()
        except OSError:
            ptext = ""
        for m in re.finditer(r"f = lib\.(\w+)\n\s+f\.argtypes = \[(.*?)\]\n", ptext):
            pys[m.group(1)] = [x.strip() for x in m.group(2).split(",") if x.strip()]

        def ctype(a):
            t = a["base"] + "*" * a["depth"]
            if a["const"]:
                t = "const" + t
            return t

        def pytype(a):
            c = {"bool": "c_bool", "float": "c_float", "double": "c_double"}.get(a["base"], "c_" + a["base"][:-2])
            for _ in range(a["depth"]):
                c = "POINTER(%s)" % c
            return c
        for k in self.kernels():
            for s in k["specializations"]:
                st.evaluations += 1
                st.nontrivial += 1
                name = s["name"]
                if not lib.has(name):
                    st.violation("signature", "specialisation %s of the YAML is not exported by libawkward-cpu-kernels.so" % name,
                                 {"spec": name, "what": "symbol"}, kernel=k["name"], spec=name, failure="symbol")
                    continue
                if text:
                    want = [(a["name"], ctype(a)) for a in s["args"]]
                    if hdr.get(name) != want:
                        st.violation("signature", "kernels.h declares %s%r, YAML says %r" % (name, hdr.get(name), want),
                                     {"spec": name, "what": "kernels.h"}, kernel=k["name"], spec=name, failure="header")
                        continue
                if ptext and name in pys:
                    want = [pytype(a) for a in s["args"]]
                    # _kernel_signatures.py drops constness; nothing else may differ
                    if pys[name] != want:
                        st.violation("signature", "_kernel_signatures.py gives %s%r, YAML says %r" % (name, pys[name], want),
                                     {"spec": name, "what": "_kernel_signatures.py"}, kernel=k["name"], spec=name,
                                     failure="pysignature")
                        continue
                st.outcome("signature-consistent")
        st.sample({"signatures_compared": st.evaluations, "kernels.h": bool(text), "_kernel_signatures.py": bool(ptext)})
        return st.pack()

    # ---- definition-driven exploration of one specialisation
    def run_def(self, tier, ki, si, dry_until=None):
        T = TIERS[tier]
        k = self.kernels()[ki]
        spec = k["specializations"][si]
        st = Stats()
        fn = e2.compile_definition(k["name"], k["definition"])
        params = fn.__code__.co_varnames[:fn.__code__.co_argcount]
        if list(params) != [a["name"] for a in spec["args"]]:
            st.count("definition_signature_differs:" + k["name"])
            st.outcome("skipped:definition-signature-differs")
            st.count("specialisations_not_checked_semantically")
            st.evaluations += 1
            st.violation("kernel-mismatch", "definition-not-executable: the definition of %s takes %r, the kernel takes %r"
                         % (k["name"], list(params), [a["name"] for a in spec["args"]]),
                         {"spec": spec["name"], "what": "definition"}, kernel=k["name"], spec=spec["name"],
                         failure="definition-not-executable")
            return st.pack()
        opts = k.get("options") or {}
        scal, sdoms, roots, shrink, rootcapped = roots_for(spec, tier, T, opts)
        doms = Domains(spec, tier, k["relax"], inout_outputs(k["definition"], spec), opts)
        lib = klib()
        cfn = lib.fn(spec)
        fills = T["fills"]
        counter = [0]
        found = {}
        cls = k["class"]
        quar = self.quarantine()["spec"].get(spec["name"])
        broken = [0, None]
        nontrivial_before = [0]

        def body(ctx):
            scalars = {}
            for a, d in zip(scal, sdoms):
                scalars[a["name"]] = d[ctx.choose(len(d))]
            args, rs = build_args(spec, scalars, ctx, doms, T)
            run = e2.run_definition(fn, args)
            st.states += 1
            if run.status == "ok" and rs.aux.get("#relaxed"):
                run.status, run.reason = "skip", "rule-relaxed-but-not-tested-by-definition"
            if run.status == "skip":
                st.outcome("skipped:" + run.reason)
                return False
            if run.status == "broken":
                broken[0] += 1
                broken[1] = run.reason
                st.outcome("definition-not-executable")
                return True
            errored = run.status == "error"
            wrote = False
            for o in rs.aux.values():
                if isinstance(o, (e2.Out, e2.LazyIn)):
                    wrote = wrote or bool(o.written)
                elif isinstance(o, e2.OutOuter):
                    wrote = wrote or any(r.written for r in o.rows.values())
            if errored or wrote:
                st.nontrivial += 1
            label = "error" if errored else ("ok" if wrote else "ok-nothing-written")
            for fill in fills:
                # every fill pattern is executed even after a mismatch, so that case numbers (crash attribution)
                # do not depend on what was observed
                counter[0] += 1
                if dry_until is not None:
                    if counter[0] == dry_until:
                        found["case"] = case_dict(spec, scalars, rs, fill, errored)
                        raise StopIteration
                    continue
                call = Call(spec, scalars, rs, fill, errored)
                if quar and self._quarantined(quar, rs):
                    import c13_raw
                    sig = c13_raw.in_child(cfn, call.cargs)
                    if sig is not None:
                        st.evaluations += 1
                        case = case_dict(spec, scalars, rs, fill, errored)
                        st.violation("kernel-mismatch", "crash: compiled kernel dies with signal %d; definition %s\n  %s"
                                     % (sig, "raises ValueError(%r)" % run.message if errored else "succeeds",
                                        describe(case)), case, kernel=k["name"], spec=spec["name"], failure="crash")
                        label = "MISMATCH"
                        continue
                pool.mark(counter[0])
                err = cfn(*call.cargs)
                st.evaluations += 1
                st.transitions += 1
                bad = compare(spec, run, rs, call, err, fill, opts.get("check"), scalars)
                if bad:
                    case = case_dict(spec, scalars, rs, fill, errored)
                    extra = {}
                    if opts.get("facet"):
                        # which documented peculiarities of the kernel the input exercises: part of the signature,
                        # so that a known finding is matched only on inputs of its own kind
                        extra["facet"] = opts["facet"](scalars, {n: o.vals for n, o in rs.aux.items()
                                                                 if isinstance(o, e2.LazyIn)})
                    for failure, text in bad:
                        st.violation("kernel-mismatch", "%s: %s\n  %s" % (failure, text, describe(case)), case,
                                     kernel=k["name"], spec=spec["name"], failure=failure, **extra)
                    label = "MISMATCH"
            st.outcome(label)
            if label != "MISMATCH" and len(st.samples) < 1 and wrote and st.states % 7 == 3:
                st.sample({"case": describe(case_dict(spec, scalars, rs, fills[0], errored)), "agrees": True})
            return True

        case_cap = int(T["case_cap"] * opts.get("budget", 1.0))
        try:
            if opts.get("per_root"):
                runs, counted, rdone, exhausted = e2.explore_by_root(roots, len(scal), body, case_cap)
                levels = None
            else:
                runs, counted, levels, exhausted = e2.explore(roots, len(scal), body, case_cap)
        except StopIteration:
            return found.get("case")
        pool.unmark()
        if dry_until is not None:
            return None
        st.count("class_%s_specialisations_explored" % cls)
        if getattr(fn, "repaired", None):
            st.count("definition_repaired_in_harness(by-reference helper %s):%s" % (",".join(fn.repaired), k["name"]))
        if broken[0]:
            st.count("definition_not_executable_cases:" + k["name"], broken[0])
            st.violation("kernel-mismatch", "definition-not-executable: the definition of %s fails on %d of %d candidates "
                         "with %s" % (k["name"], broken[0], runs, broken[1]), {"spec": spec["name"], "what": "definition"},
                         kernel=k["name"], spec=spec["name"], failure="definition-not-executable")
        if st.nontrivial == 0:
            st.count("specialisations_without_nontrivial_case")
            st.count("no_nontrivial_case:%s (%s)" % (spec["name"], broken[1] or "all candidates outside contract"))
        if exhausted and not rootcapped and not shrink:
            st.count("specialisations_exhausted_within_bounds")
        else:
            why = []
            if not exhausted and levels is None:
                why.append("case cap %d (%d candidates run, %d inside the contract): %d of %d scalar tuples (smallest "
                           "first) exhausted, the others cut at their budget share"
                           % (case_cap, runs, counted, rdone, len(roots)))
            elif not exhausted:
                why.append("case cap %d (%d candidates run, %d inside the contract): all candidates with < %d "
                           "non-default elements done" % (case_cap, runs, counted, levels))
            if rootcapped:
                why.append("scalar tuples %d of %d" % (T["root_cap"], rootcapped))
            if shrink:
                why.append("scalar bounds lowered by %d" % shrink)
            st.caps.append("%s: %s" % (spec["name"], "; ".join(why)))
            st.count("specialisations_capped")
        return st.pack()

    @staticmethod
    def _quarantined(quar, rs):
        for q in quar:
            if "arg" not in q:
                return True
            obj = rs.aux.get(q["arg"])
            if obj is not None and q.get("value") in getattr(obj, "vals", {}).values():
                return True
        return False

    def crash_case(self, c):
        sh = c.shard
        if sh[0] == "def":
            case = self.run_def(sh[1], sh[2], sh[3], dry_until=c.case_no)
            if case is not None:
                case["failure"] = "crash"
                return case
        if sh[0] == "raw":
            import c13_raw
            case = c13_raw.run_raw(self, sh[1], sh[2], sh[3], sh[4], dry_until=c.case_no)
            if case is not None:
                case["failure"] = "crash"
                return case
        return {"shard": list(sh), "case_no": c.case_no}

    # ---- replay
    def replay(self, case):
        if "raw" in case:
            import c13_raw
            return c13_raw.replay(self, case)
        name = case["spec"]
        for k in self.kernels():
            for s in k["specializations"]:
                if s["name"] == name:
                    return self._replay(k, s, case)
        return True, "unknown specialisation %s" % name

    def _replay(self, k, spec, case):
        if case.get("what") == "definition":
            ki = self.kernels().index(k)
            si = k["specializations"].index(spec)
            stt = Stats.merge([self.run_def("quick", ki, si)])
            bad = [v for v in stt.violations if v.get("failure") == "definition-not-executable"]
            return bool(bad), "\n".join(v["summary"] for v in bad) or "definition executes"
        if case.get("what"):
            stt = Stats.merge([self.run_sig("quick")])
            bad = [v for v in stt.violations if v["case"]["spec"] == spec["name"]]
            return bool(bad), "\n".join(v["summary"] for v in bad) or "signatures consistent"
        T = TIERS["thorough"]
        fn = e2.compile_definition(k["name"], k["definition"])
        scalars = {a["name"]: case["args"][a["name"]] for a in spec["args"] if a["depth"] == 0}
        opts = k.get("options") or {}
        doms = Domains(spec, "thorough", k["relax"], inout_outputs(k["definition"], spec), opts)
        preset = {n: v for n, v in case["args"].items() if isinstance(v, dict) and not v.get("out")}
        outs = {n: v for n, v in case["args"].items() if isinstance(v, dict) and v.get("out")}
        args, rs = build_args(spec, scalars, e2.Fixed(), doms, T, preset=preset)
        run = e2.run_definition(fn, args)
        lines = ["case: " + describe(case), "definition: %s%s" % (run.status, (" (%s)" % (run.reason or run.message))
                                                                    if run.status != "ok" else "")]
        if run.status in ("skip", "broken"):
            return False, "\n".join(lines + ["candidate is outside the contract; nothing to compare"])
        for a in spec["args"]:
            if a["depth"] == 1:
                o = rs.aux[a["name"]]
                if o.written:
                    lines.append("  expected %s = %s" % (a["name"], [o.written.get(i, "_") for i in range(extent(o.written))]))
        allpreset = dict(preset)
        allpreset.update(outs)
        call = Call(spec, scalars, rs, case["fill"], run.status == "error", preset=allpreset)
        import c13_raw
        sig = c13_raw.in_child(klib().fn(spec), call.cargs)
        if sig is not None:
            lines.append("compiled kernel: dies with signal %d" % sig)
            lines.append("MISMATCH crash")
            return True, "\n".join(lines)
        err = klib().fn(spec)(*call.cargs)
        lines.append("compiled kernel: %s" % ("fails: %r" % err.str if err.str is not None else "succeeds"))
        for a in spec["args"]:
            if a["depth"] == 1 and (a["dir"] == "out" or not a["const"]):
                lines.append("  observed %s = %s" % (a["name"], call.bufs[a["name"]].tolist()))
        bad = compare(spec, run, rs, call, err, case["fill"], opts.get("check"), scalars)
        for failure, text in bad:
            lines.append("MISMATCH %s: %s" % (failure, text))
        return bool(bad), "\n".join(lines)

    def extra_coverage(self, tier, merged):
        ks_ = self.kernels()
        cls = {"A": [0, 0], "B": [0, 0], "C": [0, 0], "H": [0, 0]}
        for k in ks_:
            cls[k["class"]][0] += 1
            cls[k["class"]][1] += len(k["specializations"])
        return {"kernel_classes": {c: {"kernels": v[0], "specialisations": v[1]} for c, v in cls.items()},
                "tier_bounds": {k: (list(v) if isinstance(v, tuple) else v) for k, v in TIERS[tier].items()},
                "caps_total": len(merged.caps)}


if __name__ == "__main__":
    sys.exit(runner.main(C13()))
