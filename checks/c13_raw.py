"""C13, kernels without a usable Python definition (class C, and class B whose definition cannot execute).

There is no specification to agree with, so only the decidable clauses of the property are checked on
bounded-exhaustively enumerated inputs that satisfy the preconditions read off the C source:
no crash / hang, guard zones of every array intact, const inputs unmodified, the result independent of the
filler/guard byte pattern (a kernel that reads outside its extents sees the pattern), and agreement of all
specialisations of the kernel on inputs representable in each.  No verif-written model of the result is used.

An abstract input maps argument names to: a scalar; ("in", [..]); ("inout", [..]); ("out", n);
("rows", [[..], ..]) for List[List[T]] inputs; ("outrows", [n, ..]) for List[List[T]] outputs.
"""
import itertools
import math
import os

from runner import Stats
import pool
import e2

NAN = float("nan")


# ----------------------------------------------------------------------------------------------------------
# small enumerators


def offsets_all(maxlists, maxlen, minlists=0):
    """Every offsets array starting at 0 with minlists..maxlists lists of 0..maxlen elements."""
    for n in range(minlists, maxlists + 1):
        for lens in itertools.product(range(maxlen + 1), repeat=n):
            off = [0]
            for x in lens:
                off.append(off[-1] + x)
            yield off


def nondecreasing(n, top):
    """parents arrays: nondecreasing sequences of length n over 0..top."""
    for c in itertools.combinations_with_replacement(range(top + 1), n):
        yield list(c)


def data_domain(tier):
    return [0, 1, 2, -1, 2.5, NAN] if tier == "quick" else [0, 1, 2, -1, 2.5, NAN, 255, float("inf")]


def datas(n, tier, dom=None):
    dom = dom or data_domain(tier)
    return itertools.product(dom, repeat=n)


# ----------------------------------------------------------------------------------------------------------
# generators, one per kernel: gen(tier) yields abstract inputs


def g_indexed_local_preparenext(tier):
    N = 3 if tier == "quick" else 4
    for pl in range(N + 1):
        for parents in nondecreasing(pl, 1):
            for nl in range(0, 3):
                for nextparents in nondecreasing(nl, 1):
                    yield {"tocarry": ("out", pl), "starts": ("in", [0, 1]), "parents": ("in", parents),
                           "parentslength": pl, "nextparents": ("in", nextparents), "nextlen": nl}


def _ncomb(size, n, replacement):
    if replacement:
        return math.comb(size + n - 1, n) if size + n - 1 >= n and size > 0 else (1 if n == 0 else 0)
    return math.comb(size, n) if size >= n else 0


def g_listarray_combinations(tier):
    M = 3 if tier == "quick" else 4
    for off in offsets_all(2 if tier == "quick" else 3, M):
        for n in (1, 2, 3):
            for repl in (False, True):
                for shift in (0, 1):
                    starts = [x + shift for x in off[:-1]]
                    stops = [x + shift for x in off[1:]]
                    total = sum(_ncomb(b - a, n, repl) for a, b in zip(starts, stops))
                    yield {"tocarry": ("outrows", [total] * n), "toindex": ("out", n), "fromindex": ("inout", [0] * n),
                           "n": n, "replacement": repl, "starts": ("in", starts), "stops": ("in", stops),
                           "length": len(starts)}


def g_regular_combinations(tier):
    for size in range(0, 4 if tier == "quick" else 5):
        for length in range(0, 3):
            for n in (1, 2, 3):
                for repl in (False, True):
                    total = length * _ncomb(size, n, repl)
                    yield {"tocarry": ("outrows", [total] * n), "toindex": ("out", n), "fromindex": ("inout", [0] * n),
                           "n": n, "replacement": repl, "size": size, "length": length}


def g_listoffset_local_preparenext(tier):
    for length in range(0, 4 if tier == "quick" else 6):
        for fi in itertools.product(range(3), repeat=length):
            yield {"tocarry": ("out", length), "fromindex": ("in", list(fi)), "length": length}


def g_reduce_nonlocal_preparenext(tier):
    for off in offsets_all(3, 2 if tier == "quick" else 3):
        for shift in (0, 1):
            offsets = [x + shift for x in off]
            length = len(offsets) - 1
            for parents in nondecreasing(length, 1):
                maxcount = max([b - a for a, b in zip(offsets[:-1], offsets[1:])] + [0])
                nextlen = offsets[-1] - offsets[0]
                nparents = (max(parents) + 1) if parents else 0
                dl = maxcount * nparents
                yield {"nextcarry": ("out", nextlen), "nextparents": ("out", nextlen), "nextlen": nextlen,
                       "maxnextparents": ("out", 1), "distincts": ("out", dl), "distinctslen": dl,
                       "offsetscopy": ("inout", offsets[:length]), "offsets": ("in", offsets), "length": length,
                       "parents": ("in", parents), "maxcount": maxcount}


BYTES = [0, 1, 255]


def g_copy(tier):
    for n in range(0, 4):
        for d in itertools.product(BYTES, repeat=n):
            yield {"toptr": ("out", n), "fromptr": ("in", list(d)), "len": n}


def g_contiguous_copy(tier):
    for stride in (1, 2):
        for n in range(0, 3):
            for pos in itertools.product(range(0, 4), repeat=n):
                ext = (max(pos) + stride) if pos else 0
                data = [(7 * i + 1) % 256 for i in range(ext)]
                yield {"toptr": ("out", n * stride), "fromptr": ("in", data), "len": n, "stride": stride,
                       "pos": ("in", list(pos))}


def g_contiguous_copy_from_many(tier):
    for stride in (1, 2):
        for lens in ([1], [2], [1, 1], [2, 1], [1, 2], [2, 2]):
            npos = max(lens)
            for pos in itertools.product(range(0, 3), repeat=npos):
                rows = []
                for r, ln in enumerate(lens):
                    ext = max(pos[:ln]) + stride
                    rows.append([(11 * i + 3 + 50 * r) % 256 for i in range(ext)])
                n = sum(lens)
                yield {"toptr": ("out", n * stride), "fromptrs": ("rows", rows), "fromlens": ("inout", list(lens)),
                       "len": n, "stride": stride, "pos": ("in", list(pos))}


def g_getitem_next_null(tier):
    for stride in (1, 2):
        for n in range(0, 3):
            for pos in itertools.product(range(0, 3), repeat=n):
                ext = ((max(pos) + 1) * stride) if pos else 0
                data = [(7 * i + 1) % 256 for i in range(ext)]
                yield {"toptr": ("out", n * stride), "fromptr": ("in", data), "len": n, "stride": stride,
                       "pos": ("in", list(pos))}


def g_fill_tocomplex(tier):
    dom = [0, 1, 2, -1, 2.5, 255, 65535] if tier == "quick" else [0, 1, 2, -1, 2.5, 255, 65535, -128, 16777216, NAN]
    for tooffset in (0, 1, 2):
        for n in range(0, 3 if tier == "quick" else 4):
            for d in itertools.product(dom, repeat=n):
                yield {"toptr": ("out", tooffset + 2 * n), "tooffset": tooffset, "fromptr": ("in", list(d)), "length": n}


STRINGS = [[], [97], [98], [97, 97], [97, 98], [98, 97]]


def g_argsort_strings(tier):
    N = 3 if tier == "quick" else 4
    for length in range(0, N + 1):
        for parents in nondecreasing(length, 1):
            for words in itertools.product(range(len(STRINGS)), repeat=length):
                data, starts, stops = [], [], []
                for w in words:
                    starts.append(len(data))
                    data.extend(STRINGS[w])
                    stops.append(len(data))
                for flags in itertools.product((False, True), repeat=3):
                    yield {"tocarry": ("out", length), "fromparents": ("in", parents), "length": length,
                           "stringdata": ("in", data), "stringstarts": ("in", starts), "stringstops": ("in", stops),
                           "is_stable": flags[0], "is_ascending": flags[1], "is_local": flags[2]}


def g_sort_asstrings(tier):
    N = 3 if tier == "quick" else 4
    for length in range(0, N + 1):
        for words in itertools.product(range(len(STRINGS)), repeat=length):
            data, offsets = [], [0]
            for w in words:
                data.extend(STRINGS[w])
                offsets.append(len(data))
            for asc in (False, True):
                for stable in (False, True):
                    yield {"toptr": ("out", len(data)), "fromptr": ("in", data), "offsets": ("in", offsets),
                           "offsetslength": len(offsets), "outoffsets": ("out", len(offsets)), "ascending": asc,
                           "stable": stable}


def g_unique_strings(tier):
    N = 3 if tier == "quick" else 4
    for length in range(0, N + 1):
        for words in itertools.product(range(len(STRINGS)), repeat=length):
            data, offsets = [], [0]
            for w in words:
                data.extend(STRINGS[w])
                offsets.append(len(data))
            yield {"toptr": ("inout", data), "offsets": ("in", offsets), "offsetslength": len(offsets),
                   "outoffsets": ("out", len(offsets)), "tolength": ("out", 1)}


def g_subrange_equal(tier):
    for off in offsets_all(3, 2):
        n = off[-1]
        length = len(off) - 1
        for d in datas(n, tier, [0, 1, 2.5] if tier == "quick" else [0, 1, 2.5, -1, NAN]):
            yield {"tmpptr": ("inout", list(d)), "fromstarts": ("in", off[:-1]), "fromstops": ("in", off[1:]),
                   "length": length, "toequal": ("out", 1)}


def _sort_inputs(tier):
    for off in offsets_all(2, 3 if tier == "quick" else 4):
        n = off[-1]
        for d in datas(n, tier, [0, 1, 2, -1, NAN] if tier == "quick" else None):
            yield off, list(d)


def g_argsort(tier):
    for off, d in _sort_inputs(tier):
        for asc in (False, True):
            for stable in (False, True):
                yield {"toptr": ("out", len(d)), "fromptr": ("in", d), "length": len(d), "offsets": ("in", off),
                       "offsetslength": len(off), "ascending": asc, "stable": stable}


def g_sort(tier):
    for off, d in _sort_inputs(tier):
        for asc in (False, True):
            for stable in (False, True):
                yield {"toptr": ("out", len(d)), "fromptr": ("in", d), "length": len(d), "offsets": ("in", off),
                       "offsetslength": len(off), "parentslength": len(d), "ascending": asc, "stable": stable}


ML = 48


def g_quick_argsort(tier):
    for off, d in _sort_inputs(tier):
        for asc in (False, True):
            yield {"toptr": ("out", len(d)), "fromptr": ("in", d), "length": len(d), "tmpbeg": ("inout", [0] * ML),
                   "tmpend": ("inout", [0] * ML), "offsets": ("in", off), "offsetslength": len(off), "ascending": asc,
                   "stable": False, "maxlevels": ML}


def g_quick_sort(tier):
    for off, d in _sort_inputs(tier):
        for asc in (False, True):
            yield {"tmpptr": ("inout", d), "tmpbeg": ("inout", [0] * ML), "tmpend": ("inout", [0] * ML),
                   "fromstarts": ("in", off[:-1]), "fromstops": ("in", off[1:]), "ascending": asc,
                   "length": len(off) - 1, "maxlevels": ML}


def g_unique(tier):
    for n in range(0, 4 if tier == "quick" else 5):
        for d in datas(n, tier, [0, 1, 2.5, -1] if tier == "quick" else [0, 1, 2.5, -1, 255]):
            yield {"toptr": ("inout", list(d)), "length": n, "tolength": ("out", 1)}


def g_sorting_ranges(tier):
    for n in range(0, 4 if tier == "quick" else 6):
        for parents in nondecreasing(n, 2):
            changes = sum(1 for i in range(1, n) if parents[i - 1] != parents[i])
            tolength = 2 + changes
            yield {"toindex": ("out", tolength), "tolength": tolength, "parents": ("in", parents), "parentslength": n}


def g_sorting_ranges_length(tier):
    for n in range(0, 4 if tier == "quick" else 6):
        for parents in nondecreasing(n, 2):
            yield {"tolength": ("out", 1), "parents": ("in", parents), "parentslength": n}


def _complex_reducer(outwidth, identity=False):
    def gen(tier):
        dom = [0, 1, -1.5] if tier == "quick" else [0, 1, -1.5, 2.5]
        for outlength in range(0, 3):
            for n in range(0, 3 if tier == "quick" else 4):
                if outlength == 0 and n > 0:
                    continue
                for parents in nondecreasing(n, outlength - 1):
                    for d in itertools.product(dom, repeat=2 * n):
                        inp = {"toptr": ("out", outwidth * outlength), "fromptr": ("in", list(d)),
                               "parents": ("in", parents), "lenparents": n, "outlength": outlength}
                        if identity:
                            for ident in (0.0, float("inf"), float("-inf")):
                                i2 = dict(inp)
                                i2["identity"] = ident
                                yield i2
                        else:
                            yield inp
    return gen


def g_next_range(carrylength_only):
    def gen(tier):
        pos = [0, 1, -1, 2, -2, 3, e2.kSliceNone] if tier != "quick" else [0, 1, -1, 2, e2.kSliceNone]
        steps = [1, -1, 2, -2] if tier != "quick" else [1, -1, 2]
        for off in offsets_all(2, 3):
            for shift in (0, 1):
                starts = [x + shift for x in off[:-1]]
                stops = [x + shift for x in off[1:]]
                total = off[-1]
                for start in pos:
                    for stop in pos:
                        for step in steps:
                            inp = {"fromstarts": ("in", starts), "fromstops": ("in", stops), "lenstarts": len(starts),
                                   "start": start, "stop": stop, "step": step}
                            if carrylength_only:
                                inp["carrylength"] = ("out", 1)
                            else:
                                inp["tooffsets"] = ("out", len(starts) + 1)
                                inp["tocarry"] = ("out", total)
                            yield inp
    return gen


def g_rearrange_shifted(tier):
    for off in offsets_all(2, 2 if tier == "quick" else 3):
        length = off[-1]
        nlists = len(off) - 1
        locs = []
        for i in range(nlists):
            locs.append(list(itertools.permutations(range(off[i + 1] - off[i]))))
        for choice in itertools.product(*locs):
            toptr = [x for part in choice for x in part]
            for parents in nondecreasing(length, 1):
                for shifts in itertools.product((0, 1), repeat=length):
                    yield {"toptr": ("inout", toptr), "fromshifts": ("in", list(shifts)), "length": length,
                           "fromoffsets": ("in", off), "offsetslength": len(off), "fromparents": ("in", parents),
                           "parentslength": length, "fromstarts": ("in", [0, 0]), "startslength": 2}


GENERATORS = {
    "awkward_IndexedArray_local_preparenext_64": g_indexed_local_preparenext,
    "awkward_ListArray_combinations": g_listarray_combinations,
    "awkward_RegularArray_combinations_64": g_regular_combinations,
    "awkward_ListOffsetArray_local_preparenext_64": g_listoffset_local_preparenext,
    "awkward_ListOffsetArray_reduce_nonlocal_preparenext_64": g_reduce_nonlocal_preparenext,
    "awkward_NumpyArray_copy": g_copy,
    "awkward_NumpyArray_contiguous_copy": g_contiguous_copy,
    "awkward_NumpyArray_contiguous_copy_from_many": g_contiguous_copy_from_many,
    "awkward_NumpyArray_getitem_next_null": g_getitem_next_null,
    "awkward_NumpyArray_fill_tocomplex": g_fill_tocomplex,
    "awkward_ListOffsetArray_argsort_strings": g_argsort_strings,
    "awkward_NumpyArray_sort_asstrings_uint8": g_sort_asstrings,
    "awkward_NumpyArray_unique_strings": g_unique_strings,
    "awkward_NumpyArray_subrange_equal": g_subrange_equal,
    "awkward_argsort": g_argsort,
    "awkward_sort": g_sort,
    "awkward_quick_argsort": g_quick_argsort,
    "awkward_quick_sort": g_quick_sort,
    "awkward_unique": g_unique,
    "awkward_sorting_ranges": g_sorting_ranges,
    "awkward_sorting_ranges_length": g_sorting_ranges_length,
    "awkward_reduce_argmax_complex": _complex_reducer(1),
    "awkward_reduce_argmin_complex": _complex_reducer(1),
    "awkward_reduce_countnonzero_complex": _complex_reducer(1),
    "awkward_reduce_max_complex": _complex_reducer(2, identity=True),
    "awkward_reduce_min_complex": _complex_reducer(2, identity=True),
    "awkward_reduce_prod_complex": _complex_reducer(2),
    "awkward_reduce_sum_complex": _complex_reducer(2),
    "awkward_reduce_prod_bool_complex": _complex_reducer(1),
    "awkward_reduce_sum_bool_complex": _complex_reducer(1),
    "awkward_ListArray_getitem_next_range": g_next_range(False),
    "awkward_ListArray_getitem_next_range_carrylength": g_next_range(True),
    "awkward_NumpyArray_rearrange_shifted": g_rearrange_shifted,
}


# ----------------------------------------------------------------------------------------------------------
# generic runner


def representable(base, v):
    if base == "bool":
        return v in (0, 1)
    if isinstance(v, float) and v != v:
        return base in ("float", "double")
    if base in e2.INT_RANGE:
        lo, hi = e2.INT_RANGE[base]
        return float(v).is_integer() and lo <= v <= hi
    if base == "float":
        if v in (float("inf"), float("-inf")):
            return True
        return abs(v) < 3.0e38 and e2.conv("float", float(v)) == float(v)
    return True


def spec_accepts(spec, inp):
    for a in spec["args"]:
        v = inp[a["name"]]
        if a["depth"] == 0:
            if isinstance(v, (list, tuple)):
                return False
            if not representable(a["base"], v):
                return False
            continue
        tag, payload = v
        if tag in ("in", "inout"):
            if not all(representable(a["base"], x) for x in payload):
                return False
        elif tag == "rows":
            if not all(representable(a["base"], x) for row in payload for x in row):
                return False
    return True


class RawCall(object):
    def __init__(self, spec, inp, fill):
        self.bufs = {}
        self.rows = {}
        self.const = {}
        cargs = []
        fill0 = fill
        for ai, a in enumerate(spec["args"]):
            v = inp[a["name"]]
            if a["depth"] == 0:
                if a["base"] in ("float", "double"):
                    v = float(v)
                cargs.append(v)
                continue
            tag, payload = v
            fill = e2.arg_fill(fill0, ai)
            name = a["name"]
            if tag in ("in", "inout"):
                b = e2.Buf(a["base"], len(payload), fill, dict(enumerate(payload)))
                b.snapshot()
                self.const[name] = (tag == "in")
                self.bufs[name] = b
            elif tag == "out":
                b = e2.Buf(a["base"], payload, fill)
                self.bufs[name] = b
            elif tag == "rows":
                rows = [e2.Buf(a["base"], len(r), e2.arg_fill(fill0, ai, ri), dict(enumerate(r)))
                        for ri, r in enumerate(payload)]
                for r in rows:
                    r.snapshot()
                self.rows[name] = rows
                self.const[name] = True
                b = e2.Buf("uint64_t", len(rows), fill, {i: r.ptr() for i, r in enumerate(rows)})
                b.snapshot()
                self.bufs[name] = b
            elif tag == "outrows":
                rows = [e2.Buf(a["base"], n, e2.arg_fill(fill0, ai, r)) for r, n in enumerate(payload)]
                self.rows[name] = rows
                b = e2.Buf("uint64_t", len(rows), fill, {i: r.ptr() for i, r in enumerate(rows)})
                b.snapshot()
                self.const[name] = True
                self.bufs[name] = b
            else:
                raise ValueError(tag)
            cargs.append(b.ptr())
        self.cargs = cargs

    def check(self, spec):
        bad = []
        for a in spec["args"]:
            if a["depth"] == 0:
                continue
            name = a["name"]
            b = self.bufs[name]
            allb = [(name, b, self.const.get(name, False))]
            for r, rb in enumerate(self.rows.get(name, [])):
                allb.append(("%s[%d]" % (name, r), rb, rb.before is not None))
            for bn, bb, const in allb:
                if not bb.guards_ok():
                    bad.append(("guard", "compiled kernel wrote outside %s[0:%d]" % (bn, bb.n)))
                elif const and bb.before is not None and not bb.unchanged():
                    bad.append(("guard", "compiled kernel modified its input %s" % bn))
        return bad

    def observe(self, spec, inp):
        """-> {name: list} of everything the kernel may write (outputs, in/out arrays)."""
        obs = {}
        for a in spec["args"]:
            if a["depth"] == 0:
                continue
            tag = inp[a["name"]][0]
            if tag in ("out", "inout"):
                b = self.bufs[a["name"]]
                obs[a["name"]] = Observed(b.tolist(), b.fill)
            elif tag == "outrows":
                for r, rb in enumerate(self.rows[a["name"]]):
                    obs["%s[%d]" % (a["name"], r)] = Observed(rb.tolist(), rb.fill)
        return obs


class Observed(list):
    """Content of a written buffer plus the byte pattern it was pre-filled with."""

    def __init__(self, vals, fill):
        list.__init__(self, vals)
        self.fill = fill


def _eq(a, b):
    if a == b:
        return True
    try:
        return a != a and b != b
    except TypeError:
        return False


def merge_fills(spec, inp, runs):
    """runs: list of (fill, status, obs).  -> (problem or None, canonical observation with None = never written)"""
    f0, s0, o0 = runs[0]
    canon = {}
    for name, vals0 in o0.items():
        base = name.split("[")[0]
        a = [x for x in spec["args"] if x["name"] == base][0]
        tag = inp[base][0]
        out = []
        for i in range(len(vals0)):
            vs = [(o[name].fill, o[name][i]) for f, s, o in runs]
            if tag == "inout":
                # initial content is data, not filler
                v = vs[0][1]
                if any(not _eq(v, w) for _, w in vs[1:]):
                    return "%s[%d] depends on the filler pattern: %r" % (name, i, vs), None
                out.append(v)
                continue
            unwritten = all(_eq(w, e2.fill_value(a["base"], f)) for f, w in vs)
            if unwritten and len(vs) > 1:
                out.append(None)
                continue
            v = vs[0][1]
            if any(not _eq(v, w) for _, w in vs[1:]):
                return "%s[%d] depends on the filler/guard pattern: %r" % (name, i, vs), None
            out.append(v)
        canon[name] = out
    if any(s != s0 for _, s, _ in runs[1:]):
        return "error status depends on the filler/guard pattern: %r" % [(f, s) for f, s, _ in runs], None
    return None, canon


def run_one(lib, k, inp, fills, st, quarantine, counter, specs=None):
    """Run one abstract input through every accepting specialisation.  -> list of (failure, text, specname)"""
    bad = []
    results = []
    for spec in k["specializations"]:
        if specs is not None and spec["name"] not in specs:
            continue
        if not spec_accepts(spec, inp):
            continue
        fn = lib.fn(spec)
        runs = []
        crashed = False
        for fill in fills:
            call = RawCall(spec, inp, fill)
            counter[0] += 1
            if quarantine:
                sig = in_child(fn, call.cargs)
                if sig is not None:
                    bad.append(("crash", "compiled kernel dies with signal %d (filler pattern 0x%02X)" % (sig, fill),
                                spec["name"]))
                    crashed = True
                    st.evaluations += 1
                    continue
            pool.mark(counter[0])
            err = fn(*call.cargs)
            st.evaluations += 1
            st.transitions += 1
            for failure, text in call.check(spec):
                bad.append((failure, text + " (filler pattern 0x%02X)" % fill, spec["name"]))
            runs.append((fill, err.str, call.observe(spec, inp)))
        if crashed or not runs:
            continue
        problem, canon = merge_fills(spec, inp, runs)
        if problem:
            bad.append(("filler-dependent", problem, spec["name"]))
            continue
        results.append((spec["name"], runs[0][1], canon))
    # cross-specialisation agreement
    if len(results) > 1:
        n0, s0, c0 = results[0]
        for n1, s1, c1 in results[1:]:
            if (s0 is None) != (s1 is None):
                bad.append(("cross-spec", "%s %s but %s %s" % (n0, "fails" if s0 else "succeeds", n1,
                                                               "fails" if s1 else "succeeds"), n1))
                continue
            for name in c0:
                a, b = c0[name], c1.get(name)
                if b is None or len(a) != len(b) or any(
                        ((x is None) != (y is None)) or (x is not None and not _eq(x, y)) for x, y in zip(a, b)):
                    bad.append(("cross-spec", "%s: %s gives %r, %s gives %r" % (name, n0, a, n1, b), n1))
                    break
    return bad, results


def in_child(fn, cargs):
    """Call the kernel in a forked child; -> terminating signal or None."""
    pid = os.fork()
    if pid == 0:
        try:
            import signal
            import resource
            resource.setrlimit(resource.RLIMIT_CORE, (0, 0))
            signal.setitimer(signal.ITIMER_REAL, 20.0)
            fn(*cargs)
        finally:
            os._exit(0)
    _, status = os.waitpid(pid, 0)
    if os.WIFSIGNALED(status):
        return os.WTERMSIG(status)
    return None


def jsonable(inp):
    out = {}
    for k, v in inp.items():
        if isinstance(v, tuple):
            out[k] = {v[0]: v[1]}
        else:
            out[k] = v
    return out


def from_json(d):
    out = {}
    for k, v in d.items():
        if isinstance(v, dict):
            (tag, payload), = v.items()
            out[k] = (tag, payload)
        else:
            out[k] = v
    return out


def describe(kname, inp):
    parts = []
    for k, v in inp.items():
        if isinstance(v, tuple):
            parts.append("%s=%s%r" % (k, "" if v[0] == "in" else v[0] + ":", v[1]))
        else:
            parts.append("%s=%r" % (k, v))
    return "%s(%s)" % (kname, ", ".join(parts))


def run_raw(check, tier, ki, part=0, nparts=1, dry_until=None):
    import c13_kernels as main
    T = main.TIERS[tier]
    k = check.kernels()[ki]
    st = Stats()
    gen = GENERATORS.get(k["name"])
    if gen is None:
        st.outcome("skipped:no-input-generator")
        st.count("raw_kernels_without_generator:" + k["name"])
        return st.pack()
    lib = main.klib()
    quarantine = k["name"] in check.quarantined_kernels()
    counter = [0]
    n = 0
    capped = False
    for inp in gen(tier):
        if n >= T["raw_cap"]:
            capped = True
            break
        n += 1
        if n % nparts != part:
            continue
        st.states += 1
        if dry_until is not None:
            # reproduce the numbering of run_one without calling anything
            for spec in k["specializations"]:
                if spec_accepts(spec, inp):
                    for fill in T["fills"]:
                        counter[0] += 1
                        if counter[0] == dry_until:
                            return {"raw": k["name"], "input": jsonable(inp), "spec": spec["name"], "fill": fill}
            continue
        bad, results = run_one(lib, k, inp, T["fills"], st, quarantine, counter)
        wrote = any(any(x is not None for x in vals) for _, _, canon in results[:1] for vals in canon.values())
        failed = any(s is not None for _, s, _ in results)
        if wrote or failed:
            st.nontrivial += 1
        if bad:
            case = {"raw": k["name"], "input": jsonable(inp)}
            for failure, text, sname in bad:
                c2 = dict(case)
                c2["spec"] = sname
                st.violation("kernel-mismatch", "%s: %s\n  %s" % (failure, text, describe(sname, inp)), c2,
                             kernel=k["name"], spec=sname, failure=failure)
            st.outcome("MISMATCH")
        else:
            st.outcome("raw-error" if failed else ("raw-ok" if wrote else "raw-ok-nothing-written"))
            if wrote and len(st.samples) < 1 and n % 5 == 3:
                st.sample({"case": describe(k["name"], inp), "specialisations_agreeing": len(results)})
    pool.unmark()
    if dry_until is not None:
        return None
    if part == 0:
        st.count("class_%s_kernels_checked_without_definition" % k["class"])
        st.count("raw_specialisations_checked", len(k["specializations"]))
    if capped and part == 0:
        st.caps.append("%s: input cap %d of the role-aware enumeration reached" % (k["name"], T["raw_cap"]))
        st.count("raw_kernels_capped")
    return st.pack()


def replay(check, case):
    import c13_kernels as main
    kname = case["raw"]
    k = [x for x in check.kernels() if x["name"] == kname][0]
    inp = from_json(case["input"])
    st = Stats()
    quarantine = True
    bad, results = run_one(main.klib(), k, inp, main.TIERS["thorough"]["fills"], st, quarantine, [0])
    lines = ["case: " + describe(kname, inp)]
    for name, status, canon in results:
        lines.append("  %s: %s %r" % (name, "fails %r" % status if status else "succeeds", canon))
    for failure, text, sname in bad:
        lines.append("MISMATCH %s (%s): %s" % (failure, sname, text))
    return bool(bad), "\n".join(lines)
