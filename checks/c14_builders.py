#!/usr/bin/env python3
"""C14 -- builders reproduce exactly the appended values; snapshots are immutable (explicit-state exploration of
ArrayBuilder command histories against a reference builder)."""
import os
import sys

sys.path.insert(0, os.path.join(os.path.dirname(os.path.dirname(os.path.abspath(__file__))), "mc"))
import runner  # noqa: E402
from runner import Stats  # noqa: E402
import pool  # noqa: E402
import numpy as np  # noqa: E402
import layouts  # noqa: E402
import layoutsem  # noqa: E402
import ext  # noqa: E402
import formtypes  # noqa: E402
import builder as mbuilder  # noqa: E402
import refbuilder  # noqa: E402

ERRS = (ValueError, RuntimeError, IndexError, TypeError, MemoryError)

ALPHABET = [
    ("null",), ("boolean", True), ("integer", 1), ("real", 2.5), ("string", "a"), ("bytestring", b"b"),
    ("beginlist",), ("endlist",), ("begintuple", 2), ("index", 0), ("index", 1), ("endtuple",),
    ("beginrecord",), ("beginrecord", "n"), ("field", "x"), ("field", "y"), ("endrecord",), ("clear",),
]
EXTRA = [("complex", 1 + 2j), ("datetime", "2020-01-01"), ("index", 2), ("begintuple", 0), ("beginrecord", "m"),
         ("append", 0), ("append", -1), ("append", 5), ("extend",), ("integer", -(2 ** 63)), ("real", float("nan")),
         ("string", "é\x00z"), ("begintuple", 1)]


def generations(hist):
    """Values appended after the k-th clear() are shifted by 10*k, so that a buffer that clear() failed to detach from
    earlier snapshots is seen to change (the alphabet itself repeats the same constants)."""
    out = []
    g = 0
    for c in hist:
        if c[0] == "clear":
            g += 1
        elif g and c[0] in ("integer", "real") and isinstance(c[1], (int, float)) and abs(c[1]) < 1000:
            c = (c[0], c[1] + 10 * g)
        elif g and c[0] == "boolean":
            c = (c[0], bool((int(c[1]) + g) % 2))
        elif g and c[0] == "string" and c[1] == "a":
            c = (c[0], "a" + "c" * g)
        out.append(c)
    return out


SRC = [[7, 8], [], [9]]          # the array that append/extend refer to
GROWTH = [(1, 1.0001), (2, 1.5), (3, 2.0), (1024, 1.5)]


def src_layout():
    return ext.ListOffsetArray64(ext.Index64(np.array([0, 2, 2, 3], np.int64)), ext.NumpyArray(np.array([7, 8, 9], np.int64)))


def model_cmd(cmd):
    """command as the reference model sees it"""
    if cmd[0] == "append":
        at = cmd[1]
        n = len(SRC)
        if not -n <= at < n:
            raise refbuilder.BuilderError("append index out of range")
        return ("append", SRC[at])
    if cmd[0] == "extend":
        return ("extend", SRC)
    if cmd[0] == "datetime":
        return ("datetime", np.datetime64(cmd[1]))
    return cmd


def impl_apply(b, cmd, src):
    name = cmd[0]
    if name == "append":
        b.append(src, cmd[1])
    elif name == "extend":
        b.extend(src)
    elif name in ("null", "beginlist", "endlist", "endtuple", "endrecord", "clear"):
        getattr(b, name)()
    elif name == "beginrecord":
        b.beginrecord(cmd[1] if len(cmd) > 1 else None)
    else:
        getattr(b, name)(cmd[1])


def observe(b):
    snap = b.snapshot()
    return layoutsem.to_list(ext.describe(snap)), snap


class C14(runner.Check):
    id = "C14"
    level = "model_checking"
    rule = ("explicit-state search over ArrayBuilder command histories: alphabet {null, boolean, integer, real, string, "
            "bytestring, beginlist, endlist, begintuple(2), index(0|1), endtuple, beginrecord(unnamed|'n'), field(x|y), endrecord} "
            "(thorough adds complex, datetime, index out of range, begintuple(0|1), a second record name, append(at in/out of "
            "range) and extend from an existing array, clear, extreme integer, NaN, non-ASCII/NUL strings), well- and ill-nested, "
            "to depth 5 (quick) / 6 (thorough); a state is the reference builder's state (partial value tree + open-container "
            "stack), histories reaching an already seen state are not extended; every transition is replayed on a fresh real "
            "ArrayBuilder for each growth setting (initial, resize) in {(1,1.0001),(2,1.5),(3,2),(1024,1.5)}; invariants after "
            "every command: length and to_list(snapshot) equal the reference (with record unification), the type string is a "
            "function of the model state, every snapshot taken earlier on the path still has its old value, and an ill-nested "
            "command raises exactly where the model says. non-trivial = history whose snapshot holds at least one element, or a "
            "required error.")
    assumptions = ["bridge+mirror marshalling; the Python port of builder_fromiter is not exercised here (L3 checks use it)",
                   "reference unification in model/refbuilder.py"]

    def alphabet(self, tier):
        return ALPHABET if tier == "quick" else ALPHABET + EXTRA

    def depth(self, tier):
        return 5 if tier == "quick" else 6

    def shards(self, tier):
        alpha = self.alphabet(tier)
        return [(tier, i, j) for i in range(len(alpha)) for j in range(len(alpha))] + [(tier, "l3", k) for k in range(4)]

    def run_shard(self, shard):
        tier, i, j = shard
        if i == "l3":
            st = Stats()
            self._no = 0
            self._l3(st, tier, j)
            pool.unmark()
            return st.pack()
        alpha = self.alphabet(tier)
        depth = self.depth(tier)
        st = Stats()
        src = src_layout()
        self._no = 0
        self._types = {}
        prefix = [alpha[i], alpha[j]]
        # the two-command prefix itself (checked by the shard with j == 0 for the one-command history)
        seen = set()
        frontier = []
        ok = self._extend(st, [], prefix[0], src, seen, frontier if False else [], check=(j == 0))
        if ok is None:
            pool.unmark()
            return st.pack()
        ok2 = self._extend(st, [prefix[0]], prefix[1], src, seen, frontier, check=True)
        cap = 3000 if tier == "quick" else 5000
        while frontier:
            hist = frontier.pop(0)
            if len(hist) >= depth:
                continue
            if st.states > cap:
                st.caps.append("shard %r: state cap %d reached at depth %d" % ((i, j), cap, len(hist)))
                break
            for cmd in alpha:
                self._extend(st, hist, cmd, src, seen, frontier, check=True)
        pool.unmark()
        return st.pack()

    def _model(self, hist):
        m = refbuilder.RefBuilder()
        for c in generations(hist):
            m.apply(model_cmd(c))
        return m

    def _extend(self, st, hist, cmd, src, seen, frontier, check):
        """Apply cmd after hist on model and implementation; returns model or None (error)."""
        try:
            m = self._model(hist)
        except refbuilder.BuilderError:
            return None
        expect_error = False
        if cmd[0] == "clear" and m.stack:
            return None    # 'clear' with open containers: whether they stay open is not fixed by the statement
        new = hist + [cmd]
        newg = generations(new)
        try:
            m.apply(model_cmd(newg[-1]))
        except refbuilder.BuilderError as err:
            expect_error = str(err)
        if not check:
            return None if expect_error else m
        st.transitions += 1
        st.evaluations += 1
        for gi, (initial, resize) in enumerate(GROWTH):
            self._no += 1
            pool.mark(self._no)
            b = mbuilder.ArrayBuilder(initial, resize)
            snaps = []
            failed_at = None
            ref = refbuilder.RefBuilder()
            try:
                for k, c in enumerate(newg):
                    last = (k == len(new) - 1)
                    try:
                        impl_apply(b, c, src)
                    except ERRS as err:
                        failed_at = (k, err)
                        break
                    try:
                        ref.apply(model_cmd(c))
                    except refbuilder.BuilderError as err:
                        if last and expect_error:
                            break
                        self._v(st, "missing-error", new[:k + 1], (initial, resize), "model: %s; implementation accepted the command" % err)
                        failed_at = "reported"
                        break
                    if last or k % 2 == 1:
                        val, snap = observe(b)
                        snaps.append((k, val, snap))
            except layoutsem.Invalid as err:
                self._v(st, "invalid-snapshot", new, (initial, resize), str(err))
                continue
            if failed_at == "reported":
                continue
            if expect_error:
                if failed_at is None or failed_at[0] != len(new) - 1:
                    self._v(st, "missing-error", new, (initial, resize), "model: %s; implementation %s" % (
                        expect_error, "raised earlier: %r" % (failed_at,) if failed_at else "accepted the command"))
                else:
                    st.outcome("error-as-required")
                    st.nontrivial += 1 if gi == 0 else 0
                continue
            if failed_at is not None:
                self._v(st, "unexpected-error", new, (initial, resize), "command %d (%r) raised %s: %s" % (
                    failed_at[0], new[failed_at[0]], type(failed_at[1]).__name__, str(failed_at[1])[:150]))
                continue
            want = m.snapshot()
            try:
                got, snap = observe(b)
            except layoutsem.Invalid as err:
                self._v(st, "invalid-snapshot", new, (initial, resize), str(err))
                continue
            open_record = any(isinstance(f, refbuilder._Rec) for f in m.stack)
            if len(b) != m.length() or not (layoutsem.same(got, want) or (open_record and _same_mod_pending_fields(got, want))):
                self._v(st, "value", new, (initial, resize), "expected %r (length %d), got %r (length %d)" % (want, m.length(), got, len(b)))
                continue
            # earlier snapshots are immutable
            for k, val, snap0 in snaps:
                now = layoutsem.to_list(ext.describe(snap0))
                if not layoutsem.same(now, val):
                    self._v(st, "snapshot-changed", new, (initial, resize), "snapshot after command %d was %r, now reads %r" % (k, val, now))
            # the type is a function of the model state
            tstr = snap._typestr()
            key = m.key()
            if any(c[0] == "clear" for c in new):
                key = None      # clear() keeps the type knowledge accumulated before it (documented)
            old = self._types.setdefault(key, (tstr, list(new))) if key is not None else (tstr, None)
            if old[0] != tstr:
                self._v(st, "type-not-a-function-of-state", new, (initial, resize), "type %s here, %s after %r" % (tstr, old[0], old[1]))
            st.outcome("ok")
            if gi == 0 and want:
                st.nontrivial += 1
        if expect_error:
            return None
        key = m.key()
        if key not in seen:
            seen.add(key)
            st.states += 1
            frontier.append(new)
            if st.states % 97 == 1:
                st.sample({"history": [list(map(_js, c)) for c in new], "snapshot": repr(m.snapshot())[:200]})
        return m

    def _v(self, st, failure, hist, growth, text):
        st.violation(failure, "history %r growth %r: %s" % (hist, growth, text[:500]),
                     {"history": [list(map(_js, c)) for c in hist], "growth": list(growth)},
                     failure=failure, last=hist[-1][0], depth=len(hist))

    # ---- tier L3: ak.from_iter and the high-level ak.ArrayBuilder
    def _l3(self, st, tier, k):
        import itertools
        import install
        ak = install.install()
        import warnings
        warnings.filterwarnings("ignore")
        atoms = [None, True, 0, -3, 2 ** 63 - 1, 1.5, float("nan"), "", "é\x00z", b"by", [], [1], [1.5, None], (1, "a"), (2.5, [1]),
                 {"x": 1}, {"x": 2.5, "y": [1]}, {"y": None}, {}, [[], [1]], [{"x": 1}], np.int32(5), np.float32(0.5), np.bool_(True)]
        n = 0
        for size in (0, 1, 2, 3):
            for combo in itertools.product(range(len(atoms)), repeat=size):
                n += 1
                if n % 4 != k:
                    continue
                if size == 3 and tier == "quick" and (combo[0] * 7 + combo[1] * 3 + combo[2]) % 5 != 0:
                    continue      # quick: every triple whose index combination is 0 mod 5 (all pairs and singles are complete)
                data = [atoms[c] for c in combo]
                self._no += 1
                pool.mark(self._no)
                st.states += 1
                st.transitions += 1
                st.evaluations += 1
                m = refbuilder.RefBuilder()
                try:
                    for v in data:
                        for c in iter_commands(v):
                            m.apply(c)
                    want = m.snapshot()
                except refbuilder.BuilderError:
                    continue
                case = {"mode": "l3", "data": repr(data)}
                try:
                    arr = ak.from_iter(data)
                    got = _plain(ak.to_list(arr))
                    # the same through the high-level builder
                    b = ak.ArrayBuilder()
                    for v in data:
                        hl_append(b, v)
                    got2 = _plain(ak.to_list(b.snapshot()))
                    t1, t2 = str(ak.type(arr)), str(ak.type(b.snapshot()))
                except ERRS + (AttributeError, KeyError) as err:
                    st.violation("l3-raised", "ak.from_iter(%r): %s: %s" % (data, type(err).__name__, str(err)[:200]), case,
                                 failure="l3-raised", l3=True)
                    continue
                if not layoutsem.same(got, want):
                    st.violation("l3-value", "ak.from_iter(%r) reads %r, appended values are %r" % (data, got, want), case,
                                 failure="l3-value", l3=True)
                elif not layoutsem.same(got2, want) or t1 != t2:
                    st.violation("l3-builder", "ak.ArrayBuilder fed %r reads %r (%s), from_iter %r (%s)" % (data, got2, t2, got, t1), case,
                                 failure="l3-builder", l3=True)
                else:
                    st.outcome("l3:from_iter-ok")
                    if data:
                        st.nontrivial += 1

    def replay(self, case):
        if case.get("mode") == "l3":
            return True, "ak.from_iter(%s): re-run the l3 shards (./check C14) to reproduce; the case is the literal input" % case["data"]
        hist = [tuple(_unjs(x) for x in c) for c in case["history"]]
        initial, resize = case["growth"]
        b = mbuilder.ArrayBuilder(initial, resize)
        src = src_layout()
        m = refbuilder.RefBuilder()
        text = []
        snaps = []
        for k, c in enumerate(generations(hist)):
            line = "%r: " % (c,)
            try:
                m.apply(model_cmd(c))
                line += "model ok, "
            except refbuilder.BuilderError as err:
                line += "model error (%s), " % err
            try:
                impl_apply(b, c, src)
                val, snap = observe(b)
                snaps.append((k, val, snap))
                line += "implementation ok, snapshot %r" % (val,)
            except ERRS as err:
                line += "implementation raised %s" % (str(err)[:100],)
            text.append(line)
        try:
            text.append("model snapshot: %r" % (m.snapshot(),))
        except Exception:
            pass
        for k, val, snap in snaps:
            now = layoutsem.to_list(ext.describe(snap))
            if not layoutsem.same(now, val):
                text.append("snapshot taken after command %d was %r and now reads %r" % (k, val, now))
        return True, "\n".join(text)


def iter_commands(v):
    """commands that from_iter issues for one Python value (port of builder_fromiter, src/python/content.cpp)"""
    if v is None:
        yield ("null",)
    elif isinstance(v, (bool, np.bool_)):
        yield ("boolean", bool(v))
    elif isinstance(v, (int, np.integer)):
        yield ("integer", int(v))
    elif isinstance(v, (float, np.floating)):
        yield ("real", float(v))
    elif isinstance(v, bytes):
        yield ("bytestring", v)
    elif isinstance(v, str):
        yield ("string", v)
    elif isinstance(v, tuple):
        yield ("begintuple", len(v))
        for i, x in enumerate(v):
            yield ("index", i)
            for c in iter_commands(x):
                yield c
        yield ("endtuple",)
    elif isinstance(v, dict):
        yield ("beginrecord",)
        for key, x in v.items():
            yield ("field", key)
            for c in iter_commands(x):
                yield c
        yield ("endrecord",)
    elif isinstance(v, list):
        yield ("beginlist",)
        for x in v:
            for c in iter_commands(x):
                yield c
        yield ("endlist",)
    else:
        raise TypeError(type(v))


def hl_append(b, v):
    """the same value through the methods of the high-level ak.ArrayBuilder"""
    if v is None:
        b.null()
    elif isinstance(v, (bool, np.bool_)):
        b.boolean(bool(v))
    elif isinstance(v, (int, np.integer)):
        b.integer(int(v))
    elif isinstance(v, (float, np.floating)):
        b.real(float(v))
    elif isinstance(v, bytes):
        b.bytestring(v)
    elif isinstance(v, str):
        b.string(v)
    elif isinstance(v, tuple):
        with b.tuple(len(v)):
            for i, x in enumerate(v):
                b.index(i)
                hl_append(b, x)
    elif isinstance(v, dict):
        with b.record():
            for key, x in v.items():
                b.field(key)
                hl_append(b, x)
    else:
        with b.list():
            for x in v:
                hl_append(b, x)


def _plain(v):
    if isinstance(v, np.generic):
        return v.item()
    if isinstance(v, list):
        return [_plain(x) for x in v]
    if isinstance(v, tuple):
        return tuple(_plain(x) for x in v)
    if isinstance(v, dict):
        return {k: _plain(x) for k, x in v.items()}
    return v


def _same_mod_pending_fields(got, want):
    """While a record is still open, the fields it has declared so far already belong to the shared record type:
    completed records of that type may show them as None (the statement only fixes the value of finished
    histories: 'absent fields None')."""
    if isinstance(want, dict) and isinstance(got, dict):
        wk = list(want.keys())
        gk = [k for k in got.keys() if k in want]
        if wk != gk:
            return False
        for k, v in got.items():
            if k in want:
                if not _same_mod_pending_fields(v, want[k]):
                    return False
            elif v is not None:
                return False
        return True
    if isinstance(want, list) and isinstance(got, list):
        return len(want) == len(got) and all(_same_mod_pending_fields(g, w) for g, w in zip(got, want))
    if isinstance(want, tuple) and isinstance(got, tuple):
        return len(want) == len(got) and all(_same_mod_pending_fields(g, w) for g, w in zip(got, want))
    return layoutsem.same(got, want)


def _js(x):
    if isinstance(x, bytes):
        return {"__bytes__": x.hex()}
    if isinstance(x, complex):
        return {"__complex__": [x.real, x.imag]}
    if isinstance(x, float) and x != x:
        return {"__float__": "nan"}
    return x


def _unjs(x):
    if isinstance(x, dict):
        if "__bytes__" in x:
            return bytes.fromhex(x["__bytes__"])
        if "__complex__" in x:
            return complex(*x["__complex__"])
        if "__float__" in x:
            return float(x["__float__"])
    return x


if __name__ == "__main__":
    sys.exit(runner.main(C14()))
