#!/usr/bin/env python3
"""C15 -- JSON output parses back to the array's value; JSON input builds what it says (with fault enumeration)."""
import itertools
import json
import math
import os
import re
import sys

sys.path.insert(0, os.path.join(os.path.dirname(os.path.dirname(os.path.abspath(__file__))), "mc"))
import runner  # noqa: E402
from runner import Stats  # noqa: E402
import pool  # noqa: E402
import numpy as np  # noqa: E402
import layouts  # noqa: E402
import layoutsem  # noqa: E402
import values  # noqa: E402
import encs  # noqa: E402
import ext  # noqa: E402
import jsonio  # noqa: E402
import builder as mbuilder  # noqa: E402
import refbuilder  # noqa: E402

sys.setrecursionlimit(20000)
ERRS = (ValueError, TypeError, RuntimeError, IndexError, KeyError, NotImplementedError, AttributeError, MemoryError)
I63 = 2 ** 63


# --------------------------------------------------------------------------------------------- reference: JSON text streams
class Malformed(Exception):
    pass


class Outside(Exception):
    """The text is outside the property's domain (numbers that do not fit, duplicate keys, bytes that are not UTF-8)."""


_WS = " \t\n\r"


def _reject_constant(name):
    raise Malformed("constant " + name)


def _pairs(pairs):
    keys = [k for k, _ in pairs]
    if len(set(keys)) != len(keys):
        raise Outside("duplicate keys")
    return dict(pairs)


def _pyfloat(s):
    x = float(s)
    if math.isinf(x):
        raise Outside("number does not fit a double")
    return x


def _pyint(s):
    x = int(s)
    if not -I63 <= x < I63:
        raise Outside("integer does not fit int64")
    return x


_DEC = json.JSONDecoder(parse_constant=_reject_constant, object_pairs_hook=_pairs, parse_float=_pyfloat, parse_int=_pyint)


def ref_stream(raw):
    """bytes -> list of documents (Python values); Malformed if some document is incomplete or invalid; Outside if the
    property does not define the result. A NUL byte ends a C string, which is what FromJsonString receives: the reference
    sees the text up to the first NUL and the caller decides what a NUL means for files."""
    try:
        text = raw.decode("utf-8")
    except UnicodeDecodeError:
        text = None
    if text is None:
        # structure first (bytes >= 0x80 only ever occur inside strings), value undefined
        probe = raw.decode("latin-1")
        _walk(probe)
        raise Outside("not UTF-8")
    return _walk(text)


def _walk(text):
    docs = []
    i = 0
    n = len(text)
    outside = None
    while True:
        while i < n and text[i] in _WS:
            i += 1
        if i >= n:
            break
        try:
            v, i = _DEC.raw_decode(text, i)
            docs.append(v)
        except json.JSONDecodeError as err:
            raise Malformed(str(err))
        except RecursionError:
            raise Outside("too deep for the reference")
        except Outside as err:
            # keep scanning: a later malformed document still makes the text malformed; re-scan leniently
            outside = err
            lenient = json.JSONDecoder(parse_constant=_reject_constant)
            try:
                v, i = lenient.raw_decode(text, i)
            except json.JSONDecodeError as err2:
                raise Malformed(str(err2))
    if outside is not None:
        raise outside
    return docs


def has_control_in_string(text):
    return False


# --------------------------------------------------------------------------------------------- reference: documents -> array
def doc_commands(v, strings):
    """Commands that from_iter issues for a Python value (src/python/content.cpp builder_fromiter)."""
    if v is None:
        yield ("null",)
    elif v is True or v is False:
        yield ("boolean", v)
    elif isinstance(v, int):
        yield ("integer", v)
    elif isinstance(v, float):
        yield ("real", v)
    elif isinstance(v, str):
        if v in strings:
            yield ("real", strings[v])
        else:
            yield ("string", v)
    elif isinstance(v, list):
        yield ("beginlist",)
        for x in v:
            for c in doc_commands(x, strings):
                yield c
        yield ("endlist",)
    elif isinstance(v, dict):
        yield ("beginrecord",)
        for k, x in v.items():
            yield ("field", k)
            for c in doc_commands(x, strings):
                yield c
        yield ("endrecord",)
    else:
        raise TypeError(type(v))


def expected_array(docs, strings):
    """(reference value, library layout built by the real ArrayBuilder from the same commands) for a document stream;
    one document -> that document itself, otherwise one entry per document."""
    rb = refbuilder.RefBuilder()
    lb = mbuilder.ArrayBuilder()
    for dv in docs:
        for c in doc_commands(dv, strings):
            rb.apply(c)
            getattr(lb, c[0])(*c[1:])
    val = rb.snapshot()
    snap = lb.snapshot()
    if len(docs) == 1:
        return val[0], snap[0]
    return val, snap


def ref_value(doc):
    rb = refbuilder.RefBuilder()
    for c in doc_commands(doc, {}):
        rb.apply(c)
    return rb.snapshot()[0]


def observe(x):
    """Library result -> (value, type string)."""
    if isinstance(x, ext.Record):
        d = ext.describe(x.array)
        return layoutsem.to_list(d)[x.at], "record:" + str(x.array.type({}))
    if isinstance(x, ext.Content):
        d = ext.describe(x)
        err = layoutsem.validity_error(d)
        if err is not None:
            raise layoutsem.Invalid(err)
        return layoutsem.to_list(d), str(x.type({}))
    return x, type(x).__name__


def norm_scalar(x):
    if isinstance(x, (np.generic,)):
        return x.item()
    return x


# --------------------------------------------------------------------------------------------- reference printer
def dumps(v, style, ascii_):
    """Reference printer in three whitespace styles (0 compact, 1 spaced, 2 every whitespace character the grammar allows)."""
    if style == 0:
        return json.dumps(v, separators=(",", ":"), ensure_ascii=ascii_)
    if style == 1:
        return json.dumps(v, separators=(", ", ": "), ensure_ascii=ascii_)
    s = json.dumps(v, indent=1, ensure_ascii=ascii_)
    return "\r\n\t " + s.replace("\n", "\r\n\t") + " \n"


DOCS = [
    None, True, False, 0, -1, 7, 2 ** 31, -2 ** 31 - 1, 2 ** 63 - 1, -2 ** 63, 1.5, -2.25, 1e300, 5e-324, 1e-7, 123456.789,
    "", "a", "a\"b\\c/d", "\b\f\n\r\t\x01\x1f", "é☃", "\U0001f600", "nan", "inf", "-inf", "nul\x00tail",
    [], [[]], [[], []], [1, 2, 3], [1, 2.5], [1.5, 2], [1, None], [None], [None, None], [None, 1.5, None], [True, False],
    [True, 1], ["a", "bc", ""], ["a", None], [1, "a"], [1, "a", None, [2]], [[1], [2, 3], []], [[1.5], [], [2]],
    [[[1]], [[], [2, 3]]], [[1], None, [2]], [[None], [1]],
    {}, {"x": 1}, {"x": 1, "y": 2.5}, {"x": {"y": [1, 2]}}, {"": 1}, {"k\"e\\y": 1}, {"é": [1]},
    [{}], [{}, {}], [{"x": 1}, {"x": 2}], [{"x": 1, "y": [1.5]}, {"x": 2, "y": []}], [{"x": 1}, {"y": 2}],
    [{"x": 1, "y": 2}, {"y": 3, "x": 4}], [{"x": 1}, {"x": 2.5}], [{"x": 1}, {"x": None}], [{"x": 1}, None],
    [{"x": 1}, 2], [{"x": 1}, [2]], [{"x": [{"z": 1}, {"z": 2}]}, {"x": []}], [{"x": {"y": 1}}, {"x": {"y": 2, "w": "s"}}],
    [[{"x": 1}], [], [{"x": 2}, {"x": 3}]], [1, [2], [[3]]], [[1], [[2]]], ["nan", 1.5], ["inf", "-inf", "nan", 0.5],
    [[[[[[1]]]]]], [[[[[[]]]]]], {"a": {"b": {"c": {"d": {"e": None}}}}},
]
# documents small enough to enumerate every fault of every printed form
FAULT_DOCS = [
    None, True, False, 0, -12, 2 ** 63 - 1, 1.5, -2.5e-3, "", "a\"b\\", "é", "\n\x01", [], [1, 2], [1.5, None], [[], [1]],
    ["a", "b"], [1, "a"], {}, {"x": 1}, {"x": [1, {"y": None}]}, [{"x": 1}, {"x": 2}], [{"x": 1}, {"y": "s"}], [True, [False]],
    [[[1]]], "nan", ["inf", 2.5],
]
STREAMS_OF = [None, 3, 1.5, "a", [], [1, 2], [[1], []], {"x": 1}, {"x": 1, "y": [2]}, {"y": 1}, [1.5], ["s"], True]
SUBST = [b",", b"]", b"}", b"\"", b"x", b"\x00", b"[", b"{", b":", b"0", b"-", b" ", b"\\"]
STRING_SETS = [
    (None, None, None), ("nan", None, None), (None, "inf", None), (None, None, "-inf"), ("nan", "inf", "-inf"),
    ("nul", None, None),
]


def string_map(sset):
    m = {}
    if sset[0] is not None:
        m[sset[0]] = math.nan
    if sset[1] is not None and sset[1] not in m:
        m[sset[1]] = math.inf
    if sset[2] is not None and sset[2] not in m:
        m[sset[2]] = -math.inf
    return m


# --------------------------------------------------------------------------------------------- output universe
def leaf_layouts():
    """(name, description) of leaf arrays: every primitive dtype at its limits, strings with every escape class,
    strided / multidimensional buffers."""
    out = []
    ii = np.iinfo
    for dt in ("int8", "int16", "int32", "int64", "uint8", "uint16", "uint32", "uint64"):
        out.append((dt, {"class": "NumpyArray", "array": np.array([ii(dt).min, 0, 1, ii(dt).max, ii(dt).max // 2 + 1], dtype=dt)}))
    out.append(("bool", {"class": "NumpyArray", "array": np.array([True, False, True])}))
    out.append(("float64", {"class": "NumpyArray", "array": np.array([0.0, -0.0, 1.5, 5e-324, 1.7976931348623157e308, 1e21, 1e-7,
                                                                      0.1, 1.0 / 3.0, 123456789.12345679, -2.5e-10])}))
    out.append(("float32", {"class": "NumpyArray", "array": np.array([0.0, 1.5, 1.401298464324817e-45, 3.4028234663852886e38, 0.1],
                                                                      dtype=np.float32)}))
    out.append(("int64-2d", {"class": "NumpyArray", "array": np.arange(12, dtype=np.int64).reshape(3, 2, 2)}))
    out.append(("float64-strided", {"class": "NumpyArray", "array": np.arange(12, dtype=np.float64)[::-3]}))
    out.append(("int32-2d-strided", {"class": "NumpyArray", "array": np.arange(24, dtype=np.int32).reshape(4, 6)[::2, 1::2]}))
    out.append(("bool-2d", {"class": "NumpyArray", "array": np.array([[True, False], [False, False]])}))
    out.append(("empty", {"class": "NumpyArray", "array": np.zeros(0, dtype=np.float64)}))
    out.append(("zero-width-2d", {"class": "NumpyArray", "array": np.zeros((2, 0), dtype=np.int64)}))
    strs = ["", "a\"b", "back\\slash/", "\b\f\n\r\t", "\x01\x1f\x7f", "é☃", "\U0001f600", "a\x00b", "plain"]
    out.append(("strings", string_array(strs, "string", "char")))
    out.append(("bytestrings", string_array(["", "ab", "a\"\\\n", "\x00"], "bytestring", "byte")))
    return out


def string_array(strs, outer, inner):
    raw = [s.encode("utf-8") for s in strs]
    off = np.cumsum([0] + [len(r) for r in raw]).astype(np.int64)
    return {"class": "ListOffsetArray64", "offsets": off, "parameters": {"__array__": outer},
            "content": {"class": "NumpyArray", "array": np.frombuffer(b"".join(raw), dtype=np.uint8).copy(),
                        "parameters": {"__array__": inner}}}


def length_of(d):
    return layoutsem.length(d)


def contexts(name, leaf):
    """Structural contexts around a leaf array: (context name, description)."""
    n = length_of(leaf)
    yield "bare", leaf
    if n >= 2:
        yield "list-shifted", {"class": "ListOffsetArray64", "offsets": np.array([1, 1, n, n], dtype=np.int64), "content": leaf}
        yield "listarray-reversed", {"class": "ListArray64", "starts": np.array([n - 1, 0, 0], dtype=np.int64),
                                     "stops": np.array([n, 0, n - 1], dtype=np.int64), "content": leaf}
        yield "option", {"class": "IndexedOptionArray64", "index": np.array([n - 1, -1, 0, -1], dtype=np.int64), "content": leaf}
        yield "bytemasked", {"class": "ByteMaskedArray", "mask": np.array([1, 0] * n, dtype=np.int8)[:n], "valid_when": False,
                             "content": leaf}
        yield "record", {"class": "RecordArray", "contents": [leaf, leaf], "keys": ["x", "k\"e\\yé"]}
        yield "tuple", {"class": "RecordArray", "contents": [leaf, leaf], "keys": None}
        yield "union", {"class": "UnionArray8_64", "tags": np.array([0, 1, 1, 0], dtype=np.int8),
                        "index": np.array([0, 0, 1, n - 1], dtype=np.int64),
                        "contents": [leaf, string_array(["u", "v\n"], "string", "char")]}
        yield "indexed", {"class": "IndexedArray64", "index": np.array([n - 1, 0, 0], dtype=np.int64), "content": leaf}
        if n % 2 == 0 or n >= 3:
            yield "regular", {"class": "RegularArray", "content": leaf, "size": 2, "zeros_length": 0}
        yield "list-of-record", {"class": "ListOffsetArray64", "offsets": np.array([0, 1, 1, n], dtype=np.int64),
                                 "content": {"class": "RecordArray", "contents": [leaf], "keys": ["f"]}}
    yield "regular-size0", {"class": "RegularArray", "content": leaf, "size": 0, "zeros_length": 3}
    yield "unmasked", {"class": "UnmaskedArray", "content": leaf}


def nested(depth, leaf):
    d = leaf
    for k in range(depth):
        n = length_of(d)
        d = {"class": "ListOffsetArray64", "offsets": np.array([0, n], dtype=np.int64), "content": d}
    return d


def json_value(v, complex_keys=None, strings=None):
    """Model value -> what json.loads of a correct rendering returns."""
    if isinstance(v, dict):
        return {k: json_value(x, complex_keys, strings) for k, x in v.items()}
    if isinstance(v, tuple):
        return {str(i): json_value(x, complex_keys, strings) for i, x in enumerate(v)}
    if isinstance(v, list):
        return [json_value(x, complex_keys, strings) for x in v]
    if isinstance(v, bytes):
        return v.decode("utf-8")
    if isinstance(v, complex):
        if complex_keys is None:
            return v
        return {complex_keys[0]: json_value(v.real, None, strings), complex_keys[1]: json_value(v.imag, None, strings)}
    if isinstance(v, float) and strings:
        if math.isnan(v) and strings[0] is not None:
            return strings[0]
        if v == math.inf and strings[1] is not None:
            return strings[1]
        if v == -math.inf and strings[2] is not None:
            return strings[2]
    return v


def has_nonfinite(v, which):
    if isinstance(v, dict):
        return any(has_nonfinite(x, which) for x in v.values())
    if isinstance(v, (list, tuple)):
        return any(has_nonfinite(x, which) for x in v)
    if isinstance(v, complex):
        return has_nonfinite(v.real, which) or has_nonfinite(v.imag, which)
    if isinstance(v, float):
        return which(v)
    return False


def has_kind(v, kinds):
    if isinstance(v, dict):
        return any(has_kind(x, kinds) for x in v.values())
    if isinstance(v, (list, tuple)):
        return isinstance(v, kinds) or any(has_kind(x, kinds) for x in v)
    return isinstance(v, kinds)


def roundtrip_value(v):
    """What from_json(to_json(a)) is documented to give: tuples come back as records named by position."""
    return json_value(v)


def strict_loads(text):
    def const(name):
        raise ValueError("non-finite literal " + name)
    return json.loads(text, parse_constant=const)


FILE_SIZES_QUICK = [4, 5, 7, 64]


class C15(runner.Check):
    id = "C15"
    level = "fault_enumeration"
    watchdog_s = 60.0
    rule = ("OUTPUT: every leaf array (all primitive dtypes at their limits, strings/bytestrings with quotes, backslashes, "
            "control characters, NUL, non-ASCII, astral; strided and multidimensional buffers) x 13 structural contexts, nesting "
            "depth 1..64, and the generic value universe x physical encodings: tojson (compact and pretty; string and FILE* "
            "variants with every write-buffer size) is well-formed JSON whose parsed value is the reference value (records as "
            "objects, tuples as objects keyed by position, strings as strings, None as null); NaN/+-inf under every subset of "
            "the three user strings, complex under complex_record_fields (and the documented refusal without them); "
            "from_json(to_json(a)) == a. INPUT: every document of a 100-document alphabet printed by a reference printer in 3 "
            "whitespace styles x raw/escaped non-ASCII, streams of 0..3 documents with every separator, under every "
            "nan/inf string set: FromJsonString and FromJsonFile (read-buffer sizes 4..len+1, text shifted by 0..3 bytes so that "
            "refills fall on every byte) have the value of the reference builder model and the type/value of the real "
            "ArrayBuilder fed by from_iter's commands; one document -> the document, k documents -> k entries. FAULTS: every "
            "prefix and every single-byte substitution from a 13-byte alphabet at every position of every printed form of 27 "
            "documents and of the 2-document streams: the reference stream parser classifies the faulted text; still valid -> "
            "value as above; malformed -> an error and no array. non-trivial = comparisons of a non-empty value or required errors.")
    assumptions = ["RapidJSON is replaced by the stand-in in /verif/shim (tokeniser and number printer are the stand-in's); "
                   "awkward's Handler, do_parse, ToJson*, tojson_part and the builders are the repository's",
                   "src/python/io.cpp bindings are ported in bridge/akb_json.cpp + mirror/jsonio.py"]

    def shards(self, tier):
        out = [(tier, "leaf", k) for k in range(len(leaf_layouts()))]
        types = values.TYPES_QUICK if tier == "quick" else values.TYPES_THOROUGH
        out += [(tier, "values", ti) for ti in range(len(types))]
        out += [(tier, "nonfinite", 0), (tier, "complex", 0), (tier, "deep", 0)]
        out += [(tier, "docs", k) for k in range(8)]
        out += [(tier, "streams", k) for k in range(len(STREAMS_OF))]
        out += [(tier, "faults", k) for k in range(len(FAULT_DOCS))]
        out += [(tier, "streamfaults", k) for k in range(len(STREAMS_OF))]
        out += [(tier, "l3", k) for k in range(5)]
        return out

    # ---------------------------------------------------------------------------------------------------------- dispatch
    def run_shard(self, shard):
        tier, part, k = shard
        st = Stats()
        self._no = 0
        self._tier = tier
        getattr(self, "_shard_" + part)(st, tier, k)
        pool.unmark()
        return st.pack()

    def _mark(self):
        self._no += 1
        pool.mark(self._no)

    def _v(self, st, kind, text, case, **sig):
        st.violation(kind, "%s: %s" % (kind, text[:700]), case, what=kind, **sig)

    # ------------------------------------------------------------------------------------------------------------ output
    def _check_output(self, st, d, tag, strings=(None, None, None), complex_keys=None, sizes=None, roundtrip=True):
        """All output variants of one layout under one option set."""
        st.states += 1
        case = {"mode": "output", "layout": layouts.to_json(d), "strings": list(strings), "complex": complex_keys}
        try:
            model = layoutsem.to_list(d)
        except layoutsem.Invalid:
            return
        lay = layouts.build(d)
        kw = dict(nan_string=strings[0], infinity_string=strings[1], minus_infinity_string=strings[2])
        if complex_keys:
            kw.update(complex_real_string=complex_keys[0], complex_imag_string=complex_keys[1])
        if has_nonfinite(model, lambda x: (math.isnan(x) and strings[0] is None) or (x == math.inf and strings[1] is None) or
                         (x == -math.inf and strings[2] is None)):
            st.outcome("output:nonfinite-without-string(undefined)")
            return
        expected = json_value(model, complex_keys, strings)
        top = d["class"].rstrip("0123456789U_")
        texts = {}
        for pretty in (False, True):
            self._mark()
            st.transitions += 1
            st.evaluations += 1
            try:
                s = lay.tojson(pretty=pretty, **kw)
            except ERRS as err:
                if has_kind(model, complex) and complex_keys is None:
                    st.outcome("output:complex-refused-as-documented")
                    st.nontrivial += 1
                    continue
                self._v(st, "tojson-raised", "%s tojson(pretty=%r) raised %s: %s" % (layouts.short(d)[:300], pretty,
                                                                                 type(err).__name__, str(err)[:200]),
                        case, top=top, tag=tag, leaf=tag.split('/')[0])
                continue
            texts[pretty] = s
            try:
                got = strict_loads(s)
            except ValueError as err:
                self._v(st, "not-json", "%s tojson(pretty=%r) is not well-formed JSON (%s): %r" % (layouts.short(d)[:300], pretty,
                                                                                               err, s[:200]),
                        case, top=top, tag=tag, leaf=tag.split('/')[0])
                continue
            if layoutsem.same(got, expected):
                st.outcome("output:ok")
                if model:
                    st.nontrivial += 1
            else:
                self._v(st, "output-value", "%s tojson(pretty=%r) = %r parses to %r, value is %r" % (
                    layouts.short(d)[:300], pretty, s[:200], got, expected), case, top=top, tag=tag, leaf=tag.split('/')[0])
        # FILE* variants: same text for every write-buffer size
        for pretty, s in texts.items():
            raw = s.encode("utf-8", "surrogateescape")
            for bs in (sizes if sizes is not None else self._write_sizes(len(raw))):
                self._mark()
                st.transitions += 1
                st.evaluations += 1
                try:
                    res = lay._call(b"tojson_file", ints=[1 if pretty else 0, -1] + [0 if x is None else 1 for x in
                                    list(strings) + list(complex_keys or (None, None))] + [bs],
                                    strs=["" if x is None else x for x in list(strings) + list(complex_keys or (None, None))]).s[0]
                except ERRS as err:
                    self._v(st, "tojson-file-raised", "%s buffersize=%d: %s" % (layouts.short(d)[:300], bs, err), case, top=top,
                            tag=tag)
                    break
                if res.rstrip(b"\n") == raw.rstrip(b"\n"):
                    st.outcome("output-file:ok")
                    st.nontrivial += 1
                else:
                    self._v(st, "output-file-differs", "%s buffersize=%d pretty=%r: file %r, string %r" % (
                        layouts.short(d)[:300], bs, pretty, res[:200], raw[:200]), case, top=top, tag=tag, leaf=tag.split('/')[0])
                    break
        # round trip
        if roundtrip and False in texts and not has_kind(model, complex) and all(x is None for x in strings):
            self._mark()
            st.transitions += 1
            st.evaluations += 1
            try:
                back = jsonio.fromjson(texts[False])
                bv, bt = observe(back)
            except ERRS + (layoutsem.Invalid,) as err:
                self._v(st, "roundtrip-raised", "%s: from_json(to_json(a)) raised %s: %s" % (layouts.short(d)[:300],
                                                                                             type(err).__name__, str(err)[:200]),
                        case, top=top, tag=tag, leaf=tag.split('/')[0])
                return
            # "up to the builder's documented unification": the reference builder applied to the rendered value
            try:
                want = ref_value(expected)
            except refbuilder.BuilderError:
                want = expected
            if layoutsem.same(_floatify(bv), _floatify(want)):
                st.outcome("roundtrip:ok")
                if model:
                    st.nontrivial += 1
            else:
                self._v(st, "roundtrip-value", "%s: to_json %r, from_json of it %r, value %r" % (
                    layouts.short(d)[:300], texts[False][:200], bv, want), case, top=top, tag=tag, leaf=tag.split('/')[0])

    def _write_sizes(self, n):
        if self._tier == "quick" and n > 40:
            return sorted(set([1, 2, 3, 7, 16, n - 1, n, n + 1, 65536]))
        return list(range(1, n + 2)) + [65536]

    def _shard_leaf(self, st, tier, k):
        name, leaf = leaf_layouts()[k]
        for cname, d in contexts(name, leaf):
            self._check_output(st, d, name + "/" + cname)
            st.sample({"leaf": name, "context": cname, "layout": layouts.short(d)[:200]}, limit=1)

    def _shard_values(self, st, tier, ti):
        types = values.TYPES_QUICK if tier == "quick" else values.TYPES_THOROUGH
        T = types[ti]
        N, M, cap, ek = (2, 2, 60, 1) if tier == "quick" else (3, 2, 400, 1)
        n = 0
        for tvs in values.arrays(T, N, M, 5):
            n += 1
            if n > cap:
                st.caps.append("type %s: value cap %d" % (values.tstr(T), cap))
                break
            for d, names in encs.encodings(T, tvs, ek, True):
                self._check_output(st, d, "values", sizes=[3, 65536])

    def _shard_nonfinite(self, st, tier, k):
        arr = np.array([math.nan, 1.5, math.inf, -math.inf, -0.0])
        arr32 = arr.astype(np.float32)
        subsets = list(itertools.product([None, "NaN!"], [None, "Inf\"inity"], [None, "-∞"]))
        for a in (arr, arr32):
            for sub in subsets:
                # only the non-finite values whose string is chosen are in the property's domain
                keep = [x for x in a.tolist() if not ((math.isnan(x) and sub[0] is None) or (x == math.inf and sub[1] is None) or
                                                      (x == -math.inf and sub[2] is None))]
                leaf = {"class": "NumpyArray", "array": np.array(keep, dtype=a.dtype)}
                for cname, d in contexts("nonfinite", leaf):
                    if cname in ("bare", "list-shifted", "option", "record", "union", "regular"):
                        self._check_output(st, d, "nonfinite/" + cname, strings=sub, roundtrip=False)
                # and back: the strings on input
                self._input_case(st, json.dumps(json_value(keep, None, sub)).encode(), sub, "nonfinite")

    def _shard_complex(self, st, tier, k):
        for dt in (np.complex64, np.complex128):
            leaf = {"class": "NumpyArray", "array": np.array([1 + 2j, -0.5j, 3.25, 0], dtype=dt)}
            for cname, d in contexts("complex", leaf):
                for ck in (None, ("r", "i"), ("re\"al", "ïmag")):
                    self._check_output(st, d, "complex/" + cname, complex_keys=ck, roundtrip=False)
            nf = {"class": "NumpyArray", "array": np.array([complex(math.nan, 1), complex(1, math.inf)], dtype=dt)}
            self._check_output(st, nf, "complex/nonfinite", strings=("n", "p", "m"), complex_keys=("r", "i"), roundtrip=False)

    def _shard_deep(self, st, tier, k):
        leaf = {"class": "NumpyArray", "array": np.array([1, 2], dtype=np.int64)}
        depths = list(range(1, 65)) + ([] if tier == "quick" else [100, 200, 400])
        for dep in depths:
            self._check_output(st, nested(dep, leaf), "deep", sizes=[1, 65536])
            rec = leaf
            for i in range(dep):
                rec = {"class": "RecordArray", "contents": [rec], "keys": ["f%d" % i]}
            self._check_output(st, rec, "deep-records", sizes=[1, 65536])
            doc = [1, 2]
            for i in range(dep):
                doc = [doc] if i % 2 else {"k": doc}
            self._input_case(st, json.dumps(doc).encode(), (None, None, None), "deep")

    # ------------------------------------------------------------------------------------------------------------- input
    def _input_case(self, st, raw, sset, tag, file_sizes=None, faulted=False):
        """One text under one string set: reference classification vs FromJsonString and FromJsonFile."""
        st.states += 1
        case = {"mode": "input", "text": list(raw), "strings": list(sset), "tag": tag}
        nul = raw.find(b"\x00")
        cstr = raw if nul < 0 else raw[:nul]      # what a C string holds
        kw = dict(nan_string=sset[0], infinity_string=sset[1], minus_infinity_string=sset[2])
        ref_cache = {}

        def reference(text):
            if text not in ref_cache:
                try:
                    docs = ref_stream(text)
                    ref_cache[text] = ("docs", docs, expected_array(docs, string_map(sset)))
                except Malformed as err:
                    ref_cache[text] = ("malformed", str(err), None)
                except Outside as err:
                    ref_cache[text] = ("outside", str(err), None)
            return ref_cache[text]

        variants = [("string", None, cstr)]
        for bs in (file_sizes if file_sizes is not None else self._read_sizes(len(raw))):
            variants.append(("file", bs, raw))
        for how, bs, text in variants:
            self._mark()
            st.transitions += 1
            st.evaluations += 1
            if how == "file" and nul >= 0:
                # a NUL byte inside a file is not JSON: the property demands an error unless nothing but NULs/whitespace
                # follows... the reader cannot tell NUL from end of file, so the text up to the NUL is what it can see
                kind, info, exp = reference(cstr)
                nulcase = True
            else:
                kind, info, exp = reference(text)
                nulcase = False
            scalar_doc = kind == "docs" and len(info) == 1 and not isinstance(info[0], (list, dict))
            try:
                if how == "string":
                    res = jsonio.fromjson(text, **kw)
                else:
                    res = jsonio.fromjson_filelike(text, bs, **kw)
                if scalar_doc and isinstance(res, ext.Content):
                    # a single string document comes back as its bare characters; from_iter has no counterpart
                    st.outcome("input:single-string-document(undefined)")
                    continue
                got = ("value",) + observe(res)
            except ERRS as err:
                got = ("error", err, None)
            except layoutsem.Invalid as err:
                if kind == "outside":
                    st.outcome("input:outside-domain(unreadable)")
                    continue
                self._v(st, "input-invalid-layout", "%r (%s, buffersize=%r): result is not a valid layout: %s" % (
                    raw[:120], how, bs, err), case, how=how, tag=tag, faulted=faulted)
                continue
            if kind == "outside":
                st.outcome("input:outside-domain(%s)" % ("error" if got[0] == "error" else "value"))
                continue
            if nulcase and kind != "malformed":
                # a NUL byte in a file after complete documents: the reader cannot tell it from the end of the file
                st.outcome("input:nul-after-documents(%s)" % got[0])
                continue
            if kind == "malformed":
                if got[0] == "error":
                    st.outcome("input:malformed-rejected")
                    st.nontrivial += 1
                else:
                    self._v(st, "malformed-accepted", "%r (%s, buffersize=%r) is malformed (%s) but yielded %r" % (
                        raw[:160], how, bs, info[:80], got[1]), case, how=how, tag=tag, faulted=faulted,
                        noevents=_no_events(text), nul=nulcase)
                continue
            docs = info
            ev, elay = exp
            if got[0] == "error":
                if len(docs) == 1 and not isinstance(docs[0], (list, dict)):
                    # a single scalar document has no array form in from_iter either
                    st.outcome("input:single-scalar-refused")
                    continue
                self._v(st, "valid-rejected", "%r (%s, buffersize=%r) is %d valid document(s) but raised %s: %s" % (
                    raw[:160], how, bs, len(docs), type(got[1]).__name__, str(got[1])[:160]), case, how=how, tag=tag,
                    faulted=faulted, ndocs=min(len(docs), 2))
                continue
            if len(docs) == 1 and not isinstance(docs[0], (list, dict)):
                # scalar: compare the value only
                if layoutsem.same(norm_scalar(got[1]), ev) or (isinstance(ev, float) and isinstance(got[1], float) and
                                                                math.isnan(ev) and math.isnan(got[1])):
                    st.outcome("input:scalar-ok")
                else:
                    self._v(st, "input-value", "%r (%s, buffersize=%r): got %r, document is %r" % (raw[:160], how, bs, got[1], ev),
                            case, how=how, tag=tag, faulted=faulted, ndocs=1)
                continue
            if not layoutsem.same(got[1], ev):
                self._v(st, "input-value", "%r (%s, buffersize=%r): got %r, reference %r" % (raw[:160], how, bs, got[1], ev),
                        case, how=how, tag=tag, faulted=faulted, ndocs=min(len(docs), 2))
                continue
            # type and value of the real builder fed by from_iter's command sequence
            try:
                lv, lt = observe(elay)
            except layoutsem.Invalid:
                lv, lt = None, None
            if lt is not None and (lt != got[2] or not layoutsem.same(lv, got[1])):
                self._v(st, "input-type", "%r (%s): type %s value %r, from_iter gives type %s value %r" % (
                    raw[:160], how, got[2], got[1], lt, lv), case, how=how, tag=tag, faulted=faulted, ndocs=min(len(docs), 2))
                continue
            st.outcome("input:ok(%s)" % ("1doc" if len(docs) == 1 else "stream"))
            if docs:
                st.nontrivial += 1

    def _read_sizes(self, n):
        if self._tier == "quick" and n > 24:
            return FILE_SIZES_QUICK
        return list(range(4, n + 2)) + [65536]

    def _shard_docs(self, st, tier, k):
        for di, doc in enumerate(DOCS):
            if di % 8 != k:
                continue
            for style in (0, 1, 2):
                for ascii_ in (True, False):
                    raw = dumps(doc, style, ascii_).encode("utf-8")
                    for sset in STRING_SETS:
                        if sset != STRING_SETS[0] and not _mentions(doc, sset):
                            continue
                        for shift in range(4):
                            self._input_case(st, b" " * shift + raw, sset, "docs",
                                             file_sizes=None if shift == 0 else [4])
            st.sample({"document": repr(doc)[:120]}, limit=2)

    def _shard_streams(self, st, tier, k):
        first = STREAMS_OF[k]
        seps = ["", " ", "\n", ",", " \r\n\t"]
        for n in (0, 1, 2, 3):
            if n == 0:
                if k == 0:
                    for raw in (b"", b" ", b"\n\n", b"\t \r\n"):
                        self._input_case(st, raw, STRING_SETS[0], "streams")
                continue
            others = STREAMS_OF if tier == "thorough" or n < 3 else STREAMS_OF[:7]
            for rest in itertools.product(others, repeat=n - 1):
                docs = (first,) + rest
                for sep in seps:
                    raw = sep.join(dumps(x, 0, True) for x in docs).encode()
                    self._input_case(st, raw, STRING_SETS[0], "streams", file_sizes=[4, 6] if (tier == "quick" and n == 3) else None)
                    self._input_case(st, raw + b"\n", STRING_SETS[0], "streams", file_sizes=[5])

    def _faults_of(self, st, raw, sset, tag, full=False):
        n = len(raw)
        thorough = self._tier == "thorough"
        fs = [4, 5, 7] if not thorough else [4, 5, 6, 7, 9]
        alphabet = SUBST if not (thorough and full) else [bytes([x]) for x in range(256)]
        for cut in range(n):
            self._input_case(st, raw[:cut], sset, tag, file_sizes=fs, faulted=True)
        for pos in range(n):
            for b in alphabet:
                if raw[pos:pos + 1] == b:
                    continue
                self._input_case(st, raw[:pos] + b + raw[pos + 1:], sset, tag, file_sizes=fs, faulted=True)
        for pos in range(n + 1):
            for b in SUBST:
                self._input_case(st, raw[:pos] + b + raw[pos:], sset, tag, file_sizes=[4], faulted=True)   # insertion
        for pos in range(n):
            self._input_case(st, raw[:pos] + raw[pos + 1:], sset, tag, file_sizes=[4], faulted=True)       # deletion
        if thorough and full and n <= 16:
            # two simultaneous substitutions (deviation bound 2) on the short texts
            for p1 in range(n):
                for p2 in range(p1 + 1, n):
                    for b1 in SUBST:
                        for b2 in SUBST:
                            t = raw[:p1] + b1 + raw[p1 + 1:p2] + b2 + raw[p2 + 1:]
                            self._input_case(st, t, sset, tag, file_sizes=[4], faulted=True)

    def _shard_faults(self, st, tier, k):
        doc = FAULT_DOCS[k]
        styles = [(0, True), (1, False), (2, True)] if tier == "quick" else [(0, True), (0, False), (1, True), (1, False), (2, True)]
        for style, ascii_ in styles:
            raw = dumps(doc, style, ascii_).encode("utf-8")
            sset = STRING_SETS[4] if _mentions(doc, STRING_SETS[4]) else STRING_SETS[0]
            self._faults_of(st, raw, sset, "faults", full=True)
        st.sample({"fault-base": repr(doc)[:100]}, limit=1)

    def _shard_streamfaults(self, st, tier, k):
        first = STREAMS_OF[k]
        for second in STREAMS_OF:
            for sep in (" ", "", "\n"):
                raw = (dumps(first, 0, True) + sep + dumps(second, 0, True)).encode()
                self._faults_of(st, raw, STRING_SETS[0], "streamfaults")

    # ---------------------------------------------------------------------------------------------------------------- L3
    def _shard_l3(self, st, tier, k):
        import install
        ak = install.install()
        import tempfile
        tmpdir = tempfile.mkdtemp(prefix="akv-c15-")
        try:
            if k == 0:
                self._l3_docs(st, ak, tmpdir)
            elif k == 1:
                self._l3_out(st, ak, tmpdir)
            elif k == 2:
                self._l3_complex(st, ak)
            elif k == 3:
                self._l3_partitioned(st, ak)
            else:
                self._l3_nonfinite(st, ak, tmpdir)
        finally:
            import shutil
            shutil.rmtree(tmpdir, ignore_errors=True)

    def _l3_docs(self, st, ak, tmpdir):
        """ak.from_json(text) / ak.from_json(path) == ak.from_iter(json.loads(text)) in value and type"""
        for di, doc in enumerate(DOCS):
            if not isinstance(doc, (list, dict)):
                continue
            for style in (0, 2):
                text = dumps(doc, style, True)
                case = {"mode": "l3-docs", "doc": di, "style": style}
                self._mark()
                st.states += 1
                st.transitions += 1
                st.evaluations += 1
                try:
                    a = ak.from_json(text)
                    path = os.path.join(tmpdir, "d%d_%d.json" % (di, style))
                    with open(path, "w") as f:
                        f.write(text)
                    b = ak.from_json(path, buffersize=5)
                    c = ak.from_iter(doc)
                    ta, tb, tc = str(ak.type(a)), str(ak.type(b)), str(ak.type(c))
                    la, lb, lc = ak.to_list(a), ak.to_list(b), ak.to_list(c)
                except ERRS as err:
                    self._v(st, "l3-raised", "ak.from_json(%r): %s: %s" % (text[:100], type(err).__name__, str(err)[:200]), case,
                            tag="l3-docs")
                    continue
                if ta == tb == tc and layoutsem.same(la, lc) and layoutsem.same(lb, lc):
                    st.outcome("l3:from_json==from_iter")
                    st.nontrivial += 1
                else:
                    self._v(st, "l3-from_json", "ak.from_json(%r): string %s %r, file %s %r, from_iter %s %r" % (
                        text[:100], ta, la, tb, lb, tc, lc), case, tag="l3-docs")

    def _l3_out(self, st, ak, tmpdir):
        """ak.to_json on arrays, records, numpy arrays, python objects; destination files"""
        for di, doc in enumerate(DOCS):
            if not isinstance(doc, (list, dict)):
                continue
            case = {"mode": "l3-out", "doc": di}
            self._mark()
            st.states += 1
            st.transitions += 1
            st.evaluations += 1
            try:
                arr = ak.from_iter(doc)
                want = ak.to_list(arr)
                s = ak.to_json(arr)
                sp = ak.to_json(arr, pretty=True)
                path = os.path.join(tmpdir, "o%d.json" % di)
                r = ak.to_json(arr, path, buffersize=3)
                with open(path) as f:
                    sf = f.read()
                vals = [strict_loads(s), strict_loads(sp), strict_loads(sf)]
            except ERRS as err:
                self._v(st, "l3-raised", "ak.to_json(from_iter(%r)): %s: %s" % (doc, type(err).__name__, str(err)[:200]), case,
                        tag="l3-out")
                continue
            if r is None and all(layoutsem.same(v, want) for v in vals):
                st.outcome("l3:to_json-ok")
                st.nontrivial += 1
            else:
                self._v(st, "l3-to_json", "ak.to_json(from_iter(%r)): %r / pretty %r / file %r; to_list %r" % (
                    doc, s[:100], sp[:100], sf[:100], want), case, tag="l3-out")
        for name, leaf in leaf_layouts():
            if name in ("bytestrings",):
                continue
            d = leaf
            case = {"mode": "l3-leaf", "leaf": name}
            self._mark()
            st.states += 1
            st.transitions += 1
            st.evaluations += 1
            try:
                lay = layouts.build(d)
                arr = ak.Array(lay)
                s = ak.to_json(arr)
                want = json_value(layoutsem.to_list(d))
                back = ak.to_list(ak.from_json(s)) if layoutsem.length(d) > 0 else []
                got = strict_loads(s)
            except ERRS as err:
                self._v(st, "l3-raised", "ak.to_json(%s): %s: %s" % (name, type(err).__name__, str(err)[:200]), case, tag="l3-leaf")
                continue
            if layoutsem.same(got, want) and layoutsem.same(_floatify(back), _floatify(want)):
                st.outcome("l3:leaf-roundtrip-ok")
                st.nontrivial += 1
            else:
                self._v(st, "l3-leaf", "ak.to_json(%s) = %r -> %r; back %r; value %r" % (name, s[:120], got, back, want), case,
                        tag="l3-leaf", leaf=name)

    def _l3_complex(self, st, ak):
        for dt in (np.complex64, np.complex128):
            for shape in ("flat", "nested", "record"):
                base = np.array([1 + 2j, -0.5j, 3.25], dtype=dt)
                if shape == "flat":
                    arr = ak.Array(base)
                elif shape == "nested":
                    arr = ak.Array(ak.layout.ListOffsetArray64(ak.layout.Index64(np.array([0, 2, 2, 3])), ak.layout.NumpyArray(base)))
                else:
                    arr = ak.Array(ak.layout.RecordArray([ak.layout.NumpyArray(base)], ["z"]))
                case = {"mode": "l3-complex", "dtype": str(np.dtype(dt)), "shape": shape}
                self._mark()
                st.states += 1
                st.transitions += 1
                st.evaluations += 1
                try:
                    s = ak.to_json(arr, complex_record_fields=("r", "i"))
                    back = ak.from_json(s, complex_record_fields=("r", "i"))
                    want = ak.to_list(arr)
                    got = ak.to_list(back)
                except ERRS as err:
                    self._v(st, "l3-raised", "complex %s %s: %s: %s" % (dt.__name__, shape, type(err).__name__, str(err)[:200]),
                            case, tag="l3-complex")
                    continue
                if layoutsem.same(got, want):
                    st.outcome("l3:complex-roundtrip-ok")
                    st.nontrivial += 1
                else:
                    self._v(st, "l3-complex", "complex %s %s: json %r back %r want %r" % (dt.__name__, shape, s[:120], got, want),
                            case, tag="l3-complex")
                try:
                    ak.to_json(arr)
                    self._v(st, "l3-complex-norefusal", "ak.to_json of complex without complex_record_fields did not raise", case,
                            tag="l3-complex")
                except ERRS:
                    st.outcome("l3:complex-refused-as-documented")

    def _l3_nonfinite(self, st, ak, tmpdir):
        """every subset of the three strings x text / bytes / file sources: ak.from_json(ak.to_json(a, **s), **s) == a, and the
        strings that are NOT chosen stay strings"""
        datas = [[1.5, math.nan, math.inf, -math.inf], [[1.0, -math.inf], [], [math.inf, math.nan]], [-math.inf], [math.inf],
                 [math.nan], [{"x": -math.inf, "y": [math.inf]}]]
        names = ("nan_string", "infinity_string", "minus_infinity_string")
        words = ("NaN", "Infinity", "-Infinity")
        for di, data in enumerate(datas):
            arr = ak.from_iter(data)
            for subset in itertools.product((False, True), repeat=3):
                kw = {n: w for n, w, on in zip(names, words, subset) if on}
                # the document always spells all three as strings; only the chosen ones may turn into numbers
                text = json.dumps(json_value(data, None, words))
                want = _l3_nf_expected(json.loads(text), {w: v for (n, w, on), v in zip(zip(names, words, subset), (math.nan, math.inf, -math.inf)) if on})
                path = os.path.join(tmpdir, "nf%d_%s.json" % (di, "".join("1" if x else "0" for x in subset)))
                with open(path, "w") as f:
                    f.write(text)
                for how, src in (("text", text), ("bytes", text.encode()), ("file", path)):
                    case = {"mode": "l3-nonfinite", "data": di, "subset": list(subset), "source": how}
                    self._mark()
                    st.states += 1
                    st.transitions += 1
                    st.evaluations += 1
                    try:
                        got = ak.to_list(ak.from_json(src, **kw))
                    except ERRS + (OSError,) as err:
                        self._v(st, "l3-raised", "ak.from_json(%s %r, %r): %s: %s" % (how, text[:80], kw, type(err).__name__, str(err)[:160]),
                                case, tag="l3-nonfinite", source=how)
                        continue
                    if layoutsem.same(got, want):
                        st.outcome("l3:nonfinite-%s-ok" % how)
                        st.nontrivial += 1
                    else:
                        self._v(st, "l3-nonfinite", "ak.from_json(%s %r, %r) = %r, expected %r" % (how, text[:80], kw, got, want), case,
                                tag="l3-nonfinite", source=how)
                # and the writer
                self._mark()
                st.transitions += 1
                st.evaluations += 1
                if all(subset):
                    try:
                        s2 = ak.to_json(arr, **kw)
                        ok = layoutsem.same(strict_loads(s2), json.loads(text))
                    except ERRS as err:
                        ok = False
                        s2 = "%s: %s" % (type(err).__name__, err)
                    if ok:
                        st.outcome("l3:nonfinite-to_json-ok")
                    else:
                        self._v(st, "l3-nonfinite", "ak.to_json(%r, %r) = %r" % (data, kw, s2[:120]), {"mode": "l3-nonfinite", "data": di,
                                "subset": list(subset), "source": "to_json"}, tag="l3-nonfinite", source="to_json")

    def _l3_partitioned(self, st, ak):
        for di, doc in enumerate(DOCS):
            if not isinstance(doc, list) or len(doc) < 2:
                continue
            for cut in range(0, len(doc) + 1):
                case = {"mode": "l3-partitioned", "doc": di, "cut": cut}
                self._mark()
                st.states += 1
                st.transitions += 1
                st.evaluations += 1
                try:
                    whole = ak.from_iter(doc)
                    parts = ak.partitioned([whole[:cut], whole[cut:]])
                    s = ak.to_json(parts)
                    sp = ak.to_json(parts, pretty=True)
                    want = ak.to_list(whole)
                    got = [strict_loads(s), strict_loads(sp)]
                except ERRS as err:
                    self._v(st, "l3-raised", "partitioned %r cut %d: %s: %s" % (doc, cut, type(err).__name__, str(err)[:200]), case,
                            tag="l3-partitioned")
                    continue
                if all(layoutsem.same(g, want) for g in got):
                    st.outcome("l3:partitioned-ok")
                    st.nontrivial += 1
                else:
                    self._v(st, "l3-partitioned", "partitioned %r cut %d: %r; want %r" % (doc, cut, s[:120], want), case,
                            tag="l3-partitioned")

    # ------------------------------------------------------------------------------------------------------------ replay
    def replay(self, case):
        st = Stats()
        self._no = 0
        self._tier = "quick"
        mode = case.get("mode")
        if mode == "output":
            d = layouts.from_json(case["layout"])
            ck = tuple(case["complex"]) if case.get("complex") else None
            self._check_output(st, d, "replay", strings=tuple(case["strings"]), complex_keys=ck)
        elif mode == "input":
            self._input_case(st, bytes(case["text"]), tuple(case["strings"]), case.get("tag", "replay"),
                             file_sizes=[4, 5, 7, 64])
        else:
            import install
            ak = install.install()
            import tempfile
            import shutil
            tmpdir = tempfile.mkdtemp(prefix="akv-c15-")
            try:
                {"l3-docs": lambda: self._l3_docs(st, ak, tmpdir), "l3-out": lambda: self._l3_out(st, ak, tmpdir),
                 "l3-leaf": lambda: self._l3_out(st, ak, tmpdir), "l3-complex": lambda: self._l3_complex(st, ak),
                 "l3-partitioned": lambda: self._l3_partitioned(st, ak),
                 "l3-nonfinite": lambda: self._l3_nonfinite(st, ak, tmpdir)}[mode]()
            finally:
                shutil.rmtree(tmpdir, ignore_errors=True)
            vs = [v for v in st.violations if all(v["case"].get(kk) == case.get(kk) for kk in case)]
            return bool(vs), "\n".join(v["summary"] for v in vs) or "holds"
        return bool(st.violations), "\n".join(v["summary"] for v in st.violations) or "holds"


def _l3_nf_expected(v, chosen):
    if isinstance(v, str) and v in chosen:
        return chosen[v]
    if isinstance(v, list):
        return [_l3_nf_expected(x, chosen) for x in v]
    if isinstance(v, dict):
        return {k: _l3_nf_expected(x, chosen) for k, x in v.items()}
    return v


def _mentions(doc, sset):
    names = set(x for x in sset if x is not None)

    def walk(v):
        if isinstance(v, str):
            return v in names
        if isinstance(v, list):
            return any(walk(x) for x in v)
        if isinstance(v, dict):
            return any(walk(x) for x in v.values())
        return False
    return walk(doc)


def _no_events(text):
    """True if the first incomplete/invalid document of the text produced no handler event before failing (a bare
    unterminated string, a cut literal, a lone sign): the class of faults that do_parse can tell apart only by the
    parse error code."""
    t = text.lstrip(b" \t\r\n")
    return not (t.startswith(b"[") or t.startswith(b"{"))


def _floatify(v):
    """from_json(to_json(a)) is compared up to the builder's documented number unification: integers and booleans that
    sit beside floats come back as floats, so compare numerically."""
    if isinstance(v, bool):
        return v
    if isinstance(v, int):
        return float(v) if abs(v) < 2 ** 53 else v
    if isinstance(v, dict):
        return {k: _floatify(x) for k, x in v.items()}
    if isinstance(v, (list, tuple)):
        return [_floatify(x) for x in v]
    return v


if __name__ == "__main__":
    sys.exit(runner.main(C15()))
