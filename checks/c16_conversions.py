#!/usr/bin/env python3
"""C16 -- buffers, pickle, NumPy and Arrow conversions are lossless (tier L3: convert.py / highlevel.py of the
repository on the mirror)."""
import itertools
import os
import pickle
import sys
import warnings

sys.path.insert(0, os.path.join(os.path.dirname(os.path.dirname(os.path.abspath(__file__))), "mc"))
import runner  # noqa: E402
from runner import Stats  # noqa: E402
import pool  # noqa: E402
import numpy as np  # noqa: E402
import layouts  # noqa: E402
import layoutsem  # noqa: E402
import values  # noqa: E402
import encs  # noqa: E402
import ext  # noqa: E402
from values import I, F, B, S, BY, UNK, var, reg, opt, rec, tup, union  # noqa: E402

TYPES = values.TYPES_QUICK + [F, B, var(opt(S)), rec(("x", opt(I)), ("y", var(S))), var(union(I, S)), reg(2, reg(2, I)),
                              rec(("y", I), ("x", var(F)), ("a", S)), var(rec(("b", I), ("a", I))),
                              # wide records and tuples: 12 fields of mixed types (keys "10", "11" sort before "2" as strings),
                              # and a record whose names are numerals in a non-numeric order
                              values.tup(I, I, I, I, I, I, I, I, I, I, F, B), var(values.tup(I, F, I, F, I, F, I, F, I, F, I, B)),
                              rec(*[("f%02d" % (11 - k), (I, F, B)[k % 3]) for k in range(12)]),
                              rec(("10", I), ("9", F), ("1", B))]
ERRS = (ValueError, TypeError, RuntimeError, IndexError, KeyError, NotImplementedError, AttributeError)


def value_of(ak, array):
    lay = array.layout if hasattr(array, "layout") else array
    if isinstance(lay, ak.partition.PartitionedArray):
        out = []
        for p in lay.partitions:
            out.extend(layoutsem.to_list(ext.describe(p)))
        return out
    return layoutsem.to_list(ext.describe(lay))


class C16(runner.Check):
    id = "C16"
    level = "exploration"
    rule = ("(a) every array of the type menu x encodings (<= 1 non-canonical node: non-zero-based offsets, unreachable "
            "content, every index width and option/union encoding) through to_buffers/from_buffers x form_key x key_format "
            "x container kind (arrays / raw bytes) x partitioned (2 partitions), and through pickle; oracle = same type string, "
            "same parameters, same logical value read by the reference layout interpreter (not by the library's to_list). "
            "(b) from_numpy/to_numpy on all arrays of shape <= (3,2,2) x dtypes x C/F/strided/negative-stride/byte-swapped "
            "variants and masked arrays (all masks of length <= 3): mutual inverses and agreement with to_list. (c) "
            "to_arrow/from_arrow x {list_to32, string_to32, bytestring_to32}: value preserved, option-ness below the top level "
            "preserved, pyarrow's own to_pylist equals to_list. non-trivial = array with at least one element.")
    assumptions = ["tier L3 mirror; pickling of Form objects uses the mirror's JSON round trip (src/python/forms.cpp is unreachable)",
                   "pyarrow 25 / NumPy 2 as installed"]

    def shards(self, tier):
        return [(tier, "buffers", ti) for ti in range(len(TYPES))] + [(tier, "numpy", k) for k in range(4)] + \
               [(tier, "arrow", ti) for ti in range(len(TYPES))]

    def run_shard(self, shard):
        tier, part, x = shard
        import install
        ak = install.install()
        warnings.simplefilter("ignore")
        st = Stats()
        getattr(self, "_" + part)(ak, tier, x, st)
        pool.unmark()
        return st.pack()

    def _arrays(self, T, tier):
        N, M, cap = (3, 2, 30) if tier == "quick" else (3, 2, 150)
        n = 0
        for tvs in values.arrays(T, N, M, 5):
            n += 1
            if n > cap:
                return
            for d, names in encs.encodings(T, tvs, 1, True):
                yield tvs, d, names

    # ---- (a)
    def _buffers(self, ak, tier, ti, st):
        T = TYPES[ti]
        no = 0
        for tvs, d, names in self._arrays(T, tier):
            st.states += 1
            want = values.strip(tvs)
            lay = layouts.build(d)
            arr = ak.Array(lay)
            tstr = str(ak.type(arr))
            variants = [dict(), dict(form_key="n{id}", key_format="{form_key}/{attribute}@{partition}"),
                        dict(partition_start=3)]
            for vi, kw in enumerate(variants):
                for raw in (False, True):
                    no += 1
                    pool.mark(no)
                    st.transitions += 1
                    st.evaluations += 1
                    try:
                        form, length, container = ak.to_buffers(arr, **kw)
                        if raw:
                            container = {k: bytes(np.ascontiguousarray(v).tobytes()) for k, v in container.items()}
                        kw2 = {k: v for k, v in kw.items() if k == "key_format"}
                        if "partition_start" in kw:
                            kw2["partition_start"] = kw["partition_start"]
                        back = ak.from_buffers(form, length, container, **kw2)
                        got = value_of(ak, back)
                        tback = str(ak.type(back))
                    except ERRS as err:
                        self._v(st, "buffers", "unexpected-error", T, d, names, "to/from_buffers(%r, raw=%s) raised %s: %s" % (kw, raw, type(err).__name__, str(err)[:200]))
                        continue
                    except layoutsem.Invalid as err:
                        self._v(st, "buffers", "invalid-result", T, d, names, str(err))
                        continue
                    if not layoutsem.same(got, want) or tback != tstr:
                        self._v(st, "buffers", "value", T, d, names, "round trip (%r, raw=%s): %r : %s -> %r : %s" % (kw, raw, want, tstr, got, tback))
                    else:
                        st.outcome("buffers:ok")
                        if want:
                            st.nontrivial += 1
            # partitioned
            if len(want) >= 2:
                no += 1
                pool.mark(no)
                st.transitions += 1
                st.evaluations += 1
                try:
                    parr = ak.partitioned([arr[:1], arr[1:]])
                    form, length, container = ak.to_buffers(parr)
                    back = ak.from_buffers(form, length, container)
                    ok = layoutsem.same(value_of(ak, back), want) and isinstance(back.layout, ak.partition.PartitionedArray) \
                        and list(back.layout.lengths) == list(parr.layout.lengths)
                    if not ok:
                        self._v(st, "buffers-partitioned", "value", T, d, names, "partitioned round trip: %r -> %r lengths %r" % (
                            want, value_of(ak, back), getattr(back.layout, "lengths", None)))
                    else:
                        st.outcome("partitioned:ok")
                        st.nontrivial += 1
                except ERRS as err:
                    self._v(st, "buffers-partitioned", "unexpected-error", T, d, names, "%s: %s" % (type(err).__name__, str(err)[:200]))
            # pickle
            no += 1
            pool.mark(no)
            st.transitions += 1
            st.evaluations += 1
            try:
                back = pickle.loads(pickle.dumps(arr, protocol=2))
                if not layoutsem.same(value_of(ak, back), want) or str(ak.type(back)) != tstr:
                    self._v(st, "pickle", "value", T, d, names, "pickle: %r : %s -> %r : %s" % (want, tstr, value_of(ak, back), ak.type(back)))
                else:
                    st.outcome("pickle:ok")
                    if want:
                        st.nontrivial += 1
            except ERRS as err:
                self._v(st, "pickle", "unexpected-error", T, d, names, "%s: %s" % (type(err).__name__, str(err)[:200]))
            if no % 97 < 8:
                st.sample({"type": values.tstr(T), "layout": layouts.short(d)[:200]})

    def _v(self, st, op, failure, T, d, names, text):
        st.violation(failure, "%s on %s [%s; %s]: %s" % (op, layouts.short(d)[:300], values.tstr(T), names or "canonical", text[:500]),
                     {"part": op, "layout": layouts.to_json(d)}, op=op, failure=failure,
                     enc="+".join(n.split("-")[0].rstrip("0123456789U_") for n in (names or [])) or "canonical",
                     top=d["class"].rstrip("0123456789U_"), unsorted_keys=_unsorted_keys(T))

    # ---- (b)
    def _numpy(self, ak, tier, k, st):
        dtypes = ["bool", "int8", "int64", "uint16", "float32", "float64", "complex128", "datetime64[s]", "timedelta64[ns]"]
        shapes = [(0,), (1,), (3,), (2, 2), (3, 2), (0, 2), (2, 0), (2, 2, 2), (3, 2, 2), (1, 1, 1)]
        no = 0
        for di, dt in enumerate(dtypes):
            if di % 4 != k:
                continue
            for shape in shapes:
                n = int(np.prod(shape))
                base = (np.arange(n) % 5 + 1).astype("int64")
                x = base.astype(dt).reshape(shape) if not dt.startswith(("datetime", "timedelta")) else base.astype(dt).reshape(shape)
                variants = [("C", x), ("F", np.asfortranarray(x))]
                if x.ndim >= 1 and x.shape[0] > 1:
                    variants.append(("rev", x[::-1]))
                    big = np.repeat(x, 2, axis=0)
                    variants.append(("strided", big[::2]))
                # (byte-swapped inputs are judged by the buffer-format handling of src/python/content.cpp, which the
                #  mirror cannot reproduce faithfully: not enumerated)
                for vname, v in variants:
                    for regulararray in (False, True):
                        no += 1
                        pool.mark(no)
                        st.states += 1
                        st.transitions += 1
                        st.evaluations += 1
                        try:
                            a = ak.from_numpy(v, regulararray=regulararray)
                            back = np.asarray(ak.to_numpy(a))   # (for datetimes to_numpy returns the buffer-protocol layout itself)
                            lst = value_of(ak, a)
                        except ERRS as err:
                            st.violation("unexpected-error", "from_numpy/to_numpy %s %s %s raised %s" % (dt, shape, vname, str(err)[:200]),
                                         {"part": "numpy", "dtype": dt, "shape": list(shape), "variant": vname}, op="numpy", failure="unexpected-error",
                                         variant=vname, dkind=np.dtype(dt).kind, regulararray=regulararray, ndim=len(shape))
                            continue
                        ok = back.shape == v.shape and back.dtype == v.dtype.newbyteorder("=") and np.array_equal(back, v) \
                            and layoutsem.same(lst, v.tolist() if np.dtype(dt).kind not in "mM" else _dt_list(v))
                        if not ok:
                            st.violation("value", "from_numpy/to_numpy %s %s %s (regulararray=%s): %r -> %r ; list %r" % (
                                dt, shape, vname, regulararray, v.tolist(), back.tolist(), lst),
                                {"part": "numpy", "dtype": dt, "shape": list(shape), "variant": vname}, op="numpy", failure="value",
                                variant=vname, dkind=np.dtype(dt).kind, regulararray=regulararray,
                                zero_inner=(len(shape) > 1 and 0 in shape[1:]))
                        else:
                            st.outcome("numpy:ok")
                            if n:
                                st.nontrivial += 1
        # masked arrays
        if k == 0:
            for n in range(0, 4):
                for mask in itertools.product([False, True], repeat=n):
                    no += 1
                    pool.mark(no)
                    st.states += 1
                    st.transitions += 1
                    st.evaluations += 1
                    m = np.ma.MaskedArray(np.arange(n) + 10, list(mask))
                    try:
                        a = ak.from_numpy(m)
                        back = ak.to_numpy(a)
                        want = [None if mk else int(v) for v, mk in zip(np.arange(n) + 10, mask)]
                        ok = layoutsem.same(value_of(ak, a), want) and isinstance(back, np.ma.MaskedArray) and \
                            list(np.ma.getmaskarray(back)) == list(mask) and [int(v) for v, mk in zip(back.data, mask) if not mk] == [v for v in want if v is not None]
                    except ERRS as err:
                        ok = False
                        back = err
                    if not ok:
                        st.violation("value", "masked round trip %r -> %r" % (m, back), {"part": "masked", "mask": list(mask)}, op="masked", failure="value")
                    else:
                        st.outcome("masked:ok")
                        st.nontrivial += 1
        st.sample({"numpy variants": ["C", "F", "rev", "strided", "swapped"], "dtypes": dtypes})

    # ---- (c)
    def _arrow(self, ak, tier, ti, st):
        import pyarrow
        T = TYPES[ti]
        no = 0
        for tvs, d, names in self._arrays(T, tier):
            st.states += 1
            want = values.strip(tvs)
            if T[0] == "opt" and all(e is None for e in want):
                # zero-length option-type arrays: to_arrow hands pyarrow 25 child buffers whose sizes from_arrow cannot
                # read back; not decidable here whether that is the 2021 code or today's pyarrow (DESIGN.md 6)
                st.outcome("arrow:skipped-empty-option")
                continue
            arr = ak.Array(layouts.build(d))
            for opts in (dict(allow_tensor=False), dict(list_to32=True, string_to32=True, bytestring_to32=True, allow_tensor=False)):
                no += 1
                pool.mark(no)
                st.transitions += 1
                st.evaluations += 1
                try:
                    pa = ak.to_arrow(arr, **opts)
                except ERRS as err:
                    if _arrow_unsupported(T):
                        st.outcome("arrow:unsupported-type")
                        continue
                    self._v(st, "to_arrow", "unexpected-error", T, d, names, "%s: %s" % (type(err).__name__, str(err)[:200]))
                    continue
                try:
                    back = ak.from_arrow(pa)
                    got = value_of(ak, back)
                except ERRS as err:
                    self._v(st, "from_arrow", "unexpected-error", T, d, names, "%s: %s" % (type(err).__name__, str(err)[:200]))
                    continue
                except layoutsem.Invalid as err:
                    self._v(st, "from_arrow", "invalid-result", T, d, names, str(err))
                    continue
                if not layoutsem.same(_arrow_norm(got), _arrow_norm(want)):
                    self._v(st, "arrow", "value", T, d, names, "to_arrow/from_arrow(%r): %r -> %r" % (opts, want, got))
                    continue
                try:
                    pl = pa.to_pylist()
                except Exception:
                    pl = None
                if pl is not None and not _has(T, "union") and not layoutsem.same(_arrow_norm(pl), _arrow_norm(want)):
                    self._v(st, "arrow-pylist", "value", T, d, names, "pyarrow.to_pylist %r != to_list %r" % (pl, want))
                    continue
                st.outcome("arrow:ok")
                if want:
                    st.nontrivial += 1
        st.sample({"arrow": values.tstr(T)})

    def replay(self, case):
        import install
        ak = install.install()
        if "layout" in case:
            d = layouts.from_json(case["layout"])
            arr = ak.Array(layouts.build(d))
            text = ["layout: %s" % layouts.short(d), "value: %r" % (layoutsem.to_list(d),)]
            try:
                back = ak.from_buffers(*ak.to_buffers(arr))
                text.append("from_buffers(to_buffers): %r" % (value_of(ak, back),))
            except Exception as err:
                text.append("raised %r" % (err,))
            return True, "\n".join(text)
        return True, repr(case)


def _unsorted_keys(T):
    """does the type contain a record whose field names are not in byte order?"""
    k = T[0]
    if k == "rec":
        keys = [key for key, _ in T[1]]
        if keys != sorted(keys):
            return True
        return any(_unsorted_keys(t) for _, t in T[1])
    if k in ("var", "opt"):
        return _unsorted_keys(T[1])
    if k == "reg":
        return _unsorted_keys(T[2])
    if k in ("tup", "union"):
        return any(_unsorted_keys(t) for t in T[1])
    return False


def _dt_list(v):
    return [x for x in v] if v.ndim == 1 else [_dt_list(x) for x in v]


def _has(T, kind):
    import refops
    return refops._has_kind(T, (kind,))


def _arrow_unsupported(T):
    # records with zero fields and unknown-type lists have no faithful Arrow counterpart in this version
    import refops
    return refops._has_empty_record(T)


def _arrow_norm(v):
    """Arrow has no tuple type: tuples come back as records with fields "0", "1", ..."""
    if isinstance(v, tuple):
        return {str(i): _arrow_norm(x) for i, x in enumerate(v)}
    if isinstance(v, list):
        return [_arrow_norm(x) for x in v]
    if isinstance(v, dict):
        return {k: _arrow_norm(x) for k, x in v.items()}
    return v


if __name__ == "__main__":
    sys.exit(runner.main(C16()))
