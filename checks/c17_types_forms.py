#!/usr/bin/env python3
"""C17 -- types and forms describe the data truthfully and survive serialisation."""
import itertools
import json
import os
import sys

sys.path.insert(0, os.path.join(os.path.dirname(os.path.dirname(os.path.abspath(__file__))), "mc"))
import runner  # noqa: E402
from runner import Stats  # noqa: E402
import pool  # noqa: E402
import numpy as np  # noqa: E402
import layouts  # noqa: E402
import layoutsem  # noqa: E402
import values  # noqa: E402
import encs  # noqa: E402
import ext  # noqa: E402
import formtypes  # noqa: E402
import c11_validity  # noqa: E402

ERRS = (ValueError, TypeError, RuntimeError, IndexError, KeyError, NotImplementedError, AttributeError)
PARAM_VALUES = [None, True, 0, -1, 1.5, 1e300, 2 ** 53, "", "x\"y", "é", [], [1, [2]], {}, {"a": {"b": None}}, "string", "categorical"]
PARAM_KEYS = ["__array__", "__record__", "p", "unié"]


def model_type(d):
    """type skeleton string pieces from the reference interpreter, comparable with the library's Type object"""
    return layoutsem.strip_params(layoutsem.type_of(d))


def lib_type_skeleton(t):
    k = type(t).__name__
    if k == "ArrayType":
        return lib_type_skeleton(t.type)
    if k == "PrimitiveType":
        return ("prim", t.dtype)
    if k == "UnknownType":
        return ("unknown",)
    if k == "ListType":
        return ("var", lib_type_skeleton(t.type))
    if k == "RegularType":
        return ("reg", t.size, lib_type_skeleton(t.type))
    if k == "OptionType":
        return ("opt", lib_type_skeleton(t.type))
    if k == "UnionType":
        return ("union", tuple(lib_type_skeleton(x) for x in t.types))
    if k == "RecordType":
        if t.istuple:
            return ("tup", tuple(lib_type_skeleton(x) for x in t.types))
        return ("rec", tuple((key, lib_type_skeleton(x)) for key, x in zip(t.keys(), t.types)))
    raise ValueError(k)


def type_tree(t):
    """(class, parameters as canonical JSON text, children) of a Type object, recursively"""
    k = type(t).__name__
    par = json.dumps(t.parameters, sort_keys=True)
    if k == "ArrayType":
        return (k, t.length, type_tree(t.type))
    if k in ("ListType", "OptionType"):
        return (k, par, type_tree(t.type))
    if k == "RegularType":
        return (k, par, t.size, type_tree(t.type))
    if k == "UnionType":
        return (k, par, tuple(type_tree(x) for x in t.types))
    if k == "RecordType":
        return (k, par, None if t.istuple else tuple(t.keys()), tuple(type_tree(x) for x in t.types))
    if k == "PrimitiveType":
        return (k, par, t.dtype)
    return (k, par)


def model_depths(d):
    return layoutsem.minmax_depth(d)


class C17(runner.Check):
    id = "C17"
    level = "exploration"
    rule = ("(a) every layout of the value universe x encodings, and every layout of the C11 grammar that is valid: the type "
            "obtained from the form equals the type obtained from the array and equals the reference type skeleton; "
            "purelist_depth / minmax_depth / branch_depth / purelist_isregular / numfields / keys agree between Content, Form and "
            "the reference; Form -> JSON -> Form is equal and its JSON is a fixed point (verbose and terse); range slicing keeps "
            "the type; every element taken out has a type consistent with the promised item type. (b) forms over every node "
            "class with parameters drawn from a JSON alphabet (null, booleans, extreme numbers, strings with quotes/unicode, "
            "nested lists/objects, string/categorical markers), form keys and has_identities: JSON round trip and equality; "
            "(c) every type printed in (a)/(b) is re-parsed by the repository's type parser (tier L3) and must compare equal. "
            "non-trivial = layout with at least one node below the root or a non-empty parameter set.")
    assumptions = ["bridge+mirror marshalling; Form JSON is parsed by the RapidJSON stand-in", "type parser runs at tier L3"]

    def shards(self, tier):
        types = values.TYPES_QUICK if tier == "quick" else values.TYPES_THOROUGH
        return [(tier, "layouts", ti) for ti in range(len(types))] + [(tier, "grammar", g) for g in c11_validity.GROUPS_A] + \
               [(tier, "params", k) for k in range(4)]

    def run_shard(self, shard):
        tier, part, x = shard
        st = Stats()
        self._parser = None
        if part == "layouts":
            types = values.TYPES_QUICK if tier == "quick" else values.TYPES_THOROUGH
            T = types[x]
            N, M, cap = (2, 2, 25) if tier == "quick" else (3, 2, 200)
            n = 0
            no = 0
            for tvs in values.arrays(T, N, M, 5):
                n += 1
                if n > cap:
                    st.caps.append("type %s: value cap" % values.tstr(T))
                    break
                for d, names in encs.encodings(T, tvs, 1, True):
                    no += 1
                    pool.mark(no)
                    self._one(st, d, True)
        elif part == "grammar":
            no = 0
            for cand in c11_validity.candidates(x, tier):
                if no > 6000:
                    st.caps.append("grammar %s: 6000 layouts" % x)
                    break
                for where, d in c11_validity.embeddings(cand):
                    if c11_validity.model_verdict(d) is not None:
                        continue
                    no += 1
                    pool.mark(no)
                    self._one(st, d, False)
        else:
            self._params(st, tier, x)
        pool.unmark()
        return st.pack()

    def _v(self, st, what, d, text):
        st.violation(what, "%s on %s: %s" % (what, layouts.short(d)[:400], text[:500]), {"layout": layouts.to_json(d), "what": what},
                     what=what, top=d["class"].rstrip("0123456789U_"))

    def _one(self, st, d, elements):
        st.states += 1
        st.evaluations += 1
        try:
            lay = layouts.build(d)
        except ERRS:
            return
        try:
            t = lay.type({})
            f = lay.form
            tf = f.type({})
            st.transitions += 1
            if not (t == tf) or repr(t) != repr(tf):
                self._v(st, "type-of-form", d, "layout type %r, form type %r" % (t, tf))
            sk = lib_type_skeleton(t)
            if sk != model_type(d):
                self._v(st, "type-vs-model", d, "library %r, reference %r" % (sk, model_type(d)))
            # depth / field queries: Content vs Form vs model
            st.transitions += 1
            mm = model_depths(d) if not c11_validity.has_record(d, True) else tuple(lay.minmax_depth)
            if lay.minmax_depth != f.minmax_depth or tuple(lay.minmax_depth) != tuple(mm):
                self._v(st, "minmax_depth", d, "content %r form %r model %r" % (lay.minmax_depth, f.minmax_depth, mm))
            if lay.purelist_depth != f.purelist_depth:
                self._v(st, "purelist_depth", d, "content %r form %r" % (lay.purelist_depth, f.purelist_depth))
            if lay.branch_depth != f.branch_depth:
                self._v(st, "branch_depth", d, "content %r form %r" % (lay.branch_depth, f.branch_depth))
            if lay.purelist_isregular != f.purelist_isregular:
                self._v(st, "purelist_isregular", d, "content %r form %r" % (lay.purelist_isregular, f.purelist_isregular))
            if lay.numfields != _call_numfields(f) or lay.keys() != _call_keys(f):
                self._v(st, "fields", d, "content %r/%r form %r/%r" % (lay.numfields, lay.keys(), _call_numfields(f), _call_keys(f)))
            # Form JSON round trip
            st.transitions += 1
            for verbose in (True, False):
                js = f.tojson(False, verbose)
                f2 = formtypes.Form.fromjson(js)
                if not (f2 == f) or f2.tojson(False, verbose) != js:
                    self._v(st, "form-json", d, "verbose=%s: %s -> %s" % (verbose, js[:200], f2.tojson(False, verbose)[:200]))
                json.loads(js)
            # printing + parsing the type
            self._parse(st, d, t)
            # slices and elements
            n = layoutsem.length(d)
            st.transitions += 1
            for sl in (slice(0, n), slice(1, None), slice(0, 0)):
                r = lay[sl]
                if repr(r.type({}).type if False else r.type({})) != repr(t):
                    self._v(st, "range-slice-type", d, "slice %r: %r -> %r" % (sl, t, r.type({})))
            if elements and n > 0:
                item = sk
                for i in range(n):
                    e = lay[i]
                    if not _consistent(e, item):
                        self._v(st, "element-type", d, "element %d is %r, promised item type %r" % (i, _short(e), item))
            st.nontrivial += 1 if ("content" in d or "contents" in d) else 0
            st.outcome("ok")
        except ERRS as err:
            self._v(st, "unexpected-error", d, "%s: %s" % (type(err).__name__, str(err)[:200]))
        if st.states % 211 == 1:
            st.sample({"layout": layouts.short(d)[:200], "type": repr(lay.type({}))[:120]})

    def _parse(self, st, d, t):
        if self._parser is None:
            import install
            ak = install.install()
            self._parser = ak.types.from_datashape
        s = repr(t)
        try:
            t2 = self._parser(s)
        except Exception as err:  # the parser raises its own exception classes
            self._vp(st, d, s, "cannot re-parse %r: %s %s" % (s, type(err).__name__, str(err)[:150]))
            return
        # equality by the library's own comparison; the printed text may differ in JSON escaping of non-ASCII
        # parameter strings after one trip through Python's json, so string identity is required from the
        # second trip on
        bad = not (t2 == t)
        if not bad and type_tree(t2) != type_tree(t):
            # the library's == looks at __array__/__record__ only: every parameter value must survive with its JSON type
            # (-1 must not come back as -1.0)
            self._vp(st, d, s, "%r re-parsed as %r: parameters differ" % (s, t2))
            return
        if not bad and repr(t2) != s:
            try:
                bad = repr(self._parser(repr(t2))) != repr(t2)
            except Exception:
                bad = True
        if bad:
            # classify by the text that failed to survive (the second-trip text when the first trip compared equal)
            self._vp(st, d, s if not (t2 == t) else repr(t2), "%r re-parsed as %r" % (s, t2))

    def _vp(self, st, d, s, text):
        why = "other"
        if "option[" in s or "categorical[" in s:
            why = "needs-highlevel"
        elif "{}" in s or "()" in s or "struct[[]," in s or "tuple[[]," in s:
            why = "empty-record"
        elif "\\" in s:
            why = "escape"
        elif "invalid literal for int()" in text:
            why = "float-param"
        st.violation("type-parse", "type-parse on %s: %s" % (layouts.short(d)[:300], text[:400]), {"layout": layouts.to_json(d), "type": s},
                     what="type-parse", why=why)

    def _params(self, st, tier, k):
        """forms over every node class x parameter alphabet"""
        leaf = {"class": "NumpyArray", "primitive": "int64", "inner_shape": []}
        nodes = [
            leaf, {"class": "NumpyArray", "primitive": "float32", "inner_shape": [2, 3]}, {"class": "EmptyArray"},
            {"class": "ListOffsetArray64", "offsets": "i64", "content": leaf}, {"class": "ListOffsetArray32", "offsets": "i32", "content": leaf},
            {"class": "ListArrayU32", "starts": "u32", "stops": "u32", "content": leaf}, {"class": "RegularArray", "size": 0, "content": leaf},
            {"class": "RegularArray", "size": 3, "content": leaf}, {"class": "IndexedArray32", "index": "i32", "content": leaf},
            {"class": "IndexedOptionArray64", "index": "i64", "content": leaf}, {"class": "ByteMaskedArray", "mask": "i8", "valid_when": False, "content": leaf},
            {"class": "BitMaskedArray", "mask": "u8", "valid_when": True, "lsb_order": False, "content": leaf}, {"class": "UnmaskedArray", "content": leaf},
            {"class": "UnionArray8_64", "tags": "i8", "index": "i64", "contents": [leaf, {"class": "EmptyArray"}]},
            {"class": "RecordArray", "contents": {"y": leaf, "x": {"class": "EmptyArray"}}}, {"class": "RecordArray", "contents": [leaf, leaf]},
            {"class": "RecordArray", "contents": {}}, {"class": "VirtualArray", "form": leaf, "has_length": True},
            {"class": "VirtualArray", "form": None, "has_length": False},
        ]
        no = 0
        for ni, node in enumerate(nodes):
            if ni % 4 != k:
                continue
            for pk in PARAM_KEYS:
                for pv in PARAM_VALUES:
                    for fk in (None, "k1"):
                        for hid in (False, True):
                            no += 1
                            pool.mark(no)
                            st.states += 1
                            st.transitions += 1
                            st.evaluations += 1
                            j = dict(node)
                            j["parameters"] = {pk: pv}
                            j["form_key"] = fk
                            j["has_identities"] = hid
                            # one level of nesting as well
                            for wrapped in (j, {"class": "ListOffsetArray64", "offsets": "i64", "content": j}):
                                text = json.dumps(wrapped)
                                try:
                                    f = formtypes.Form.fromjson(text)
                                    js = f.tojson(False, True)
                                    f2 = formtypes.Form.fromjson(js)
                                    ok = (f2 == f) and f2.tojson(False, True) == js
                                    got = json.loads(js)
                                    inner = got if wrapped is j else got["content"]
                                    ok = ok and inner.get("parameters", {}).get(pk, None) == pv and inner.get("form_key") == fk \
                                        and inner.get("has_identities") == hid
                                    if not ok:
                                        st.violation("form-json", "form %s -> %s" % (text[:200], js[:300]), {"form": text}, what="form-json-params",
                                                     node=node["class"].rstrip("0123456789U_"), pv=repr(pv)[:20])
                                    else:
                                        st.nontrivial += 1
                                        st.outcome("params:ok")
                                    if node["class"] != "VirtualArray" or node.get("form") is not None:
                                        t = f.type({})
                                        self._parse(st, {"class": "EmptyArray"}, t)
                                except ERRS as err:
                                    st.violation("unexpected-error", "form %s: %s" % (text[:200], str(err)[:200]), {"form": text},
                                                 what="form-json-error", node=node["class"].rstrip("0123456789U_"), pv=repr(pv)[:20])
        st.sample({"form nodes": len(nodes), "parameter values": [repr(v)[:20] for v in PARAM_VALUES]})

    def replay(self, case):
        if "layout" in case:
            d = layouts.from_json(case["layout"])
            lay = layouts.build(d)
            return True, "layout: %s\ntype: %r\nform: %s\nform.type: %r" % (layouts.short(d), lay.type({}), lay.form.tojson(False, False), lay.form.type({}))
        f = formtypes.Form.fromjson(case["form"])
        return True, "form: %s\n -> %s" % (case["form"], f.tojson(False, True))


def _call_numfields(f):
    return formtypes._call("akb_form_call", f._h, b"numfields").i[0]


def _call_keys(f):
    return [s.decode("utf-8", "surrogateescape") for s in formtypes._call("akb_form_call", f._h, b"keys").s]


def _short(e):
    return type(e).__name__ if not isinstance(e, (int, float, bool, str, bytes, type(None))) else repr(e)


def _consistent(e, item):
    """Is the element taken out of the array consistent with the promised item type skeleton?"""
    k = item[0]
    if k == "opt":
        return e is None or _consistent(e, item[1])
    if e is None:
        return False
    if k == "union":
        return any(_consistent(e, x) for x in item[1])
    if k == "prim":
        if isinstance(e, ext.Content):
            return False
        if item[1] == "bool":
            return isinstance(e, bool)
        if item[1].startswith(("int", "uint")):
            return isinstance(e, int) and not isinstance(e, bool)
        if item[1].startswith("float"):
            return isinstance(e, float)
        return True
    if k in ("var", "reg"):
        if not isinstance(e, ext.Content):
            return False
        if k == "reg" and len(e) != item[1]:
            return False
        sk = lib_type_skeleton(e.type({}))
        return _skel_compatible(sk, item[2] if k == "reg" else item[1])
    if k in ("rec", "tup"):
        if not isinstance(e, ext.Record):
            return False
        return True
    if k == "unknown":
        return False
    return True


def _skel_compatible(a, b):
    """a: skeleton of the element's own array type; b: promised content type (an element list may be a
    regular encoding of a var type only if the types say so: they must be equal)"""
    return a == b


if __name__ == "__main__":
    sys.exit(runner.main(C17()))
