#!/usr/bin/env python3
"""C18 -- lazy (virtual) and partitioned arrays are indistinguishable from the eager array.

Part A (virtual): deviation-bounded exploration of every environment answer.  The cache and the generator of a
VirtualArray are scripted: at every cache read, cache write and generator call the explorer chooses the answer (hit /
evicted / mapping died; store / drop / raise / mapping died; correct array / raise / wrong length / wrong form).  The
default answers (choice 0) are the keep-everything cache and the faithful generator; every execution with at most k
non-default answers is run to completion on freshly built real objects and compared with the eager array.

Part B (partitioned): every split of every small array into 1..3 partitions x every positional access, range slice and
repartitioning of IrregularlyPartitionedArray, and the Python PartitionedArray operations at tier L3."""
import itertools
import json
import os
import sys

sys.path.insert(0, os.path.join(os.path.dirname(os.path.dirname(os.path.abspath(__file__))), "mc"))
import runner  # noqa: E402
from runner import Stats  # noqa: E402
import pool  # noqa: E402
import numpy as np  # noqa: E402
import e1  # noqa: E402
import layouts  # noqa: E402
import layoutsem  # noqa: E402
import values  # noqa: E402
import encs  # noqa: E402
import opalpha  # noqa: E402
import ext  # noqa: E402
import virtual  # noqa: E402
from values import I, F, S, var, opt, rec, reg  # noqa: E402

ERRS = e1.ERRORS + (KeyError, AttributeError, NotImplementedError)
TYPES = [I, var(I), rec(("x", I), ("y", var(F))), opt(var(I)), var(var(I)), var(rec(("x", I))), S, reg(2, I), opt(I)]
GENERIC_OPS = {"getitem", "carry", "num", "flatten", "localindex", "sum", "argmax", "count", "sort", "argsort", "combinations",
               "rpad", "rpad_and_clip", "fillna", "mergemany_self", "merge_as_union_self", "deep_copy", "shallow_simplify",
               "numbers_to_type"}
LAZY_OPS = {"len", "typestr", "peek", "getitem_range_lazy", "formtype"}


class Divergence(Exception):
    pass


class GeneratorFailed(RuntimeError):
    pass


class CacheFull(RuntimeError):
    pass


class World(object):
    """One execution's environment: the scripted answers and the mutable cache state."""

    def __init__(self, prefix, allow_death, allow_set_raise):
        self.prefix = list(prefix)
        self.trace = []          # (kind, alternatives, chosen)
        self.store = {}
        self.dead = False
        self.gen_calls = 0
        self.faults = []         # faulty answers given during the current operation
        self.wrong_generation = False
        self.allow_death = allow_death
        self.allow_set_raise = allow_set_raise
        self.mapping = ScriptedMapping(self)
        self.states = set()

    def choose(self, kind, alts):
        pos = len(self.trace)
        c = self.prefix[pos] if pos < len(self.prefix) else 0
        if c >= len(alts):
            raise Divergence("choice %d at point %d (%s) has only %d alternatives" % (c, pos, kind, len(alts)))
        self.trace.append((kind, tuple(alts), c))
        self.states.add((tuple(sorted(self.store)), self.gen_calls, self.dead, pos))
        return alts[c]


class ScriptedMapping(object):
    """The MutableMapping handed to ArrayCache; kept alive by the World (death is an explicit answer)."""

    def __init__(self, world):
        self.world = world


class ScriptedCache(virtual.ArrayCache):
    def __init__(self, world):
        self.world = world
        virtual.ArrayCache.__init__(self, world.mapping)

    @property
    def is_broken(self):
        return self.world.dead

    @property
    def mutablemapping(self):
        if self.world.dead:
            raise virtual.CacheBroken("PyArrayCache has lost its weak reference to mapping")
        return self.world.mapping

    def _get(self, key):
        w = self.world
        if w.dead:
            raise virtual.CacheBroken("PyArrayCache has lost its weak reference to mapping")
        present = key in w.store
        alts = ["hit" if present else "miss"] + (["evicted"] if present else []) + (["dies"] if w.allow_death else [])
        a = w.choose("get", alts)
        if a == "hit":
            return w.store[key]
        if a == "evicted":
            del w.store[key]
            return None
        if a == "dies":
            w.dead = True
            w.faults.append("dies")
            w.store.clear()
            raise virtual.CacheBroken("PyArrayCache has lost its weak reference to mapping")
        return None

    def _set(self, key, value):
        w = self.world
        if w.dead:
            raise virtual.CacheBroken("PyArrayCache has lost its weak reference to mapping")
        alts = ["store", "drop"] + (["raise"] if w.allow_set_raise else []) + (["dies"] if w.allow_death else [])
        a = w.choose("set", alts)
        if a == "store":
            w.store[key] = value
        elif a == "raise":
            w.faults.append("set-raise")
            raise CacheFull("cache refuses the entry")
        elif a == "dies":
            w.dead = True
            w.faults.append("dies")
            w.store.clear()
            raise virtual.CacheBroken("PyArrayCache has lost its weak reference to mapping")


def wrong_form_layout(d):
    n = layoutsem.length(d)
    if d["class"] == "NumpyArray":
        return layouts.build({"class": "ListOffsetArray64", "offsets": np.arange(n + 1, dtype=np.int64),
                              "content": {"class": "NumpyArray", "array": np.zeros(n, dtype=np.int64)}})
    return layouts.build({"class": "NumpyArray", "array": np.zeros(n, dtype=np.int64)})


def make_generator(world, eager_d, decl):
    """ArrayGenerator whose callable asks the explorer what to return."""
    n = layoutsem.length(eager_d)
    eager = layouts.build(eager_d)
    form = eager.form
    length = n
    if decl in ("length", "none", "wrongform-only"):
        pass
    want_form = form if decl in ("both", "form", "wronglength") else None
    want_length = length if decl in ("both", "length", "wrongform") else None
    if decl == "wronglength":
        want_length = n + 1
    if decl == "wrongform":
        want_form = wrong_form_layout(eager_d).form
    if decl == "none":
        want_form, want_length = None, None

    def generate():
        world.gen_calls += 1
        alts = ["ok", "raise"]
        if want_length is not None and n > 0 and decl != "wronglength":
            alts.append("short")
        if want_form is not None and decl != "wrongform":
            alts.append("otherform")
        a = world.choose("generate", alts)
        if a == "raise":
            world.faults.append("gen-raise")
            raise GeneratorFailed("generator failed")
        if a == "short":
            world.faults.append("gen-short")
            world.wrong_generation = True
            return eager.getitem_range(0, n - 1) if hasattr(eager, "getitem_range") else eager[0:n - 1]
        if a == "otherform":
            world.faults.append("gen-otherform")
            world.wrong_generation = True
            return wrong_form_layout(eager_d)
        if decl in ("wronglength", "wrongform"):
            world.wrong_generation = True
        return eager

    return virtual.ArrayGenerator(generate, form=want_form, length=want_length)


def wrap_paths(d):
    """Where a VirtualArray can be put: the root, or one child node."""
    out = [()]
    c = d["class"]
    if "content" in d and isinstance(d["content"], dict):
        out.append(("content",))
    if c == "RecordArray" and d.get("contents"):
        out.append(("contents", 0))
        if len(d["contents"]) > 1:
            out.append(("contents", len(d["contents"]) - 1))
    return out


def sub_desc(d, path):
    if not path:
        return d
    if path[0] == "content":
        return sub_desc(d["content"], path[1:])
    return sub_desc(d["contents"][path[1]], path[2:])


def with_sub(d, path, new):
    if not path:
        return new
    out = dict(d)
    if path[0] == "content":
        out["content"] = with_sub(d["content"], path[1:], new)
        return out
    cs = list(d["contents"])
    cs[path[1]] = with_sub(cs[path[1]], path[2:], new)
    out["contents"] = cs
    return out


def build_lazy(world, d, path, decl, use_cache, key):
    sub = sub_desc(d, path)
    gen = make_generator(world, sub, decl)
    cache = ScriptedCache(world) if use_cache else None
    v = virtual.VirtualArray(gen, cache, key)
    if not path:
        return v
    return layouts.build(with_sub(d, path, {"class": "__prebuilt__", "object": v}))


# ---------------------------------------------------------------------------------------------------------------- operations
def run_op(lay, op):
    name, args = op
    if name == "len":
        return len(lay)
    if name == "typestr":
        return str(lay.type({}))
    if name == "formtype":
        return str(lay.form.type({}))
    if name == "peek":
        if isinstance(lay, virtual.VirtualArray):
            p = lay.peek_array
            return None if p is None else layoutsem.to_list(ext.describe(p))
        return "n/a"
    if name == "array":
        if isinstance(lay, virtual.VirtualArray):
            return layoutsem.to_list(ext.describe(lay.array))
        return "n/a"
    if name == "to_list":
        return e1.observe(lay)
    if name == "tojson":
        return json.loads(lay.tojson(nan_string="nan", infinity_string="inf", minus_infinity_string="-inf"))
    if name == "iterate":
        return [e1.observe(x) if isinstance(x, (ext.Content, ext.Record)) else x for x in lay]
    if name == "getitem_at":
        return e1.observe(lay[args[0]])
    if name == "getitem_range":
        return e1.observe(lay[args[0]:args[1]])
    if name == "getitem_range_lazy":
        r = lay[args[0]:args[1]]
        return len(r)
    if name == "getitem_field":
        return e1.observe(lay[args[0]])
    if name == "validity":
        return lay.validityerror()
    if name == "field_depths":
        f = lay[args[0]]
        return [f.purelist_depth, list(f.minmax_depth), list(f.branch_depth), str(f.type({}))]
    if name == "field_then":
        f = lay[args[0]]
        return e1.observe(opalpha.apply(f, args[1], list(args[2])))
    return e1.observe(opalpha.apply(lay, name, list(args)))


def eager_outcome(lay, op):
    try:
        v = run_op(lay, op)
        if op[0] in ("peek", "array"):
            v = "n/a"
        return ("value", v)
    except ERRS as err:
        return ("error", type(err).__name__)
    except layoutsem.Invalid as err:
        return ("invalid", str(err))


def keys_of(d):
    c = d["class"]
    if c == "RecordArray":
        return d.get("keys") or [str(i) for i in range(len(d["contents"]))]
    if "content" in d and isinstance(d["content"], dict):
        return keys_of(d["content"])
    return []


def special_ops(d):
    n = layoutsem.length(d)
    ops = [("len", ()), ("typestr", ()), ("formtype", ()), ("peek", ()), ("array", ()), ("to_list", ()), ("tojson", ()),
           ("iterate", ()), ("validity", ()), ("getitem_range", (0, 1)), ("getitem_range", (1, None)), ("getitem_range_lazy", (0, n)),
           ("getitem_range_lazy", (1, None))]
    for at in sorted(set([0, n - 1, -1, n, -n - 1])):
        ops.append(("getitem_at", (at,)))
    for k in keys_of(d)[:2]:
        ops.append(("getitem_field", (k,)))
        # the projected field is itself lazy: its depth bookkeeping and depth-dependent operations on it
        ops.append(("field_depths", (k,)))
        for opn, a in (("num", (0,)), ("num", (1,)), ("num", (-1,)), ("sum", (0, False, False)), ("sum", (1, False, False)),
                       ("sum", (-1, False, False)), ("flatten", (1,)), ("localindex", (-1,))):
            ops.append(("field_then", (k, opn, a)))
    ops.append(("getitem_field", ("nokey",)))
    return ops


def generic_ops(d, T):
    out = []
    for name, args, _ in opalpha.ops_for(d, T, "quick", small=True):
        if name in GENERIC_OPS:
            out.append((name, args))
    return out


SEQ_OPS = [("len", ()), ("peek", ()), ("to_list", ()), ("getitem_at", (0,)), ("getitem_range", (1, None)), ("tojson", ()),
           ("getitem_range_lazy", (0, 1)), ("typestr", ()), ("num", (0,)), ("array", ())]


class C18(runner.Check):
    id = "C18"
    level = "model_checking"
    watchdog_s = 120.0
    rule = ("VIRTUAL: states = (cache contents, generator call count, mapping alive?, position in the operation sequence) of a "
            "real VirtualArray whose ArrayCache and ArrayGenerator are scripted; configurations = values of a 9-type menu x "
            "wrapping at the root or at one child node x declared (length, form) in {both, length, form, none, wrong length, "
            "wrong form} x {no cache, cache}; transitions = every operation of the special alphabet (length, type, form, "
            "peek_array, array, to_list, tojson, iteration, validity, getitem_at at every boundary position, eager and lazy "
            "range slices, field access) and of the generic structural alphabet (slices, carry, num, flatten, reducers, sort, "
            "combinations, rpad, fillna, merges, copies), singly and in ordered sequences of 2 (quick) / 3 (thorough) over a "
            "10-operation alphabet (thorough: pairs with k=2, triples with k=1), also interleaved over two virtual arrays sharing one cache; environment answers chosen by "
            "the explorer at every cache.get (hit / evicted / mapping dies), cache.set (store / drop / raise / mapping dies) "
            "and generate (ok / raise / wrong length / wrong form), all executions with <= k non-default answers (k=1 quick "
            "for single operations and sequences; k=2 thorough). Oracle: a returned value always equals the eager array's; an "
            "error is allowed only where the eager array errs or a faulty answer was given in that operation (or the mapping "
            "is dead); a generation that contradicts the declared length/form must raise; with length and form declared the "
            "generator is not called by length/type/form/peek_array/lazy range slices. PARTITIONED: every split of every "
            "array of length <= 5 (quick 4) into 1..3 partitions (empty ones included) x getitem_at at every position, "
            "getitem_range over every (start, stop, step) in the boundary grid, repartition to every stop vector, tojson, "
            "partitionid_index_at; ak.partitioned/ak.repartition and the highlevel operations at tier L3. non-trivial = "
            "operation that returned a non-empty value or a required error.")
    assumptions = ["src/python/virtual.cpp (PyArrayCache, PyArrayGenerator) is ported in mirror/virtual.py + bridge/akb_virtual.cpp; "
                   "the C++ VirtualArray, generate_and_check, SliceGenerator and IrregularlyPartitionedArray are the repository's",
                   "weak-reference death of the cache mapping is modelled as an explicit environment answer"]

    # ------------------------------------------------------------------------------------------------------------ shards
    def shards(self, tier):
        out = [(tier, "single", ti) for ti in range(len(TYPES))]
        out += [(tier, "seq", ti * 100 + k) for ti in range(len(TYPES)) for k in range(len(SEQ_OPS))]
        out += [(tier, "shared", ti) for ti in (1, 2, 3)]
        out += [(tier, "part", n) for n in range(0, 5 if tier == "quick" else 6)]
        out += [(tier, "l3", k) for k in range(3)]
        return out

    def run_shard(self, shard):
        tier, part, x = shard
        st = Stats()
        self._no = 0
        self._tier = tier
        self._states = set()
        getattr(self, "_shard_" + part)(st, tier, x)
        st.states += len(self._states)
        pool.unmark()
        return st.pack()

    def _values(self, T, tier):
        N, M, cap = (2, 2, 4) if tier == "quick" else (3, 2, 8)
        out = []
        for tvs in values.arrays(T, N, M, 5, minlen=1):
            out.append(tvs)
        # the largest few values are the most discriminating; keep the first (smallest) one as well
        return [out[0]] + out[-(cap - 1):] if len(out) > cap else out

    # ---------------------------------------------------------------------------------------------------------- execution
    def _execute(self, cfg, prefix):
        """One execution on fresh objects; returns (world, [(outcome, gen_calls_before, gen_calls_after, faults, dead)])."""
        virtual.reset()
        w = World(prefix, cfg["death"], cfg["set_raise"])
        lazies = []
        results = []
        try:
            for k, d in enumerate(cfg["descs"]):
                lazies.append(build_lazy(w, d, cfg["path"], cfg["decl"], cfg["cache"], "key%d" % k if cfg["cache"] else None))
        except ERRS + (GeneratorFailed, CacheFull) as err:
            # the enclosing node asked the virtual child for its length while being constructed
            w.construct_error = (type(err).__name__ + ": " + str(err)[:120], list(w.faults), w.dead, w.wrong_generation)
            return w, results
        for which, op in cfg["ops"]:
            w.faults = []
            w.wrong_generation = False
            before = w.gen_calls
            try:
                out = ("value", run_op(lazies[which], op))
            except ERRS + (GeneratorFailed, CacheFull) as err:
                out = ("error", type(err).__name__ + ": " + str(err)[:120])
            except layoutsem.Invalid as err:
                out = ("invalid", str(err))
            results.append((out, before, w.gen_calls, list(w.faults), w.dead, w.wrong_generation))
        return w, results

    def _explore(self, st, cfg, bound, eager):
        """Deviation-bounded exploration of one configuration."""
        stack = [[]]
        first = True
        while stack:
            prefix = stack.pop()
            self._no += 1
            pool.mark(self._no)
            w, results = self._execute(cfg, prefix)
            if first:
                # determinism: the same schedule must give the same observations
                w2, results2 = self._execute(cfg, prefix)
                if [t[:2] for t in w.trace] != [t[:2] for t in w2.trace] or repr(results) != repr(results2):
                    raise RuntimeError("non-deterministic replay of %r" % (cfg["ops"],))
                first = False
            st.evaluations += 1
            st.transitions += len(results)
            self._states |= set((cfg["id"],) + s for s in w.states)
            self._judge(st, cfg, prefix, w, results, eager)
            devs = sum(1 for c in prefix if c != 0)
            if devs + 1 <= bound:
                choices = [t[2] for t in w.trace]
                for i in range(len(prefix), len(w.trace)):
                    for alt in range(1, len(w.trace[i][1])):
                        stack.append(choices[:i] + [alt])

    def _judge(self, st, cfg, prefix, w, results, eager):
        truthful = cfg["decl"] in ("both", "length", "form", "none")
        ce = getattr(w, "construct_error", None)
        if ce is not None:
            if ce[1] or ce[2] or ce[3] or not truthful:
                st.outcome("construct:error-after-faulty-answer")
            else:
                st.violation("construct", "%s: building the enclosing node raised %s" % (self._describe(cfg, prefix, w, -1), ce[0]),
                             {"mode": "virtual", "cfg": {kk: cfg[kk] for kk in ("type", "value", "decl", "cache", "death", "set_raise")},
                              "path": list(cfg["path"]), "layouts": [layouts.to_json(d) for d in cfg["descs"]],
                              "ops": [[wh, [o[0], list(o[1])]] for wh, o in cfg["ops"]], "prefix": list(prefix)},
                             failure="construct", op="construct", wrapped="child", string_chars=False, answers="default")
            return
        for k, ((which, op), (out, g0, g1, faults, dead, wronggen)) in enumerate(zip(cfg["ops"], results)):
            want = eager[which][op]
            label = op[0]
            if want[0] == "invalid":
                continue
            faulty = bool(faults) or dead
            case = {"mode": "virtual", "cfg": {kk: cfg[kk] for kk in ("type", "value", "decl", "cache", "death", "set_raise")},
                    "path": list(cfg["path"]), "layouts": [layouts.to_json(d) for d in cfg["descs"]],
                    "ops": [[wh, [o[0], list(o[1])]] for wh, o in cfg["ops"]], "prefix": list(prefix)}
            sig = dict(op=label, wrapped="root" if not cfg["path"] else "child",
                       string_chars=cfg["type"] in ("str", "bytes") and bool(cfg["path"]),
                       answers="+".join(sorted(set(t[1][t[2]] for t in w.trace if t[2] != 0))) or "default")
            if out[0] == "invalid":
                st.violation("invalid-result", "%s: result is not a valid layout: %s" % (self._describe(cfg, prefix, w, k), out[1]),
                             case, failure="invalid-result", **sig)
                continue
            if wronggen and g1 > g0 and out[0] == "value":
                st.violation("mismatch-not-enforced",
                             "%s: the generator returned an array contradicting the declared length/form and the operation "
                             "returned %r instead of raising" % (self._describe(cfg, prefix, w, k), out[1]),
                             case, failure="mismatch-not-enforced", **sig)
                continue
            if not truthful:
                # nothing else is promised about an array whose declaration is false
                st.outcome("%s:%s(false declaration)" % (label, out[0]))
                if out[0] == "error":
                    st.nontrivial += 1
                continue
            if out[0] == "value":
                if label in ("peek", "array"):
                    ok = out[1] is None or out[1] == "n/a" or layoutsem.same(out[1], eager[which][("to_list", ())][1])
                    if label == "array" and out[1] is None:
                        ok = False
                elif want[0] == "value":
                    ok = layoutsem.same(out[1], want[1])
                else:
                    ok = False
                if not ok:
                    st.violation("value", "%s: got %r, the eager array gives %s %r" % (self._describe(cfg, prefix, w, k), out[1],
                                                                                      want[0], want[1]),
                                 case, failure="value", **sig)
                    continue
                st.outcome("%s:ok" % label)
                if out[1] not in (None, [], "n/a", 0):
                    st.nontrivial += 1
                # laziness
                if cfg["decl"] == "both" and label in LAZY_OPS and g1 > g0 and not cfg["path"]:
                    st.violation("not-lazy", "%s: generator called by %s although length and form are declared" % (
                        self._describe(cfg, prefix, w, k), label), case, failure="not-lazy", **sig)
            else:
                if want[0] == "error":
                    st.outcome("%s:error-as-eager" % label)
                    st.nontrivial += 1
                elif faulty:
                    st.outcome("%s:error-after-faulty-answer" % label)
                    st.nontrivial += 1
                elif label == "formtype" and cfg["decl"] in ("length", "none"):
                    # documented: a VirtualForm without an expected form cannot tell its type (and does not materialise)
                    st.outcome("formtype:refused-without-declared-form")
                else:
                    st.violation("unexpected-error", "%s: raised %s, the eager array gives %r" % (
                        self._describe(cfg, prefix, w, k), out[1], want[1]), case, failure="unexpected-error", **sig)

    def _describe(self, cfg, prefix, w, k):
        answers = ["%s=%s" % (t[0], t[1][t[2]]) for t in w.trace]
        return "%s [%s] wrapped at %r decl=%s cache=%s; ops %r (failing: #%d); answers %s" % (
            cfg["value"], cfg["type"], cfg["path"], cfg["decl"], cfg["cache"], [o for _, o in cfg["ops"]], k, answers)

    def _eager_table(self, descs, ops):
        out = []
        for d in descs:
            lay = layouts.build(d)
            table = {}
            for op in ops:
                table[op] = eager_outcome(lay, op)
            table[("to_list", ())] = eager_outcome(lay, ("to_list", ()))
            out.append(table)
        return out

    def _configs(self, T, tier):
        cid = 0
        for tvs in self._values(T, tier):
            d = encs.canon(T, tvs) if hasattr(encs, "canon") and False else next(iter(encs.encodings(T, tvs, 0, False)))[0]
            for path in wrap_paths(d):
                for decl in ("both", "length", "form", "none", "wronglength", "wrongform"):
                    if decl == "wrongform" and False:
                        continue
                    for cache in (True, False):
                        cid += 1
                        yield {"id": cid, "type": values.tstr(T), "tvs": values.tv_to_json(tvs), "gtype": values.type_to_json(T),
                               "value": repr(values.strip(tvs))[:80], "descs": [d], "path": path, "decl": decl, "cache": cache,
                               "death": cache, "set_raise": cache and tier != "quick"}

    def _shard_single(self, st, tier, ti):
        T = TYPES[ti]
        bound = 1 if tier == "quick" else 2
        for cfg in self._configs(T, tier):
            d = cfg["descs"][0]
            ops = special_ops(d) + generic_ops(d, T)
            eager = self._eager_table(cfg["descs"], ops)
            for op in ops:
                c = dict(cfg, ops=[(0, op)])
                self._explore(st, c, bound, eager)
            st.sample({"type": cfg["type"], "value": cfg["value"], "wrapped_at": list(cfg["path"]), "ops": len(ops)}, limit=2)

    def _shard_seq(self, st, tier, x):
        ti, first = divmod(x, 100)
        T = TYPES[ti]
        for cfg in self._configs(T, tier):
            if tier == "quick" and (cfg["decl"] in ("length", "form") or not cfg["cache"]):
                continue
            eager = self._eager_table(cfg["descs"], SEQ_OPS)
            # pairs: deviation bound 1 (quick) / 2 (thorough); triples (thorough): bound 1 on the cached configurations
            for second in SEQ_OPS:
                c = dict(cfg, ops=[(0, SEQ_OPS[first]), (0, second)])
                self._explore(st, c, 1 if tier == "quick" else 2, eager)
                if tier != "quick" and cfg["cache"] and cfg["decl"] in ("both", "none", "wronglength"):
                    for third in SEQ_OPS:
                        c = dict(cfg, ops=[(0, SEQ_OPS[first]), (0, second), (0, third)])
                        self._explore(st, c, 1, eager)

    def _shard_shared(self, st, tier, ti):
        """two virtual arrays with distinct keys in one cache, operations interleaved"""
        T = TYPES[ti]
        vals = self._values(T, tier)
        ops = [("to_list", ()), ("len", ()), ("peek", ()), ("getitem_at", (0,)), ("getitem_range", (1, None))]
        cid = 0
        for va, vb in itertools.permutations(vals[:3], 2):
            da = next(iter(encs.encodings(T, va, 0, False)))[0]
            db = next(iter(encs.encodings(T, vb, 0, False)))[0]
            eager = self._eager_table([da, db], ops)
            for decl in ("both", "none"):
                cid += 1
                cfg = {"id": cid, "type": values.tstr(T), "tvs": [values.tv_to_json(va), values.tv_to_json(vb)], "value": "%r / %r" % (
                    values.strip(va), values.strip(vb)), "descs": [da, db], "path": (), "decl": decl, "cache": True, "death": False,
                    "set_raise": False, "gtype": values.type_to_json(T)}
                for seq in itertools.product([(w, o) for w in (0, 1) for o in ops], repeat=2 if tier == "quick" else 3):
                    if len(set(w for w, _ in seq)) < 2:
                        continue
                    self._explore(st, dict(cfg, ops=list(seq)), 1, eager)

    # -------------------------------------------------------------------------------------------------------- partitioned
    def _shard_part(self, st, tier, n):
        base_types = [I, var(I), rec(("x", I), ("y", var(I))), opt(I)]
        for T in base_types:
            whole = self._array_of(T, n)
            d = next(iter(encs.encodings(T, whole, 0, False)))[0]
            ref = values.strip(whole)
            for k in (1, 2, 3):
                for cuts in itertools.combinations_with_replacement(range(n + 1), k - 1):
                    stops = list(cuts) + [n]
                    self._partition_case(st, T, d, ref, stops)

    def _array_of(self, T, n):
        for tvs in values.arrays(T, n, 2, None, minlen=n):
            cand = tvs
        # the last enumerated value has the richest entries
        return cand

    def _partition_case(self, st, T, d, ref, stops):
        n = len(ref)
        lay = layouts.build(d)
        starts = [0] + stops[:-1]
        parts = [lay[a:b] for a, b in zip(starts, stops)]
        case = {"mode": "partition", "gtype": values.type_to_json(T), "layout": layouts.to_json(d), "stops": stops}
        tag = dict(type=values.tstr(T), nparts=len(stops), has_empty=any(a == b for a, b in zip(starts, stops)))

        def viol(kind, text):
            st.violation(kind, "%s split at %r: %s" % (ref, stops, text), case, failure=kind, **tag)
        self._no += 1
        pool.mark(self._no)
        st.evaluations += 1
        try:
            pa = virtual.IrregularlyPartitionedArray(parts, stops)
        except ERRS as err:
            viol("construct", "constructor raised %s" % err)
            return
        self._states.add(("part", values.tstr(T), tuple(stops)))

        def plist(p):
            out = []
            for x in p.partitions:
                out.extend(layoutsem.to_list(ext.describe(x)))
            return out
        # whole value, length, json
        st.transitions += 3
        if len(pa) != n or not layoutsem.same(plist(pa), ref):
            viol("value", "partitioned array reads %r (length %d)" % (plist(pa), len(pa)))
        try:
            js = json.loads(pa.tojson())
            if not layoutsem.same(js, json.loads(lay.tojson())):
                viol("tojson", "tojson %r differs from the whole array's %r" % (js, json.loads(lay.tojson())))
        except ERRS as err:
            viol("tojson", "tojson raised %s" % err)
        # positional access
        for at in range(-n - 1, n + 1):
            st.transitions += 1
            try:
                got = ("value", e1.observe(pa.getitem_at(at)))
            except ERRS as err:
                got = ("error", str(err)[:80])
            if -n <= at < n:
                if got[0] != "value" or not layoutsem.same(got[1], ref[at]):
                    viol("getitem_at", "getitem_at(%d) -> %r, expected %r" % (at, got, ref[at]))
                else:
                    st.nontrivial += 1
                    st.outcome("getitem_at:ok")
                if at >= 0:
                    try:
                        pid, idx = pa.partitionid_index_at(at)
                        if not (starts[pid] + idx == at and 0 <= idx < stops[pid] - starts[pid]):
                            viol("partitionid_index_at", "(%d) -> (%d, %d)" % (at, pid, idx))
                    except ERRS as err:
                        viol("partitionid_index_at", "(%d) raised %s" % (at, err))
            elif got[0] != "error":
                viol("getitem_at", "getitem_at(%d) out of range returned %r" % (at, got[1]))
            else:
                st.outcome("getitem_at:error-as-required")
                st.nontrivial += 1
        # range slices
        grid = [None] + list(range(-n - 1, n + 2))
        for start in grid:
            for stop in grid:
                for step in (None, 1, 2, 3, -1, -2):
                    st.transitions += 1
                    want = ref[slice(start, stop, step)]
                    try:
                        got = plist(pa.getitem_range(start, stop, step))
                    except ERRS as err:
                        if step is not None and step < 0:
                            st.outcome("getitem_range:negative-step-refused")
                            continue
                        viol("getitem_range", "[%r:%r:%r] raised %s" % (start, stop, step, str(err)[:100]))
                        continue
                    if layoutsem.same(got, want):
                        st.outcome("getitem_range:ok")
                        if want:
                            st.nontrivial += 1
                    else:
                        viol("getitem_range", "[%r:%r:%r] -> %r, expected %r" % (start, stop, step, got, want))
        # repartition
        for k in (1, 2, 3):
            for cuts in itertools.combinations_with_replacement(range(n + 1), k - 1):
                newstops = list(cuts) + [n]
                st.transitions += 1
                try:
                    rp = pa.repartition(newstops)
                    lens = [len(x) for x in rp.partitions]
                    wantlens = [b - a for a, b in zip([0] + newstops[:-1], newstops)]
                    if lens != wantlens or not layoutsem.same(plist(rp), ref):
                        viol("repartition", "repartition(%r) -> partition lengths %r value %r" % (newstops, lens, plist(rp)))
                    else:
                        st.outcome("repartition:ok")
                        if ref:
                            st.nontrivial += 1
                except ERRS as err:
                    viol("repartition", "repartition(%r) raised %s" % (newstops, str(err)[:100]))

    # ----------------------------------------------------------------------------------------------------------------- L3
    def _shard_l3(self, st, tier, k):
        import install
        ak = install.install()
        if k == 0:
            self._l3_partitioned(st, ak, tier)
        elif k == 1:
            self._l3_virtual(st, ak, tier)
        else:
            self._l3_repartition(st, ak, tier)

    def _l3_ops(self, ak):
        return [
            ("to_list", lambda a: ak.to_list(a)),
            ("len", lambda a: len(a)),
            ("type", lambda a: str(ak.type(a))),
            ("getitem0", lambda a: ak.to_list(a[0])),
            ("getitem-1", lambda a: ak.to_list(a[-1])),
            ("slice1:", lambda a: ak.to_list(a[1:])),
            ("slice:-1", lambda a: ak.to_list(a[:-1])),
            ("slice::2", lambda a: ak.to_list(a[::2])),
            ("num0", lambda a: ak.to_list(ak.num(a, axis=0)) if not isinstance(ak.num(a, axis=0), (int, np.integer)) else int(ak.num(a, axis=0))),
            ("num1", lambda a: ak.to_list(ak.num(a, axis=1))),
            ("sum-1", lambda a: ak.to_list(ak.sum(a, axis=-1))),
            ("sumNone", lambda a: ak.sum(a, axis=None)),
            ("count0", lambda a: ak.to_list(ak.count(a, axis=0))),
            ("flatten1", lambda a: ak.to_list(ak.flatten(a, axis=1))),
            ("flattenNone", lambda a: ak.to_list(ak.flatten(a, axis=None))),
            ("plus1", lambda a: ak.to_list(a + 1)),
            ("self+self", lambda a: ak.to_list(a + a)),
            ("mask", lambda a: ak.to_list(a[ak.num(a, axis=1) > 0])),
            ("is_none", lambda a: ak.to_list(ak.is_none(a))),
            ("pad_none", lambda a: ak.to_list(ak.pad_none(a, 2, axis=1))),
            ("fill_none", lambda a: ak.to_list(ak.fill_none(ak.pad_none(a, 2, axis=1), 0, axis=None))),
            ("to_json", lambda a: json.loads(ak.to_json(a))),
            ("iter", lambda a: [ak.to_list(x) for x in a]),
            ("sort", lambda a: ak.to_list(ak.sort(a, axis=-1))),
            ("sort-default", lambda a: ak.to_list(ak.sort(a))),
            ("sort0", lambda a: ak.to_list(ak.sort(a, axis=0))),
            ("sort-2", lambda a: ak.to_list(ak.sort(a, axis=-2))),
            ("sort-desc", lambda a: ak.to_list(ak.sort(a, axis=-1, ascending=False))),
            ("argsort-default", lambda a: ak.to_list(ak.argsort(a))),
            ("argsort0", lambda a: ak.to_list(ak.argsort(a, axis=0))),
            ("argsort-2", lambda a: ak.to_list(ak.argsort(a, axis=-2))),
            ("take-argsort", lambda a: ak.to_list(a[ak.argsort(a)])),
            ("sum0", lambda a: ak.to_list(ak.sum(a, axis=0))),
            ("max0", lambda a: ak.to_list(ak.max(a, axis=0))),
            ("argmax0", lambda a: ak.to_list(ak.argmax(a, axis=0))),
            ("mask-self", lambda a: ak.to_list(a[ak.num(a, axis=-1) >= 0]) if a.ndim > 1 else ak.to_list(a[a >= 2])),
            ("argmax", lambda a: ak.to_list(ak.argmax(a, axis=-1))),
            ("concatenate", lambda a: ak.to_list(ak.concatenate([a, a]))),
            ("zip", lambda a: ak.to_list(ak.zip({"p": a, "q": a}))),
            ("firsts", lambda a: ak.to_list(ak.firsts(a, axis=1))),
            ("local_index", lambda a: ak.to_list(ak.local_index(a, axis=1))),
            ("materialized", lambda a: ak.to_list(ak.materialized(a))),
            ("packed-free copy", lambda a: ak.to_list(ak.copy(a))),
        ]

    def _l3_compare(self, st, what, name, f, lazy, eager_arr, case, **tag):
        self._no += 1
        pool.mark(self._no)
        st.transitions += 1
        st.evaluations += 1
        try:
            want = ("value", f(eager_arr))
        except Exception as err:  # noqa: B902
            want = ("error", type(err).__name__)
        try:
            got = ("value", f(lazy))
        except Exception as err:  # noqa: B902
            got = ("error", type(err).__name__ + ": " + str(err)[:160])
        if want[0] == "error":
            st.outcome("%s:%s:eager-errs" % (what, name))
            return
        if got[0] == "value" and layoutsem.same(_plain(got[1]), _plain(want[1])):
            st.outcome("%s:%s:ok" % (what, name))
            st.nontrivial += 1
        else:
            st.violation(what, "%s %s: %s gives %r, the eager array %r" % (what, tag, name, got[1], want[1]), dict(case, op=name),
                         failure=what, op=name, **tag)

    def _l3_arrays(self, ak, tier):
        out = [[[1, 2, 3], [], [4, 5]], [[1.5], [2.5, 3.5], [], [4.5]], [[], [], []], [[1, 2], [3, 4], [5, 6], [7, 8]],
               [30, 10, 20, 0, 50, 40], [[5, 1], [3, 6], [4, 2], [0, 7]], [[2, 9], [7], [1, 8, 3]]]
        if tier != "quick":
            out += [[[1, None], [], [None]], [[[1], []], [[2, 3]], []]]
        return out

    def _l3_partitioned(self, st, ak, tier):
        for ai, data in enumerate(self._l3_arrays(ak, tier)):
            whole = ak.from_iter(data)
            n = len(data)
            for k in (1, 2, 3):
                for cuts in itertools.combinations_with_replacement(range(n + 1), k - 1):
                    stops = list(cuts) + [n]
                    starts = [0] + stops[:-1]
                    self._states.add(("l3part", ai, tuple(stops)))
                    try:
                        parts = ak.partitioned([whole[a:b] for a, b in zip(starts, stops)])
                    except Exception as err:  # noqa: B902
                        st.violation("l3-partitioned", "ak.partitioned of %r at %r raised %s" % (data, stops, err),
                                     {"mode": "l3-partitioned", "array": ai, "stops": stops}, failure="construct")
                        continue
                    for name, f in self._l3_ops(ak):
                        self._l3_compare(st, "l3-partitioned", name, f, parts, whole,
                                         {"mode": "l3-partitioned", "array": ai, "stops": stops}, nparts=len(stops),
                                         has_empty=any(a == b for a, b in zip(starts, stops)), has_none="None" in repr(data))

    def _l3_repartition(self, st, ak, tier):
        for ai, data in enumerate(self._l3_arrays(ak, tier)):
            whole = ak.from_iter(data)
            n = len(data)
            for cut in range(n + 1):
                parts = ak.partitioned([whole[:cut], whole[cut:]])
                for lengths in [None, 1, 2, 3] + [[a, n - a] for a in range(n + 1)] + [[1] * n]:
                    case = {"mode": "l3-repartition", "array": ai, "cut": cut, "lengths": lengths}
                    self._no += 1
                    pool.mark(self._no)
                    st.transitions += 1
                    st.evaluations += 1
                    self._states.add(("l3repart", ai, cut, repr(lengths)))
                    for src_name, src in (("partitioned", parts), ("whole", whole)):
                        try:
                            r = ak.repartition(src, lengths)
                            got = ak.to_list(r)
                            if lengths is None:
                                sizes = [n] if n else [0]
                                actual = [len(ak.to_list(r))] if not isinstance(r.layout, ak.partition.PartitionedArray) else None
                            else:
                                actual = [len(p) for p in r.layout.partitions] if isinstance(r.layout, ak.partition.PartitionedArray) else [len(r)]
                                if isinstance(lengths, int):
                                    sizes = [min(lengths, n - i) for i in range(0, n, lengths)] or actual
                                else:
                                    sizes = list(lengths)
                        except Exception as err:  # noqa: B902
                            st.violation("l3-repartition", "ak.repartition(%s %r cut %d, %r) raised %s: %s" % (
                                src_name, data, cut, lengths, type(err).__name__, str(err)[:120]), case, failure="raised", src=src_name)
                            continue
                        if not layoutsem.same(got, data) or (actual is not None and sum(actual) != n):
                            st.violation("l3-repartition", "ak.repartition(%s %r cut %d, %r) -> %r with partition lengths %r (want %r)" % (
                                src_name, data, cut, lengths, got, actual, sizes), case, failure="value", src=src_name)
                        else:
                            st.outcome("l3-repartition:ok")
                            st.nontrivial += 1

    def _l3_virtual(self, st, ak, tier):
        """ak.virtual with a dict-like cache that evicts on an explorer-chosen read, at every node of ak.from_buffers(lazy=True)"""
        for ai, data in enumerate(self._l3_arrays(ak, tier)):
            whole = ak.from_iter(data)
            form, length, container = ak.to_buffers(whole)
            for mode in ("virtual-nocache", "virtual-cache", "virtual-evict", "virtual-noform", "lazy-buffers", "lazy-buffers-evict"):
                for name, f in self._l3_ops(ak):
                    self._states.add(("l3virtual", ai, mode))
                    cache = _EvictingCache(evict_every=1 if mode.endswith("evict") else 0)
                    calls = [0]

                    def gen():
                        calls[0] += 1
                        return whole
                    if mode == "virtual-nocache":
                        lazy = ak.virtual(gen, length=length, form=whole.layout.form, cache=None)
                    elif mode in ("virtual-cache", "virtual-evict"):
                        lazy = ak.virtual(gen, length=length, form=whole.layout.form, cache=cache)
                    elif mode == "virtual-noform":
                        lazy = ak.virtual(gen, cache=cache)
                    else:
                        lazy = ak.from_buffers(form, length, container, lazy=True, lazy_cache=cache)
                    self._l3_compare(st, "l3-virtual", name, f, lazy, whole, {"mode": "l3-virtual", "array": ai, "config": mode},
                                     config=mode, has_none="None" in repr(data))

    # ------------------------------------------------------------------------------------------------------------- replay
    def replay(self, case):
        st = Stats()
        self._no = 0
        self._tier = "quick"
        self._states = set()
        mode = case.get("mode")
        if mode == "virtual":
            cfg = dict(case["cfg"])
            cfg["id"] = 0
            cfg["path"] = tuple(case["path"])
            cfg["descs"] = [layouts.from_json(x) for x in case["layouts"]]
            cfg["ops"] = [(wh, (o[0], _tuplify(o[1]))) for wh, o in case["ops"]]
            ops = sorted(set(o for _, o in cfg["ops"]), key=repr)
            eager = self._eager_table(cfg["descs"], ops)
            w, results = self._execute(cfg, case["prefix"])
            self._judge(st, cfg, case["prefix"], w, results, eager)
            text = ["configuration: %r" % (case["cfg"],), "wrapped at: %r" % (cfg["path"],)]
            for (wh, op), (out, g0, g1, faults, dead, wronggen) in zip(cfg["ops"], results):
                text.append("array %d %s%r -> %s %r   [generator calls %d->%d, faulty answers %r, eager: %r]" % (
                    wh, op[0], op[1], out[0], out[1], g0, g1, faults, eager[wh][op]))
            text.append("environment answers: %r" % (["%s=%s" % (t[0], t[1][t[2]]) for t in w.trace],))
            text += [v["summary"][:400] for v in st.violations]
            return bool(st.violations), "\n".join(text)
        if mode == "partition":
            T = values.type_from_json(case["gtype"])
            d = layouts.from_json(case["layout"])
            self._partition_case(st, T, d, layoutsem.to_list(d), case["stops"])
            return bool(st.violations), "\n".join(v["summary"] for v in st.violations[:5]) or "holds"
        return True, json.dumps(case)


def _tuplify(x):
    return tuple(_tuplify(y) for y in x) if isinstance(x, (list, tuple)) else x


class _EvictingCache(dict):
    """dict-like cache that forgets an entry on every k-th read (k=0: never)"""

    def __init__(self, evict_every=0):
        dict.__init__(self)
        self.evict_every = evict_every
        self.reads = 0

    def __getitem__(self, key):
        self.reads += 1
        if self.evict_every and self.reads % self.evict_every == 0 and key in self:
            dict.__delitem__(self, key)
            raise KeyError(key)
        return dict.__getitem__(self, key)


def _plain(v):
    if isinstance(v, np.generic):
        return v.item()
    if isinstance(v, (list, tuple)):
        return [_plain(x) for x in v]
    if isinstance(v, dict):
        return {k: _plain(x) for k, x in v.items()}
    return v


if __name__ == "__main__":
    sys.exit(runner.main(C18()))
