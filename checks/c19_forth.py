#!/usr/bin/env python3
"""C19 -- AwkwardForth programs have deterministic, documented, step-independent semantics.

Bounded exhaustive enumeration of programs x inputs x machine configurations x execution schedules on the
real C++ ForthMachine32/64 (through bridge/akb_forth.cpp), compared state by state with the reference
interpreter model/refforth.py.  Nothing is sampled: every family below is a finite, deterministic list.

Per (program, input, machine, configuration) the explicit-state graph of schedules is explored:
  run                      C++ run(inputs), then resume until done
  begin resume*            what the Python binding's run() does
  begin step*              single-stepping to the end (every intermediate state is compared)
  begin step^k resume*     for every k (bounded): switch from stepping to running after k instructions
  ... call(w) ...          for programs with definitions: call every word after begin, at every pause, at the end
  decompiled()             recompiled: identical bytecodes and identical run
States are identified by (count_instructions, is_done): whenever two schedule paths reach the same number of
executed instructions their observable states (stack, variables, input positions, output bytes) must be equal
(confluence), and both must equal the reference interpreter's state at that point.
"""
import itertools
import os
import pickle
import signal
import sys

sys.path.insert(0, os.path.join(os.path.dirname(os.path.dirname(os.path.abspath(__file__))), "mc"))
import runner  # noqa: E402
import pool  # noqa: E402
import findings  # noqa: E402
import akb  # noqa: E402
import forth  # noqa: E402
import refforth as R  # noqa: E402

ERRORS = R.ERRORS
E = R.E

# ---------------------------------------------------------------------------------------------- alphabets

OPERANDS = ["min", "min+1", "-7", "-1", "0", "1", "2", "7", "max-1", "max"]
OPERANDS_REDUCED = ["min", "-1", "0", "1", "max"]
OPERANDS_TINY = ["min", "-1", "2"]

ARITH_WORDS = ["dup", "drop", "swap", "over", "rot", "nip", "tuck", "+", "-", "*", "/", "mod", "/mod", "negate",
               "1+", "1-", "abs", "min", "max", "=", "<>", ">", ">=", "<", "<=", "0=", "invert", "and", "or", "xor",
               "lshift", "rshift", "false", "true"]
ARITY = {"dup": 1, "drop": 1, "swap": 2, "over": 2, "rot": 3, "nip": 2, "tuck": 2, "negate": 1, "1+": 1, "1-": 1,
         "abs": 1, "0=": 1, "invert": 1, "false": 0, "true": 0}


def operand_value(name, bits):
    lo = -(1 << (bits - 1))
    hi = (1 << (bits - 1)) - 1
    special = {"min": lo, "min+1": lo + 1, "max-1": hi - 1, "max": hi}
    return special[name] if name in special else int(name)


def operand_src(name, bits):
    """Source text that leaves the operand on the stack.  Literals are stored in 32-bit bytecodes, so the
    64-bit extremes are built from in-range shifts (the literal family checks literals themselves)."""
    if bits == 32 or name not in ("min", "min+1", "max-1", "max"):
        return str(operand_value(name, bits))
    return {"min": "1 63 lshift", "min+1": "1 63 lshift 1+", "max": "1 63 lshift invert",
            "max-1": "1 63 lshift invert 1-"}[name]


BYTES5 = [0x00, 0x01, 0x7f, 0x80, 0xff]
FLOATBYTES = [0x00, 0x3f, 0x80, 0xc0, 0x41, 0x7f, 0xff]
OUT_DTYPES = R.DTYPES

CONFIG_STACK = [1, 2, 1024]
CONFIG_REC = [1, 2, 1024]
CONFIG_OUT = [(1, 1.0001), (2, 1.5), (1024, 1.5)]
DEFAULT_CFG = (1024, 1024, 1024, 1.5)


class Case(object):
    __slots__ = ("family", "source", "inputs", "meta")

    def __init__(self, family, source, inputs=(), **meta):
        self.family = family
        self.source = source
        self.inputs = list(inputs)
        self.meta = meta

    def as_dict(self, bits, cfg=None):
        d = {"family": self.family, "source": self.source, "inputs": [[n, b.hex()] for n, b in self.inputs],
             "bits": bits, "meta": {k: v for k, v in self.meta.items()}}
        if cfg is not None:
            d["config"] = list(cfg)
        return d


# ---------------------------------------------------------------------------------------------- families

def fam_arith1(bits, tier):
    """(i) one built-in word after 0..3 operands, exhaustive over the 10-value operand set."""
    for w in ARITH_WORDS:
        for n in (0, 1, 2, 3):
            for ops in itertools.product(OPERANDS, repeat=n):
                src = " ".join([operand_src(o, bits) for o in ops] + [w])
                yield Case("arith1", src, word=w, operands=",".join(ops))


def fam_arith2(bits, tier):
    """(i) every ordered pair of built-in words after 2 or 3 operands from a reduced set."""
    sets = [(2, OPERANDS_REDUCED), (3, OPERANDS_TINY)] if tier == "quick" else [(2, OPERANDS), (3, OPERANDS_REDUCED)]
    for w1 in ARITH_WORDS:
        for w2 in ARITH_WORDS:
            for n, vals in sets:
                for ops in itertools.product(vals, repeat=n):
                    src = " ".join([operand_src(o, bits) for o in ops] + [w1, w2])
                    yield Case("arith2", src, word=w1 + " " + w2, operands=",".join(ops))


def fam_literal(bits, tier):
    """number syntax: decimal, negative, hexadecimal, at and beyond the 32/64-bit boundaries."""
    vals = [0, 1, -1, 7, 2147483647, 2147483648, -2147483648, -2147483649, 4294967295, 4294967296,
            9223372036854775807, 9223372036854775808, -9223372036854775808, 18446744073709551615]
    for v in vals:
        yield Case("literal", str(v), word="lit", value=str(v))
        if v >= 0:
            yield Case("literal", hex(v), word="lit", value=hex(v))
    for text in ["18446744073709551616", "99999999999999999999999", "0x", "0xg", "1x", "12abc", "-", "--1", "1.5",
                 "0x-5", "1e3", "١"]:
        yield Case("literal", text, word="lit", value=text)


IF_FLAGS = ["-1", "0", "1", "7", ""]
SMALL_BODIES = ["", "1", "drop", "1 2", "dup", "pause", "1 pause 2", "halt", "exit", "+"]


def fam_control(bits, tier):
    """(ii) control-flow templates with enumerated small bodies."""
    F = "control"
    bodies = SMALL_BODIES if tier == "thorough" else ["", "1", "drop", "pause", "1 pause 2", "halt", "exit", "+"]
    # if / else / then
    for flag in IF_FLAGS:
        for a in bodies:
            yield Case(F, "5 %s if %s then 9" % (flag, a), template="if")
            for b in bodies:
                yield Case(F, "5 %s if %s else %s then 9" % (flag, a, b), template="ifelse")
    for f1 in ("-1", "0"):
        for f2 in ("-1", "0"):
            yield Case(F, "%s %s if if 1 else 2 then else if 3 else 4 then then" % (f2, f1), template="ifnest")
    # do / loop / +loop
    rng = ["-1", "0", "1", "3"]
    lbodies = ["", "i", "i drop", "7", "i pause", "pause", "i exit", "i halt", "i 1 = if 9 then", "drop"]
    for stop in rng:
        for start in rng:
            for b in lbodies:
                yield Case(F, "%s %s do %s loop 8" % (stop, start, b), template="do")
    for b in ("i", "i pause", ""):
        for args in ("", "3"):
            yield Case(F, "%s do %s loop" % (args, b), template="do-underflow")
    steps = ["1", "2", "7", "0", "-1", ""]
    for stop, start in (("5", "0"), ("0", "5"), ("3", "3"), ("6", "-1")):
        for step in steps:
            for b in ("i", "", "i pause"):
                yield Case(F, "%s %s do %s %s +loop 8" % (stop, start, b, step), template="+loop")
    yield Case(F, "100 5 do i i +loop", template="+loop")
    yield Case(F, ": foo do i i +loop ; 100 5 foo", template="+loop")
    for outer in (("2", "0"), ("1", "1"), ("3", "1")):
        for inner in (("2", "0"), ("0", "0"), ("4", "2")):
            yield Case(F, "%s %s do %s %s do i j loop loop" % (outer + inner), template="do-nest")
            yield Case(F, "%s %s do %s %s do i j * pause loop i loop" % (outer + inner), template="do-nest")
            yield Case(F, "2 0 do %s %s do %s %s do i j k loop loop loop" % (outer + inner), template="do-nest3")
    yield Case(F, ": foo 10 5 do 8 6 do 3 0 do i j * k * loop loop loop ; foo", template="do-nest3")
    # loop indices beyond the 32-bit range (meaningful on the 64-bit machine; the shift is unspecified on 32 bits)
    yield Case(F, "1 40 lshift dup 2 + swap do i loop", template="do-wide")
    yield Case(F, "1 40 lshift dup 1+ swap do 1 0 do j loop loop", template="do-wide")
    # begin / until, begin / while / repeat, begin / again
    for n in ("0", "1", "2", "3", ""):
        yield Case(F, "%s begin 1- dup 0 <= until 8" % n, template="until")
        yield Case(F, "%s begin dup pause 1- dup 0 <= until" % n, template="until")
        yield Case(F, "%s begin dup 0 > while dup 1- repeat 8" % n, template="while")
        yield Case(F, "%s begin dup 0 > while pause 1- repeat" % n, template="while")
        yield Case(F, ": f %s begin 1- dup 0 <= if exit then again ; f 8" % n, template="again-exit")
        yield Case(F, "%s begin 1- dup 0 <= if halt then again" % n, template="again-halt")
        yield Case(F, "%s begin 1- dup 0 <= if exit then dup again 8" % n, template="again-exit-main")
        yield Case(F, "%s begin dup while 1- dup if pause then repeat 8" % n, template="while")
    for flag in IF_FLAGS:
        yield Case(F, "begin 1 %s until 8" % flag, template="until")
        yield Case(F, "begin %s while 1 repeat 8" % flag, template="while")
    yield Case(F, "begin again", template="again")
    yield Case(F, "begin 1 again", template="again")
    yield Case(F, "3 0 do begin i 1 until loop", template="mix")
    yield Case(F, "2 begin 2 0 do i loop 1- dup 0= until", template="mix")
    yield Case(F, "1 if 3 0 do i loop else 7 then", template="mix")
    yield Case(F, "3 0 do i 1 = if i else 7 then loop", template="mix")
    # exit at every nesting level, inside and outside definitions
    yield Case(F, "1 exit 2", template="exit")
    yield Case(F, ": f 1 exit 2 ; f 3", template="exit")
    yield Case(F, ": f 1 if 2 exit then 3 ; f 4", template="exit")
    yield Case(F, ": f 3 0 do i exit loop ; f 9", template="exit-in-do")
    yield Case(F, ": f 3 0 do i exit loop ; f f 9", template="exit-in-do")
    yield Case(F, ": f 3 0 do i i 1 = if exit then loop ; f 9 f", template="exit-in-do")
    yield Case(F, ": f 7 exit ; 3 0 do f loop", template="exit-under-do")
    yield Case(F, ": f 7 exit ; 3 0 do f i loop", template="exit-under-do")
    yield Case(F, ": f 1 if exit then ; 3 0 do i f loop 9", template="exit-under-do")
    yield Case(F, ": f begin 1 if exit then again ; f 3 0 do i loop", template="exit")
    yield Case(F, "3 0 do i exit loop 9", template="exit-in-do")
    yield Case(F, ": f 7 ; 3 0 do i pause loop 9", template="call-in-do")
    yield Case(F, ": f 7 ; 3 0 do pause i loop 9", template="call-in-do")
    yield Case(F, ": f 7 ; 6 0 do i pause 2 +loop", template="call-in-do")
    yield Case(F, ": f 7 ; 2 0 do 2 0 do i j pause loop loop", template="call-in-do")
    yield Case(F, ": foo 123 pause ; 5 0 do i foo loop", template="call-in-do")
    yield Case(F, ": f 7 ; 1 if pause then 2 begin 1- dup pause 0= until", template="call-in-do")
    yield Case(F, ": f halt ; 1 f 2", template="halt")
    yield Case(F, "halt", template="halt")
    yield Case(F, "pause", template="pause")
    yield Case(F, "pause pause", template="pause")
    yield Case(F, "1 pause", template="pause")
    yield Case(F, "1 if pause then", template="pause")
    yield Case(F, "1 if 1 if pause then then", template="pause")
    yield Case(F, ": f pause ; f", template="pause")
    yield Case(F, ": f 1 pause ; : g f 2 ; g 3", template="pause")
    # definitions, recursion up to and past the limit
    for n in ("0", "1", "2", "3", "255", "510", "511", "512", "1100"):
        yield Case(F, ": f dup 0 > if 1- recurse then ; %s f" % n, template="recurse")
        yield Case(F, ": f dup 0 > if 1- f then ; %s f" % n, template="recurse")
    for n in ("0", "1", "2", "1022", "1023", "1024"):
        yield Case(F, ": f dup 0= if exit then 1- recurse ; %s f" % n, template="recurse-exit")
    yield Case(F, ": f recurse ; f", template="recurse")
    yield Case(F, ": f 1 ; : g f f ; : h g g ; h", template="defs")
    yield Case(F, ": f ; f", template="defs")
    yield Case(F, ": f : g 1 ; g ; f", template="defs-nested")
    yield Case(F, ": factorial dup 2 < if drop 1 exit then dup 1- recurse * ; 5 factorial", template="recurse")
    yield Case(F, ": factorial dup 2 < if drop 1 exit then dup 1- recurse * ; 20 factorial", template="recurse")
    # variables
    for a in OPERANDS_REDUCED:
        for b in OPERANDS_REDUCED:
            yield Case(F, "variable x variable y %s x ! %s x +! x @ y @" % (operand_src(a, bits), operand_src(b, bits)),
                       template="variable")
    yield Case(F, "variable x x !", template="variable")
    yield Case(F, "variable x x +!", template="variable")
    yield Case(F, "variable x 1 x ! pause 2 x +! x @ x @", template="variable")
    yield Case(F, "variable x : f x @ 1+ x ! ; f f pause f x @", template="variable")
    # strings
    yield Case(F, "s\" one\" s\" two\" s\" \" +", template="string")
    yield Case(F, ": f s\" in word\" ; s\" first\" f f", template="string")
    yield Case(F, "1 2 .\" hello world\" . cr .s . .s .", template="print", print=True)
    yield Case(F, "-5 . %s . cr" % operand_src("min", bits), template="print", print=True)


PAUSE_BASES = [
    "1 2 + 3 *",
    "3 0 do i loop 9",
    "1 if 2 else 3 then 4",
    ": f 1 2 ; f f +",
    "3 begin 1- dup 0= until 7",
    "2 begin dup 0 > while 1- repeat 7",
    ": f dup 0 > if 1- recurse then ; 2 f 5",
    "10 0 do i 4 +loop 9",
    "variable x 3 x ! x @ 2 0 do 1 x +! loop x @",
]


def fam_pause(bits, tier):
    """(ii) every listed program with 'pause' inserted at every token boundary."""
    for base in PAUSE_BASES:
        toks = base.split()
        for k in range(len(toks) + 1):
            if k > 0 and toks[k - 1] in (":", "variable"):
                continue
            if k < len(toks) and toks[k] in ("!", "+!", "@"):
                continue
            yield Case("pause", " ".join(toks[:k] + ["pause"] + toks[k:]), template=base, position=k)


def prefix_closed_inputs(size, alphabet, full_len, patterns):
    """All byte strings over ``alphabet`` of length <= full_len, plus for longer lengths (up to 2*size) every
    prefix of every concatenation of <= 2 items drawn from ``patterns``."""
    out = []
    seen = set()

    def add(b):
        if b not in seen:
            seen.add(b)
            out.append(b)
    for n in range(0, min(full_len, 2 * size) + 1):
        for t in itertools.product(alphabet, repeat=n):
            add(bytes(t))
    if 2 * size > full_len:
        for a in patterns:
            for b in patterns:
                whole = a + b
                for n in range(len(whole) + 1):
                    add(whole[:n])
    return out


def item_patterns(size, alphabet):
    """Item byte patterns for wide types: extremes, every alphabet byte at either end, sign/exponent bytes."""
    pats = []
    for lo in alphabet:
        for hi in alphabet:
            for mid in (0x00, 0xff):
                pats.append(bytes([lo] + [mid] * (size - 2) + [hi]))
    return pats


def inputs_for(fmt, tier):
    size = R.FORMATS[fmt][1] if fmt in R.FORMATS else 1
    if fmt == "?":
        alpha = [0, 1]
    elif fmt in "fd":
        alpha = FLOATBYTES
    else:
        alpha = BYTES5
    if tier == "quick":
        if size <= 2:
            return prefix_closed_inputs(size, alpha, 2 * size if size == 1 else 3, item_patterns(size, alpha)
                                        if size > 1 else [])
        pats = item_patterns(size, alpha[:5] if fmt not in "fd" else alpha)
        pats = pats[::3] if fmt not in "fd" else pats[::5]
        return prefix_closed_inputs(size, alpha, 1, pats[:7])
    if size <= 2:
        return prefix_closed_inputs(size, alpha, 2 * size, [])
    pats = item_patterns(size, alpha)
    return prefix_closed_inputs(size, alpha, 3, pats[::max(1, len(pats) // 17)][:17])


def reader_words():
    out = []
    for fmt in "?bhiqnBHIQNfd":
        out.append(fmt)
        if fmt not in R.NO_BIGENDIAN:
            out.append("!" + fmt)
    return out


def fam_read_stack(bits, tier):
    """(iii) every typed read word to the stack: single, twice, and repeated '#' with every count."""
    for rw in reader_words():
        fmt = rw[-1]
        ins = inputs_for(fmt, tier)
        for data in ins:
            inp = [("x", data)]
            yield Case("read_stack", "input x x %s-> stack x pos x end" % rw, inp, word=rw, n="1")
            yield Case("read_stack", "input x x %s-> stack x %s-> stack x pos x len" % (rw, rw), inp, word=rw, n="1+1")
            for n in ("0", "1", "2", "3"):
                yield Case("read_stack", "input x %s x #%s-> stack x pos" % (n, rw), inp, word="#" + rw, n=n)
    for rw in ("b", "!h", "i", "varint", "3bit"):
        for data in (b"", b"\x01\x02\x03\x04"):
            yield Case("read_stack", "input x -1 x #%s-> stack x pos" % rw, [("x", data)], word="#" + rw, n="-1")
        yield Case("read_stack", "input x x #%s-> stack" % rw, [("x", b"\x01\x02")], word="#" + rw, n="underflow")


def fam_read_out(bits, tier):
    """(iii) every typed read word directly to every output dtype."""
    for rw in reader_words():
        fmt = rw[-1]
        ins = inputs_for(fmt, tier)
        if tier == "quick":
            ins = ins[::3] + ins[-1:]
        for dt in OUT_DTYPES:
            for data in ins:
                inp = [("x", data)]
                yield Case("read_out", "input x output o %s x %s-> o o len x pos" % (dt, rw), inp, word=rw, dtype=dt, n="1")
                for n in ("0", "2", "3"):
                    yield Case("read_out", "input x output o %s %s x #%s-> o o len x pos" % (dt, n, rw), inp,
                               word="#" + rw, dtype=dt, n=n)
    for rw in ("b", "!i"):
        yield Case("read_out", "input x output o int32 -1 x #%s-> o o len x pos" % rw, [("x", b"\x01\x02\x03\x04")],
                   word="#" + rw, dtype="int32", n="-1")


def varint_inputs(tier):
    alpha = BYTES5
    out = []
    for n in range(0, 4 if tier == "quick" else 5):
        for t in itertools.product(alpha, repeat=n):
            out.append(bytes(t))
    for k in (7, 8, 9, 10, 11):
        for last in (0x00, 0x01, 0x7f):
            out.append(bytes([0xff] * k + [last]))
            out.append(bytes([0x80] * k + [last]))
        out.append(bytes([0xff] * k))
    return out


def fam_varint(bits, tier):
    """(iii) varint / zigzag / nbit reads to the stack and to outputs."""
    for rw in ("varint", "zigzag"):
        for data in varint_inputs(tier):
            inp = [("x", data)]
            yield Case("varint", "input x x %s-> stack x pos" % rw, inp, word=rw, n="1")
            yield Case("varint", "input x 2 x #%s-> stack x pos" % rw, inp, word="#" + rw, n="2")
            for dt in ("int64", "uint64", "int32", "uint8", "float64", "bool"):
                yield Case("varint", "input x output o %s x %s-> o 2 x #%s-> o o len x pos" % (dt, rw, rw), inp,
                           word=rw, dtype=dt, n="1+2")
    widths = [1, 2, 3, 7, 8, 9, 16, 31, 32, 33, 63, 64] if tier == "thorough" else [1, 3, 8, 9, 31, 32, 64]
    nb_in = []
    for n in range(0, 3 if tier == "quick" else 4):
        for t in itertools.product(BYTES5, repeat=n):
            nb_in.append(bytes(t))
    nb_in.append(bytes([0xff] * 9))
    nb_in.append(bytes([0x01, 0x80, 0x7f, 0xff, 0x00, 0x01, 0x80, 0x7f, 0xff, 0x01, 0x80, 0x7f, 0xff, 0x00, 0x01, 0x80, 0x7f]))
    for wd in widths:
        for flip in ("", "!"):
            for data in nb_in:
                inp = [("x", data)]
                yield Case("varint", "input x x %s%dbit-> stack x pos" % (flip, wd), inp, word="nbit", nbits=wd, n="1")
                for n in ("0", "2", "3"):
                    yield Case("varint", "input x %s x #%s%dbit-> stack x pos" % (n, flip, wd), inp, word="#nbit",
                               nbits=wd, n=n)
                yield Case("varint", "input x output o int64 3 x #%s%dbit-> o x %s%dbit-> o o len x pos" % (flip, wd, flip, wd),
                           inp, word="#nbit", nbits=wd, dtype="int64", n="3+1")


def fam_seek(bits, tier):
    """(iii) len pos end seek skip on inputs of every length 0..4."""
    for n in range(0, 5):
        data = bytes(range(1, n + 1))
        inp = [("x", data)]
        yield Case("seek", "input x x len x pos x end", inp, word="len")
        for k in range(-2, n + 3):
            yield Case("seek", "input x %d x seek x pos x end x b-> stack x pos x end" % k, inp, word="seek", k=k)
            for j in range(-2, n + 3):
                yield Case("seek", "input x %d x skip %d x skip x pos x end" % (k, j), inp, word="skip", k=k, j=j)
        yield Case("seek", "input x x seek", inp, word="seek", k="underflow")
        yield Case("seek", "input x x skip", inp, word="skip", k="underflow")
    for a in ("min", "max"):
        yield Case("seek", "input x %s x seek x pos" % operand_src(a, bits), [("x", b"\1\2")], word="seek", k=a)
        yield Case("seek", "input x 1 x skip %s x skip x pos" % operand_src(a, bits), [("x", b"\1\2")], word="skip", k=a)
    # reads at positions that are not multiples of the item size (packed records)
    for rw in ("h", "!h", "i", "!I", "q", "!d", "f"):
        for off in (1, 3):
            yield Case("seek", "input x %d x skip x %s-> stack x pos 2 x #%s-> stack x pos" % (off, rw, rw),
                       [("x", bytes(range(1, 30)))], word="misaligned", k=off)
    yield Case("seek", "input x output o int32 1 x skip 3 x #!i-> o o len x pos", [("x", bytes(range(1, 30)))],
               word="misaligned", k=1)
    yield Case("seek", "input x input y x b-> stack y h-> stack x pos y pos 0 x seek y end",
               [("x", b"\1\2"), ("y", b"\3\4")], word="two-inputs")
    yield Case("seek", "input x input y x b-> stack", [("y", b"\3\4"), ("x", b"\1\2")], word="two-inputs")


def fam_output(bits, tier):
    """(iii) typed outputs: '<- stack', '+<-', 'dup', 'rewind', 'len' for every dtype and operand."""
    ops = OPERANDS if tier == "thorough" else OPERANDS_REDUCED + ["7"]
    for dt in OUT_DTYPES:
        for a in ops:
            sa = operand_src(a, bits)
            yield Case("output", "output o %s %s o <- stack o len" % (dt, sa), word="<-", dtype=dt, operands=a)
            for b in ops:
                sb = operand_src(b, bits)
                yield Case("output", "output o %s %s o <- stack %s o +<- stack %s o +<- stack o len" % (dt, sa, sb, sb),
                           word="+<-", dtype=dt, operands=a + "," + b)
            yield Case("output", "output o %s %s o +<- stack" % (dt, sa), word="+<-", dtype=dt, operands=a)
        for n in ("-1", "0", "1", "3", "9"):
            yield Case("output", "output o %s 5 o <- stack %s o dup o len" % (dt, n), word="dup", dtype=dt, n=n)
            yield Case("output", "output o %s %s o dup o len" % (dt, n), word="dup", dtype=dt, n=n + " on empty")
            for m in ("0", "1", "2", "3"):
                yield Case("output", "output o %s 5 o <- stack 6 o <- stack %s o rewind o len 7 o <- stack" % (dt, m),
                           word="rewind", dtype=dt, n=m)
        yield Case("output", "output o %s o <- stack" % dt, word="<-", dtype=dt, operands="underflow")
        yield Case("output", "output o %s o dup" % dt, word="dup", dtype=dt, n="underflow")
        yield Case("output", "output o %s o rewind" % dt, word="rewind", dtype=dt, n="underflow")
        yield Case("output", "output o %s o len" % dt, word="len", dtype=dt)
    # growth: many writes through every resize path, two outputs interleaved, pause in between
    for dt in ("int8", "int64", "float32", "bool"):
        yield Case("output", "output a %s output b int16 40 0 do i a <- stack i b +<- stack loop a len b len" % dt,
                   word="growth", dtype=dt)
        yield Case("output", "output a %s 1 a <- stack 1500 a dup a len" % dt, word="growth", dtype=dt)
        yield Case("output", "output a %s 9 0 do i a <- stack pause loop 4 a rewind 2 a dup" % dt, word="growth", dtype=dt)
    yield Case("output", "input x output a int32 2 x #!i-> a 3 x #!h-> a a len x pos", [("x", bytes(range(1, 15)))],
               word="growth", dtype="int32")


COMPILE_BASES = [
    "1 2 + dup",
    "-1 if 1 else 2 then 3",
    "3 0 do i loop",
    "10 0 do i 3 +loop",
    "2 begin 1- dup 0= until",
    "2 begin dup while 1- repeat",
    ": f dup 0= if exit then 1- recurse ; 2 f",
    "variable v 5 v ! 2 v +! v @",
    "input x output o int32 x i-> o 2 x #!h-> stack o len x pos",
    "output o int8 7 o <- stack 1 o +<- stack 2 o dup 1 o rewind",
    "( a comment ) 1 \\ to the end\n 2",
    "s\" text\" .\" more\"",
    "1 begin 1- dup 0= if halt then again",
]
SUBST_WORDS = [":", ";", "recurse", "variable", "input", "output", "halt", "pause", "if", "then", "else", "do", "loop",
               "+loop", "begin", "again", "until", "while", "repeat", "exit", "!", "+!", "@", "len", "pos", "end", "seek",
               "skip", "<-", "+<-", "stack", "rewind", ".\"", "s\"", "(", ")", "\\", "i", "j", "k", "dup", "+", "0",
               "1", "f", "v", "x", "o", "i->", "#!h->", "int32", "zork", "3bit->", "99999999999999999999", "0x10", "2x"]


def fam_compile(bits, tier):
    """(iv) every one-token deletion, duplication and substitution of the listed valid programs."""
    for base in COMPILE_BASES:
        toks = base.replace("\n", " \n ").split(" ")
        toks = [t for t in toks if t != ""]
        yield Case("compile", base, [("x", bytes(range(1, 13)))], base=base, mutation="none")
        subs = SUBST_WORDS if tier == "thorough" else SUBST_WORDS[::2] + ["then", "loop", ";", "until", "2x"]
        for k in range(len(toks)):
            variants = [("delete", toks[:k] + toks[k + 1:]), ("duplicate", toks[:k + 1] + toks[k:])]
            for s in subs:
                if s != toks[k]:
                    variants.append(("subst:" + s, toks[:k] + [s] + toks[k + 1:]))
            for name, tt in variants:
                src = " ".join(tt).replace(" \n ", "\n")
                yield Case("compile", src, [("x", bytes(range(1, 13)))], base=base, mutation=name, position=k)


FAMILIES = {
    "arith1": fam_arith1, "arith2": fam_arith2, "literal": fam_literal, "control": fam_control, "pause": fam_pause,
    "read_stack": fam_read_stack, "read_out": fam_read_out, "varint": fam_varint, "seek": fam_seek,
    "output": fam_output, "compile": fam_compile,
}
# chunks per family (quick, thorough): shards = family x bits x chunk
CHUNKS = {"arith1": (16, 32), "arith2": (24, 96), "literal": (1, 1), "control": (6, 8), "pause": (2, 2),
          "read_stack": (12, 32), "read_out": (40, 96), "varint": (8, 32), "seek": (2, 2), "output": (6, 16),
          "compile": (6, 12)}


def configs_for(family, tier, prog_has_outputs):
    """Machine configurations explored for a family.  thorough: the full 3x3x3 product where the parameter can
    matter (output growth only matters for programs with outputs); quick: every parameter varied against the
    default, full product for the small control family."""
    if family in ("arith1", "arith2", "literal"):
        return [(s, 1024, 1024, 1.5) for s in CONFIG_STACK] if family != "arith2" or tier == "thorough" \
            else [(1024, 1024, 1024, 1.5), (2, 1024, 1024, 1.5)]
    if family in ("control", "pause"):
        outs = [(1024, 1.5)]
        if tier == "thorough" or family == "control":
            return [(s, r, o[0], o[1]) for s in CONFIG_STACK for r in CONFIG_REC for o in outs]
        return [(1024, r, 1024, 1.5) for r in CONFIG_REC] + [(2, 1024, 1024, 1.5)]
    if family == "compile":
        return [DEFAULT_CFG, (2, 2, 1, 1.0001)]
    # I/O families
    if tier == "thorough":
        return [(s, 1024, o[0], o[1]) for s in (1024, 2) for o in CONFIG_OUT] + [(1, 2, 2, 1.5), (1024, 1, 1, 1.0001)]
    cfgs = [(1024, 1024, o[0], o[1]) for o in CONFIG_OUT]
    cfgs += [(1, 2, 2, 1.5)] if family == "read_out" else [(2, 1024, 1, 1.0001), (1, 2, 2, 1.5)]
    return cfgs


# ---------------------------------------------------------------------------------------------- exploration

def dedupe(seq):
    out = []
    for x in seq:
        if not out or out[-1] != x:
            out.append(x)
    return out


def isolated(fn, timeout=10):
    """Run fn() in a forked child: ('ok', result) or ('signal', signo) -- used for cases the reference marks as
    traps in C++ (e.g. min / -1), so that one SIGFPE does not take the rest of the shard with it."""
    r, w = os.pipe()
    pid = os.fork()
    if pid == 0:
        code = 0
        try:
            os.close(r)
            dn = os.open(os.devnull, os.O_WRONLY)
            os.dup2(dn, 2)      # glibc / sanitizer abort messages of an expected crash
            signal.signal(signal.SIGALRM, signal.SIG_DFL)
            signal.setitimer(signal.ITIMER_REAL, timeout)
            blob = pickle.dumps(fn())
            p = 0
            while p < len(blob):
                p += os.write(w, blob[p:p + 65536])
        except BaseException:
            code = 3
        finally:
            os._exit(code)
    os.close(w)
    chunks = []
    while True:
        c = os.read(r, 65536)
        if not c:
            break
        chunks.append(c)
    os.close(r)
    _, status = os.waitpid(pid, 0)
    if os.WIFSIGNALED(status):
        return ("signal", os.WTERMSIG(status))
    if os.WEXITSTATUS(status) != 0:
        return ("childerror", os.WEXITSTATUS(status))
    return ("ok", pickle.loads(b"".join(chunks)))


class Explorer(object):
    """Explores one (case, bits) over its configurations; collects violations and statistics."""

    def __init__(self, st, tier):
        self.st = st
        self.tier = tier
        self._ref = None
        self._pending = []
        self._inputs = []
        self._refcache = {}

    # ---- violations
    def violation(self, kind, summary, case, bits, cfg, **sig):
        d = case.as_dict(bits, cfg)
        full = dict(sig)
        full["variant"] = akb.variant()
        # per-case details (operands, arguments of the failing primitive) go into the replayable case, where the
        # known-findings predicates read them; they do not form violation groups
        d["detail"] = {k: full.pop(k) for k in ("operands", "args", "result", "expected_stack", "observed_stack")
                       if k in full}
        full["family"] = case.family
        full["bits"] = bits
        for k in ("template", "dtype", "nbits"):
            if k in case.meta and k not in full:
                full[k] = case.meta[k]
        text = "%s: %s\n  program: %r  inputs: %s  ForthMachine%d  config(stack,recursion,out_init,out_resize)=%s" % (
            kind, summary, case.source, d["inputs"], bits, list(cfg) if cfg else None)
        self.st.violation(kind, text, d, **full)

    # ---- one (case, bits)
    def explore(self, case, bits):
        st = self.st
        prog = None
        ref_compile = "ok"
        try:
            prog = R.compile_source(case.source, bits)
        except R.CompileError as e:
            ref_compile = "error"
        except R.Unspecified as e:
            st.outcome("unspecified: " + str(e))
            return
        has_out = bool(prog and prog.outputs)
        cfgs = configs_for(case.family, self.tier, has_out)
        self._refcache = {}
        nontrivial = False
        for ci, cfg in enumerate(cfgs):
            res = self.explore_cfg(case, bits, cfg, prog, ref_compile, first=(ci == 0))
            nontrivial = nontrivial or res
            if ref_compile == "error" or prog is None:
                break      # compilation does not depend on the configuration
        if nontrivial:
            st.nontrivial += 1

    def explore_cfg(self, case, bits, cfg, prog, ref_compile, first):
        st = self.st
        stack_max, rec_max, oinit, ofac = cfg
        inputs = dict(case.inputs)
        # ---------------- reference first (it also says whether the C++ may trap)
        ref = None
        refseq = None
        ref_status = "ok"
        ckey = (id(case), bits, stack_max, rec_max)
        if prog is not None and ckey in self._refcache:
            ref, refseq, ref_status = self._refcache[ckey]
        elif prog is not None:
            ref = R.RefMachine(prog, bits, stack_max, rec_max, budget=4000 if case.family != "control" else 12000)
            try:
                refseq = self.ref_sequence(ref, inputs)
            except R.Budget:
                ref_status = "budget"
            except R.Unspecified as e:
                ref_status = "unspecified: " + str(e)
            except KeyError as e:
                ref_status = "missing input"
            self._refcache[ckey] = (ref, refseq, ref_status)
        hazards = sorted(ref.hazards) if ref is not None else []
        if ref is not None and not hazards:
            # after a value that a known defect gets wrong the machine may do anything (e.g. '1 max mod' gives -1 and a
            # following 'min swap /' traps): keep such runs out of this process as well
            hazards = sorted(self.derived_marks(ref, bits))
        if hazards:
            kind, payload = isolated(lambda: self.cpp_part(case, bits, cfg, prog, ref_compile, ref, refseq, ref_status, first))
            if kind != "ok":
                st.evaluations += 1
                st.outcome("crash")
                self.violation("crash", "the machine died with %s %s while the reference expects %s" % (
                    kind, payload, self.describe_ref(refseq)), case, bits, cfg, hazard=",".join(hazards),
                    at=ref.hazard_at, operands=case.meta.get("operands"),
                    marks=",".join(sorted(ref.marks | self.derived_marks(ref, bits))))
                return True
            viols, counters, outcomes, nontrivial = payload
            for v in viols:
                self.violation(*v[0], **v[1])
            for k, n in counters.items():
                setattr(st, k, getattr(st, k) + n)
            for o in outcomes:
                st.outcome(o)
            return nontrivial
        sub = runner.Stats()
        saved, self.st = self.st, sub
        self._pending = []
        try:
            nontrivial = self.cpp_body(case, bits, cfg, prog, ref_compile, ref, refseq, ref_status, first)
        finally:
            self.st = saved
        for v in self._pending:
            self.violation(*v[0], **v[1])
        for k in ("evaluations", "states", "transitions"):
            setattr(st, k, getattr(st, k) + getattr(sub, k))
        for o, n in sub.outcomes.items():
            st.outcomes[o] = st.outcomes.get(o, 0) + n
        return nontrivial

    def cpp_part(self, case, bits, cfg, prog, ref_compile, ref, refseq, ref_status, first):
        """cpp_body in a form that can be pickled back from a forked child."""
        sub = runner.Stats()
        self.st = sub
        self._pending = []
        nontrivial = self.cpp_body(case, bits, cfg, prog, ref_compile, ref, refseq, ref_status, first)
        outcomes = []
        for o, n in sub.outcomes.items():
            outcomes.extend([o] * n)
        return (self._pending, {"evaluations": sub.evaluations, "states": sub.states, "transitions": sub.transitions},
                outcomes, nontrivial)

    def flag(self, kind, summary, case, bits, cfg, **sig):
        if self._ref is not None and "marks" not in sig:
            sig["marks"] = ",".join(sorted(self._ref.marks | self.derived_marks(self._ref, bits)))
        self._pending.append(((kind, summary, case, bits, cfg), sig))

    @staticmethod
    def derived_marks(ref, bits):
        """Marks computed by the harness from the reference's event log, used only to attribute violations to
        known findings whose effect can surface at a later word than the one that is wrong."""
        out = set()
        hi = (1 << (bits - 1)) - 1
        lo = -hi - 1
        for tag, pre, _, _, _ in ref.evlog:
            if tag in ("mod", "/mod") and len(pre) >= 2:
                a, b = pre[-2], pre[-1]
                if b != 0 and not (a == lo and b == -1):
                    r = abs(a) % abs(b)
                    r = -r if a < 0 else r
                    if not (lo <= b + r <= hi):
                        out.add("mod-overflow")
            elif tag == "abs" and pre and not (-(1 << 31) <= pre[-1] < (1 << 31)):
                out.add("abs-beyond-int32")
        return out

    # ---- reference helpers
    def ref_sequence(self, ref, inputs):
        seq = []
        err = ref.run(inputs)
        seq.append((err, ref.words(), ref.last_tag))
        while err == 0 and not ref.done:
            if len(seq) >= 300:
                raise R.Budget()      # pausing for ever
            err = ref.resume()
            seq.append((err, ref.words(), ref.last_tag))
        return seq

    @staticmethod
    def describe_ref(refseq):
        if not refseq:
            return "(no reference result)"
        err, words = refseq[-1][0], refseq[-1][1]
        return "%s %s" % (ERRORS[err], R.describe(words))

    @staticmethod
    def describe_cpp(err, words):
        try:
            return "%s %s" % (ERRORS[err] if 0 <= err < len(ERRORS) else err, R.describe(words))
        except Exception:
            return "%s %r" % (err, words)

    # ---- the C++ side
    def cpp_body(self, case, bits, cfg, prog, ref_compile, ref, refseq, ref_status, first):
        st = self.st
        self._ref = ref
        stack_max, rec_max, oinit, ofac = cfg
        st.evaluations += 1
        try:
            m = forth.ForthMachine(case.source, bits, stack_max, rec_max, oinit, ofac)
        except akb.BridgeError as e:
            st.outcome("compile_error")
            if e.cls not in ("ValueError", "IndexError"):
                self.flag("compile-exception", "compilation raised %s: %s" % (e.cls, e.msg[:200]), case, bits, cfg)
            if ref_compile == "ok":
                self.flag("rejects-valid", "the machine rejects a program the reference accepts: %s" % e.msg[:300],
                          case, bits, cfg)
            return True
        try:
            if ref_compile == "error":
                st.outcome("accepted-invalid")
                self.flag("accepts-invalid", "the machine compiles a program the reference rejects (decompiled: %r)"
                          % m.decompiled[:200], case, bits, cfg, token=self.odd_token(case))
                return True
            if ref_status == "missing input":
                m.set_inputs({})
                try:
                    m.begin()
                    self.flag("wrong-result", "begin() accepted a program whose input was not provided", case, bits, cfg)
                except akb.BridgeError:
                    st.outcome("missing input error")
                return True
            # input positions are reported in the order given here: use the program's declaration order
            given = dict(case.inputs)
            ordered = [(n, given[n]) for n in prog.inputs if n in given] + [(n, b) for n, b in case.inputs
                                                                            if n not in prog.inputs]
            m.set_inputs(ordered)
            self._inputs = ordered
            if ref_status.startswith("unspecified"):
                st.outcome(ref_status)
                if ref_status.endswith("negative repeat count"):
                    self.negative_count(case, bits, cfg, m, ref)
                return False
            if ref_status == "budget":
                st.outcome("budget (endless loop): stepped prefix only")
                self.stepped(case, bits, cfg, m, ref, None, prefix_only=True)
                return True
            self.schedules(case, bits, cfg, m, prog, ref, refseq, first)
            err = refseq[-1][0]
            st.outcome("done" if err == 0 else ERRORS[err])
            return True
        finally:
            m.close()

    @staticmethod
    def odd_token(case):
        """For 'accepts-invalid': the first token that is not a word of the language (signature component)."""
        for t in case.source.split():
            if R.parse_int(t) is None and t[:1].isdigit():
                return "digits-then-garbage"
        return case.meta.get("mutation", "")

    def negative_count(self, case, bits, cfg, m, ref):
        """'-1 x #b-> ...': the reference has no value for it; the machine must either report an error or leave
        the input position and output length untouched.  Run in a child process: the C++ walks out of its buffers."""
        self.st.transitions += 1

        def child():
            mm = forth.ForthMachine(case.source, bits, cfg[0], cfg[1], cfg[2], cfg[3])
            mm.set_inputs(self._inputs)
            err = mm.run()
            return err, mm.snapshot()
        kind, payload = isolated(child)
        if kind != "ok":
            self.flag("crash", "a negative repeat count killed the machine (%s %s)" % (kind, payload), case, bits, cfg,
                      hazard="negative-count", at=ref.last_tag)
            return
        err, snap = payload
        d = R.describe(snap)
        bad = [p for p in d["input_positions"] if p < 0] or [o for o in d["outputs"] if isinstance(o[1], str)]
        if err == 0 and bad:
            self.flag("wrong-result", "a negative repeat count moved the input position / output length below zero "
                      "without an error: %s" % d, case, bits, cfg, hazard="negative-count", at=ref.last_tag)

    def cpp_sequence(self, m, mode, limit):
        if mode == "run":
            err = m.run()
        else:
            m.begin()
            err = m.resume()
        snap = m.snapshot()
        seq = [(err, snap, m.status_raw()[4])]
        while err == 0 and not snap[1] and len(seq) < limit:
            err = m.resume()
            snap = m.snapshot()
            seq.append((err, snap, m.status_raw()[4]))
        return seq

    def compare_sequences(self, case, bits, cfg, label, cseq, refseq, ref, **sig):
        """Segment-boundary states (after run and after every resume) against the reference."""
        self.st.transitions += len(cseq)
        cb = dedupe([s[1][2:] for s in cseq])
        rb = dedupe([s[1][2:] for s in refseq])
        cfin = (cseq[-1][0], cseq[-1][1][:2])
        rfin = (refseq[-1][0], refseq[-1][1][:2])
        if cb == rb and cfin == rfin:
            return None
        # locate the first differing boundary and name the reference event that produced it
        k = 0
        while k < len(cb) and k < len(rb) and cb[k] == rb[k]:
            k += 1
        kind = "wrong-result" if cb != rb else "wrong-status"
        obs = ERRORS[cfin[0]] if 0 <= cfin[0] < len(ERRORS) else str(cfin[0])
        text = "%s: expected %s, observed %s (boundary %d of %d/%d; final status expected %s observed %s)" % (
            label, R.describe_body(rb[k]) if k < len(rb) else "(nothing more)",
            R.describe_body(cb[k]) if k < len(cb) else "(nothing more)", k, len(rb), len(cb),
            (ERRORS[rfin[0]], rfin[1]), (obs, cfin[1]))
        at = refseq[min(k, len(refseq) - 1)][2] if len(refseq[0]) > 2 else None
        return {"kind": kind, "text": text, "at": at, "expected_error": ERRORS[rfin[0]], "observed_error": obs,
                "stacks": {"expected_stack": R.describe_body(rb[k])["stack"][-8:] if k < len(rb) else None,
                           "observed_stack": R.describe_body(cb[k])["stack"][-8:] if k < len(cb) else None}}

    def stepped(self, case, bits, cfg, m, ref, refseq, prefix_only=False, run_ok=True, run_final=None):
        """begin, then step to the end: the deduplicated sequence of states must be the reference trace."""
        st = self.st
        reftrace = [t[0] for t in ref.trace]
        cap = 3 * ref.events + 12 if not prefix_only else 80
        m.begin()
        snap = m.snapshot()
        states = [snap[2:]]
        by_count = {}
        err = 0
        nsteps = 0
        counts = [m.status_raw()[4]]
        for _ in range(cap):
            err = m.step()
            nsteps += 1
            snap = m.snapshot()
            c = m.status_raw()[4]
            counts.append(c)
            states.append(snap[2:])
            by_count[(c, snap[1])] = snap[2:]
            if err != 0 or snap[1]:
                break
        st.transitions += nsteps
        st.states += len(by_count)
        ds = []
        silent = []          # steps without a state change before each distinct state
        quiet = 0
        for x in states:
            if ds and ds[-1] == x:
                quiet += 1
            else:
                ds.append(x)
                silent.append(quiet)
                quiet = 0
        ok = True
        div_tag = None
        self._div = {}
        if prefix_only:
            n = min(len(ds), len(reftrace))
            # the last observed state may be in the middle of what the reference has not reached yet
            if ds[:n - 1] != reftrace[:n - 1]:
                ok = False
        else:
            rfin = (refseq[-1][0], refseq[-1][1][:2])
            if ds != reftrace or (err, snap[:2]) != rfin:
                ok = False
        if not ok:
            k = 0
            while k < len(ds) and k < len(reftrace) and ds[k] == reftrace[k]:
                k += 1
            # Which reference event is it?  Those executed since the last agreed state: all but the last leave
            # the reference state unchanged (e.g. abs of min); the machine spent silent[k] steps without a change
            # before it changed, so that many of them it executed as no-ops as well.
            cands = [ev for ev in ref.evlog if ev[4] == k - 1]
            culprit = None
            if cands:
                noops = len(cands) - 1 if k < len(ref.trace) else len(cands)
                quiet_steps = silent[k] if k < len(silent) else quiet
                culprit = cands[quiet_steps] if quiet_steps < noops else cands[-1]
            div_tag = culprit[0] if culprit else (ref.trace[k][1] if k < len(ref.trace) else None)
            self._div = {"args": list(culprit[1]) if culprit else [],
                         "expected_stack": R.describe_body(reftrace[k])["stack"][-8:] if k < len(reftrace) else None,
                         "observed_stack": R.describe_body(ds[k])["stack"][-8:] if k < len(ds) else None}
            self._culprit = culprit
        if not ok and not run_ok:
            # the run itself already departs from the reference (reported as wrong-result); here only ask whether
            # stepping and running agree with each other
            if run_final is not None and (err, snap) != run_final:
                self.flag("schedule-divergence", "stepping ends with %s, run ends with %s" % (
                    self.describe_cpp(err, snap), self.describe_cpp(*run_final)), case, bits, cfg,
                    schedule="run-vs-step", at=None, after_loop_increment=bool(ref.loop_incs > 0))
        elif not ok:
            k = 0
            while k < len(ds) and k < len(reftrace) and ds[k] == reftrace[k]:
                k += 1
            tag = div_tag or "end"
            incs = ref.trace[k][2] if k < len(ref.trace) else ref.loop_incs
            exits = ref.trace[k][4] if k < len(ref.trace) else ref.exits
            # same end state as run: only an intermediate value is off (a value defect, not a schedule defect)
            kind = "step-divergence" if (run_final is None or (err, snap) != run_final) else "wrong-intermediate"
            self.flag(kind, "single-stepping departs from the reference after %d distinct states, at "
                      "reference event %r: expected %s, observed %s; ended with %s after %d steps (reference ends with %s)" % (
                          k, tag, R.describe_body(reftrace[k]) if k < len(reftrace) else "(end)",
                          R.describe_body(ds[k]) if k < len(ds) else "(end)",
                          ERRORS[err] if 0 <= err < len(ERRORS) else err, nsteps,
                          ERRORS[refseq[-1][0]] if refseq else "?"),
                      case, bits, cfg, schedule="step", at=tag, after_loop_increment=bool(incs > 0),
                      after_exit=bool(exits > 0), operands=case.meta.get("operands"), **self._div)
        else:
            # instruction counter: one per step, except for steps that only leave finished segments
            for a, b in zip(counts, counts[1:]):
                if not (0 <= b - a <= 2):
                    self.flag("wrong-status", "count_instructions moved from %d to %d in one step" % (a, b), case, bits,
                              cfg, schedule="step", at="count_instructions")
                    break
            if not prefix_only and err == 0:
                e2 = m.step()
                if e2 != E["is_done"] or m.snapshot()[2:] != states[-1]:
                    self.flag("wrong-status", "step after the end returned %s" % e2, case, bits, cfg, schedule="step",
                              at="is_done")
        return ok, by_count, nsteps, div_tag

    def schedules(self, case, bits, cfg, m, prog, ref, refseq, first):
        st = self.st
        limit = len(refseq) + 3
        if first:
            # before begin: step/resume/call answer 'not ready' and change nothing
            m.reset()
            before = m.snapshot()
            got = [m.step(), m.resume()] + ([m.call(prog.def_order[0])] if prog.def_order else [])
            st.transitions += len(got)
            if any(e != E["not_ready"] for e in got) or m.snapshot() != before or before[:3] != (0, 1, 0):
                self.flag("wrong-status", "before begin: step/resume/call returned %s, state %s -> %s" % (
                    got, before, m.snapshot()), case, bits, cfg, schedule="not-ready", at=None)
        # run ; resume*
        cseq = self.cpp_sequence(m, "run", limit)
        diff = self.compare_sequences(case, bits, cfg, "run", cseq, refseq, ref)
        run_ok = diff is None
        if first and cseq[-1][0] != 0:
            # what the Python binding raises for this end state
            err = cseq[-1][0]
            try:
                m.maybe_throw(err)
                self.flag("wrong-status", "maybe_throw did not raise for %s" % ERRORS[err], case, bits, cfg,
                          schedule="run", at="maybe_throw")
            except akb.BridgeError as e:
                if e.cls != "ValueError" or ("'%s'" % ERRORS[err].replace("_", " ")) not in e.msg:
                    self.flag("wrong-status", "maybe_throw for %s raised %s: %s" % (ERRORS[err], e.cls, e.msg[:120]),
                              case, bits, cfg, schedule="run", at="maybe_throw")
        # begin ; resume*   (the Python binding's run)
        cseq2 = self.cpp_sequence(m, "begin", limit)
        if [(e, s) for e, s, _ in cseq2] != [(e, s) for e, s, _ in cseq]:
            st.transitions += len(cseq2)
            self.flag("schedule-divergence", "begin+resume differs from run: %s vs %s" % (
                self.describe_cpp(cseq2[-1][0], cseq2[-1][1]), self.describe_cpp(cseq[-1][0], cseq[-1][1])),
                case, bits, cfg, schedule="begin-resume", at=None)
        # determinism: the same schedule again on the same machine object
        cseq3 = self.cpp_sequence(m, "run", limit)
        if [(e, s) for e, s, _ in cseq3] != [(e, s) for e, s, _ in cseq]:
            self.flag("nondeterminism", "a second run on the same machine differs: %s vs %s" % (
                self.describe_cpp(cseq3[-1][0], cseq3[-1][1]), self.describe_cpp(cseq[-1][0], cseq[-1][1])),
                case, bits, cfg, schedule="run-twice", at=None)
        if case.inputs and first:
            ib = m.input_bytes()
            for name, data in case.inputs:
                if ib.get(name) != data:
                    self.flag("wrong-result", "input %r was left modified: %r -> %r" % (name, data, ib.get(name)), case,
                              bits, cfg, schedule="run", at="input-bytes")
        # begin ; step*
        step_ok, by_count, nsteps, div_tag = self.stepped(case, bits, cfg, m, ref, refseq, run_ok=run_ok,
                                                          run_final=(cseq[-1][0], cseq[-1][1]))
        if diff is not None:
            # name the primitive at which the machine first leaves the reference trace (seen by stepping)
            self.flag(diff["kind"], diff["text"], case, bits, cfg, schedule="run", at=div_tag or diff["at"],
                      expected_error=diff["expected_error"], observed_error=diff["observed_error"],
                      operands=case.meta.get("operands"), **(self._div or diff["stacks"]))
        # confluence by instruction count between the run path and the step path
        if step_ok:
            for err, snap, count in cseq:
                key = (count, snap[1])
                if key in by_count and by_count[key] != snap[2:]:
                    self.flag("schedule-divergence", "after %d instructions run/resume has %s but stepping has %s" % (
                        count, R.describe_body(snap[2:]), R.describe_body(by_count[key])), case, bits, cfg,
                        schedule="run-vs-step", at=None)
                    break
        # begin ; step^k ; resume*
        if nsteps > 1 and step_ok:
            if self.tier == "thorough":
                ks = list(range(1, min(nsteps, 48)))
            elif not first:
                ks = [max(1, nsteps // 2)]
            elif nsteps <= 10:
                ks = list(range(1, nsteps))
            else:
                ks = sorted(set([1, 2, 3, nsteps // 2, nsteps - 2, nsteps - 1]))
            for k in ks:
                m.begin()
                err = 0
                for _ in range(k):
                    err = m.step()
                    if err != 0:
                        break
                snap = m.snapshot()
                n = 0
                while err == 0 and not snap[1] and n < limit:
                    err = m.resume()
                    snap = m.snapshot()
                    n += 1
                    c = m.status_raw()[4]
                    key = (c, snap[1])
                    if step_ok and key in by_count and by_count[key] != snap[2:]:
                        self.flag("schedule-divergence", "step^%d then resume: after %d instructions %s but stepping has %s"
                                  % (k, c, R.describe_body(snap[2:]), R.describe_body(by_count[key])), case, bits, cfg,
                                  schedule="step-then-resume", at=None, after_loop_increment=ref.loop_incs > 0)
                        break
                st.transitions += k + n
                fin = (err, snap)
                want = (cseq[-1][0], cseq[-1][1])
                if fin != want and run_ok:
                    self.flag("schedule-divergence", "step^%d then resume ends with %s, run ends with %s" % (
                        k, self.describe_cpp(*fin), self.describe_cpp(*want)), case, bits, cfg,
                        schedule="step-then-resume", at=None, after_loop_increment=ref.loop_incs > 0)
                    break
        # call(w) after begin, at every pause, and at the end
        if prog.defs and run_ok:
            self.calls(case, bits, cfg, m, prog, ref, refseq)
        # decompiled() round trip
        if first:
            self.decompiled(case, bits, cfg, m, cseq)
        if case.meta.get("print") and first:
            self.printed(case, bits, cfg, m, ref)

    def calls(self, case, bits, cfg, m, prog, ref, refseq):
        st = self.st
        stack_max, rec_max = cfg[0], cfg[1]
        inputs = dict(case.inputs)
        names = list(prog.def_order)[:3]
        npoints = min(len(refseq), 6)
        for point in range(-1, npoints):
            for w in names:
                # reference: replay to the point, call, then resume to the end
                r2 = R.RefMachine(prog, bits, stack_max, rec_max, budget=4000)
                want = []
                try:
                    if point < 0:
                        r2.begin(inputs)
                        err = 0
                    else:
                        err = r2.run(inputs)
                        for _ in range(point):
                            err = r2.resume()
                    err = r2.call(w)
                    want.append((err, r2.words()[2:]))
                    n = 0
                    while err == 0 and not r2.done and n < 50:
                        err = r2.resume()
                        want.append((err, r2.words()[2:]))
                        n += 1
                    wfin = (err, r2.words()[:2])
                except (R.Budget, R.Unspecified):
                    continue
                def cpp_call(mm):
                    if point < 0:
                        mm.begin()
                    else:
                        mm.run()
                        for _ in range(point):
                            mm.resume()
                    got = []
                    err = mm.call(w)
                    snap = mm.snapshot()
                    got.append((err, snap[2:]))
                    n = 0
                    while err == 0 and not snap[1] and n < 50:
                        err = mm.resume()
                        snap = mm.snapshot()
                        got.append((err, snap[2:]))
                        n += 1
                    return got, err, snap

                if r2.hazards:
                    # e.g. call at the recursion limit: the C++ writes out of bounds; never in this process
                    def child():
                        mm = forth.ForthMachine(case.source, bits, cfg[0], cfg[1], cfg[2], cfg[3])
                        mm.set_inputs(self._inputs)
                        out = cpp_call(mm)
                        mm.close()
                        return out
                    kind, payload = isolated(child)
                    st.transitions += 1
                    if kind != "ok":
                        self.flag("crash", "call(%r) %s died with %s %s; the reference expects %s" % (
                            w, "after begin" if point < 0 else "after run+%d resume(s)" % point, kind, payload,
                            (ERRORS[wfin[0]], wfin[1])), case, bits, cfg, schedule="call", at=r2.hazard_at,
                            hazard=",".join(sorted(r2.hazards)))
                        return
                    got, err, snap = payload
                else:
                    got, err, snap = cpp_call(m)
                st.transitions += len(got) + max(point, 0) + 1
                gfin = (err, snap[:2])
                if dedupe([b for _, b in got]) != dedupe([b for _, b in want]) or gfin != wfin:
                    k = 0
                    while k < len(got) and k < len(want) and got[k] == want[k]:
                        k += 1
                    self.flag("schedule-divergence", "call(%r) %s: expected %s, observed %s" % (
                        w, "after begin" if point < 0 else "after run+%d resume(s)" % point,
                        [(ERRORS[e], R.describe_body(b)["stack"]) for e, b in want[:4]] + [wfin],
                        [(ERRORS[e] if 0 <= e < len(ERRORS) else e, R.describe_body(b)["stack"]) for e, b in got[:4]] + [gfin]),
                        case, bits, cfg, schedule="call", at="call", hazard=",".join(sorted(r2.hazards)),
                        marks=",".join(sorted(r2.marks)))
                    return

    def decompiled(self, case, bits, cfg, m, cseq):
        st = self.st
        text = m.decompiled
        try:
            m2 = forth.ForthMachine(text, bits, cfg[0], cfg[1], cfg[2], cfg[3])
        except akb.BridgeError as e:
            self.flag("decompile-mismatch", "decompiled() does not compile: %r: %s" % (text, e.msg[:200]), case, bits, cfg,
                      schedule="decompile", at=None)
            return
        try:
            if m2.bytecodes != m.bytecodes:
                self.flag("decompile-mismatch", "decompiled() %r recompiles to other bytecodes %s vs %s" % (
                    text, m2.bytecodes, m.bytecodes), case, bits, cfg, schedule="decompile", at=None)
                return
            m2.set_inputs(self._inputs)
            seq2 = self.cpp_sequence(m2, "run", len(cseq) + 2)
            st.transitions += len(seq2)
            if [(e, s) for e, s, _ in seq2] != [(e, s) for e, s, _ in cseq]:
                self.flag("decompile-mismatch", "decompiled() %r runs differently: %s vs %s" % (
                    text, self.describe_cpp(seq2[-1][0], seq2[-1][1]), self.describe_cpp(cseq[-1][0], cseq[-1][1])),
                    case, bits, cfg, schedule="decompile", at=None)
        finally:
            m2.close()

    def printed(self, case, bits, cfg, m, ref):
        """'.', 'cr', '.s', '."' write to the process's stdout: capture file descriptor 1 around one run."""
        import ctypes
        libc = ctypes.CDLL(None)
        libc.fflush(None)
        saved = os.dup(1)
        fd = os.memfd_create("c19out")
        try:
            os.dup2(fd, 1)
            m.run()
            while not m.is_done and m.resume() == 0:
                pass
            libc.fflush(None)
        finally:
            os.dup2(saved, 1)
            os.close(saved)
        os.lseek(fd, 0, 0)
        got = os.read(fd, 1 << 20).decode("utf-8", "replace")
        os.close(fd)
        want = "".join(ref.printed)
        self.st.transitions += 1
        if got != want:
            self.flag("wrong-result", "printed text %r, expected %r" % (got, want), case, bits, cfg, schedule="run",
                      at="print")


# ---------------------------------------------------------------------------------------------- the check

def _silence_stdout():
    """The print words write to C stdout; a worker's stdout is not used for anything else."""
    try:
        dn = os.open(os.devnull, os.O_WRONLY)
        os.dup2(dn, 1)
        os.close(dn)
    except OSError:
        pass


def _vget(v, k):
    case = v.get("case") or {}
    if k in v:
        return v[k]
    for d in (case.get("detail") or {}, case, case.get("meta") or {}):
        if k in d:
            return d[k]
    return None


def _fields_ok(v, fields):
    for k, want in fields.items():
        got = _vget(v, k)
        if k == "marks_any":
            have = set((_vget(v, "marks") or "").split(","))
            if not (have & set(want)):
                return False
        elif isinstance(want, list):
            if got not in want:
                return False
        elif got != want:
            return False
    return True


@findings.predicate("c19_fields")
def _c19_fields(v, params):
    """All listed fields equal (a list = any of), looked up in the violation, its case detail, case and meta;
    'marks_any' = at least one of the listed reference-execution marks is present."""
    return _fields_ok(v, params.get("fields", {}))


@findings.predicate("c19_mod_overflow")
def _c19_mod_overflow(v, params):
    """mod or /mod applied to a, b for which b + (a rem b) leaves the cell range (the C++ computes exactly that)."""
    if not _fields_ok(v, {"kind": ["wrong-result", "wrong-intermediate", "step-divergence"], "at": ["mod", "/mod"]}):
        return False
    bits = _vget(v, "bits")
    args = _vget(v, "args") or []
    if len(args) < 2 or bits not in (32, 64):
        return False
    a, b = args[-2], args[-1]
    hi = (1 << (bits - 1)) - 1
    lo = -hi - 1
    if b == 0 or (a == lo and b == -1):
        return False
    r = abs(a) % abs(b)
    r = -r if a < 0 else r          # C++ remainder: sign of the dividend
    return not (lo <= b + r <= hi)


@findings.predicate("c19_abs64")
def _c19_abs64(v, params):
    """abs on ForthMachine64 of a value outside the int32 range (the C++ calls the int overload of abs)."""
    if not _fields_ok(v, {"kind": ["wrong-result", "wrong-intermediate", "step-divergence"], "at": "abs", "bits": 64}):
        return False
    args = _vget(v, "args") or []
    return bool(args) and not (-(1 << 31) <= args[-1] < (1 << 31))


def _trunc32(x):
    x &= 0xffffffff
    return x - (1 << 32) if x & 0x80000000 else x


@findings.predicate("c19_trunc32")
def _c19_trunc32(v, params):
    """ForthMachine64: the observed stack is the expected stack with every cell cut to its low 32 bits
    (sign-extended), and the failing event is one of params['at'] (prefix match)."""
    if _vget(v, "bits") != 64 or _vget(v, "kind") not in ("wrong-result", "wrong-intermediate", "step-divergence"):
        return False
    at = _vget(v, "at") or ""
    if not any(at == p or at.startswith(p) for p in params.get("at", [])):
        return False
    exp, obs = _vget(v, "expected_stack"), _vget(v, "observed_stack")
    if not exp or not obs or len(exp) != len(obs) or exp == obs:
        return False
    # a float/double converted to int32 when it does not fit gives the x86 'integer indefinite' value
    isfloat = at.startswith("read:") and at[-1] in "fd"

    def same(e, o):
        return o == e or o == _trunc32(e) or (isfloat and not (-(1 << 31) <= e < (1 << 31)) and o == -(1 << 31))
    return all(same(e, o) for e, o in zip(exp, obs))


class C19(runner.Check):
    id = "C19"
    level = "model_checking"
    variant = "san" if os.environ.get("C19_SAN") == "1" else "rel"
    watchdog_s = 60.0
    rule = ("states = distinct (program, input, machine width+configuration, count_instructions, is_done) observable states "
            "(stack, variables, input positions, output dtype/length/bytes, readiness) reached on the real ForthMachine32/64; "
            "transitions = run/resume/step/call segments executed and compared; every state is compared with the reference "
            "interpreter model/refforth.py and with every other schedule path reaching the same instruction count "
            "(run; begin+resume; begin+step*; begin+step^k+resume* for all k (quick: on the first configuration all k if <=10 steps else 6 cut points, one cut point on the other configurations); "
            "call(w) for every defined word after begin, at every pause and at the end; decompiled() recompiled). "
            "programs = families arith1 (every built-in word after every 0..3-tuple of the 10 operands), arith2 (every word "
            "pair after reduced operand tuples), literal, control (if/else, do/loop/+loop incl. zero/negative steps and i j k, "
            "begin/until/while/again, exit/halt/pause, definitions and recursion past the limit, variables, strings, print), "
            "pause (pause inserted at every token boundary), read_stack/read_out (every typed read word x #-counts x output "
            "dtypes x prefix-closed byte strings over {00,01,7f,80,ff} ({00,3f,80,c0,41,7f,ff} for floats, {00,01} for bool): "
            "all strings up to 2*size bytes for 1- and 2-byte types (quick: 3 bytes for 2-byte types); for 4- and 8-byte types "
            "all strings up to 1 (quick) / 3 (thorough) bytes plus every prefix of every pair of items drawn from 7 (quick) / "
            "17 (thorough) edge patterns; quick read_out uses every third input), varint/zigzag/nbit, seek/skip, output "
            "(<- +<- dup rewind len x dtypes x operands), compile (every one-token deletion/duplication/substitution of 13 "
            "programs). non-trivial = the program was compiled by both sides and ran to a specified end state (done or a "
            "specified error), or was rejected by the compiler; distinct by construction of the families.")
    assumptions = ["bridge facade akb_forth.cpp forwards to the public C++ API one call per function",
                   "reference semantics in model/refforth.py (choices the C++ makes where standard Forth is silent are "
                   "listed there as CHOICE: with source lines)",
                   "shift counts outside 0..width-1, float->int conversions of out-of-range values, bool input bytes other "
                   "than 0/1 and backslashes in strings are treated as unspecified and not compared"]
    budget_s = {}

    def families(self, tier):
        only = os.environ.get("C19_FAMILIES")
        names = list(FAMILIES)
        if only:
            names = [n for n in names if n in only.split(",")]
        return names

    def shards(self, tier):
        out = []
        # the most expensive families first, so that the pool ends with small shards
        order = ["read_out", "read_stack", "arith2", "arith1", "varint", "control", "output", "compile", "pause", "seek",
                 "literal"]
        for fam in sorted(self.families(tier), key=order.index):
            n = CHUNKS[fam][0 if tier == "quick" else 1]
            for bits in (32, 64):
                for c in range(n):
                    out.append({"family": fam, "bits": bits, "chunk": c, "of": n, "tier": tier})
        return out

    def run_shard(self, shard):
        _silence_stdout()
        st = runner.Stats()
        ex = Explorer(st, shard["tier"])
        fam, bits = shard["family"], shard["bits"]
        for idx, case in enumerate(FAMILIES[fam](bits, shard["tier"])):
            if idx % shard["of"] != shard["chunk"]:
                continue
            pool.mark(idx)
            ex.explore(case, bits)
            if len(st.samples) < 2 and idx < 400:
                st.sample({"family": fam, "bits": bits, "program": case.source,
                           "inputs": [[n, b.hex()] for n, b in case.inputs]}, limit=2)
        pool.unmark()
        return st.pack()

    def crash_case(self, crash):
        """(shard, case_no) -> the concrete program, so that a crash/hang is replayable and matchable."""
        shard = crash.shard
        for idx, case in enumerate(FAMILIES[shard["family"]](shard["bits"], shard["tier"])):
            if idx == crash.case_no:
                d = case.as_dict(shard["bits"])
                d["tier"] = shard["tier"]
                return d
        return {"shard": shard, "case_no": crash.case_no}

    def replay(self, case):
        c = Case(case["family"], case["source"], [(n, bytes.fromhex(h)) for n, h in case.get("inputs", [])],
                 **case.get("meta", {}))
        st = runner.Stats()
        ex = Explorer(st, case.get("tier", "thorough"))
        bits = case["bits"]
        saved = os.dup(1)
        sys.stdout.flush()
        _silence_stdout()
        try:
            if case.get("config"):
                prog, rc = None, "ok"
                try:
                    prog = R.compile_source(c.source, bits)
                except R.CompileError:
                    rc = "error"
                ex.explore_cfg(c, bits, tuple(case["config"]), prog, rc, first=True)
            else:
                ex.explore(c, bits)
        finally:
            os.dup2(saved, 1)
            os.close(saved)
        lines = ["program: %r" % c.source, "inputs: %s" % case.get("inputs"), "machine: ForthMachine%d config=%s" % (
            bits, case.get("config"))]
        for v in st.violations:
            lines.append(v["summary"])
        if not st.violations:
            lines.append("all schedules agree with the reference; outcomes: %s" % st.outcomes)
        return bool(st.violations), "\n".join(lines)

    def extra_coverage(self, tier, merged):
        return {"families": self.families(tier), "machines": ["ForthMachine32", "ForthMachine64"],
                "configurations": {"stack_depth": CONFIG_STACK, "recursion_depth": CONFIG_REC, "output(initial,resize)": CONFIG_OUT}}


if __name__ == "__main__":
    sys.exit(runner.main(C19()))
