#!/usr/bin/env python3
"""C20 -- Numba-compiled code sees the same values as interpreted Python.

For every array type of the menu a family of access programs is *generated from the type* (iteration, positive and
negative indexing, every range slice, field access in both orders, 'in' tests, np.asarray of numeric leaves, early exits,
pass-through, out-of-range indexes, ArrayBuilder calls); each program is compiled by Numba through the repository's own
lowering (src/awkward/_connect/_numba) and run on every array of the type in every physical encoding, wrapped in virtual and
partitioned arrays too; the oracle is the same function run by the interpreter on the same array, the array's to_list, and
the reference counts of the Python objects before and after repeated calls."""
import gc
import itertools
import os
import sys

sys.path.insert(0, os.path.join(os.path.dirname(os.path.dirname(os.path.abspath(__file__))), "mc"))
import runner  # noqa: E402
from runner import Stats  # noqa: E402
import pool  # noqa: E402
import numpy as np  # noqa: E402
import layouts  # noqa: E402
import layoutsem  # noqa: E402
import values  # noqa: E402
import encs  # noqa: E402
from values import I, F, B, S, var, opt, rec, reg, tup, union  # noqa: E402

TYPES_QUICK = [I, F, B, var(I), var(F), opt(I), var(opt(I)), opt(var(I)), var(var(I)), reg(2, I), var(reg(2, F)),
               rec(("x", I), ("y", var(F))), var(rec(("x", I), ("y", F))), tup(I, var(I)), S, var(S), opt(rec(("x", I))),
               rec(("x", opt(I)), ("y", rec(("z", var(I))))), union(I, var(I)), var(opt(var(I)))]
TYPES_THOROUGH = TYPES_QUICK + [var(var(var(I))), reg(0, I), reg(3, var(I)), var(opt(rec(("x", I), ("y", var(I))))), opt(S),
                                var(tup(F, B)), opt(opt(I)) if False else var(B), rec(("x", var(var(F)))), var(reg(1, I))]


# ------------------------------------------------------------------------------------------------------- program generator
class Gen(object):
    def __init__(self):
        self.lines = []
        self.n = 0

    def fresh(self, p):
        self.n += 1
        return "%s%d" % (p, self.n)

    def emit(self, indent, text):
        self.lines.append("    " * indent + text)


def has_kind(T, kinds):
    k = T[0]
    if k in kinds:
        return True
    if k in ("var", "opt"):
        return has_kind(T[1], kinds)
    if k == "reg":
        return has_kind(T[2], kinds)
    if k == "rec":
        return any(has_kind(t, kinds) for _, t in T[1])
    if k in ("tup", "union"):
        return any(has_kind(t, kinds) for t in T[1])
    return False


def walk(g, T, var_, ind, style):
    """Emit statements that record the value held in var_ (of type T) into the builder b."""
    k = T[0]
    if k == "opt" and T[1][0] in ("int", "float", "bool"):
        # Numba does not narrow Optional types in branches; ArrayBuilder.append takes an optional number as it is
        g.emit(ind, "b.append(%s)" % var_)
    elif k == "opt":
        g.emit(ind, "if %s is None:" % var_)
        g.emit(ind + 1, "b.null()")
        g.emit(ind, "else:")
        walk(g, T[1], var_, ind + 1, style)
    elif k == "int":
        g.emit(ind, "b.integer(%s)" % var_)
    elif k == "float":
        g.emit(ind, "b.real(%s)" % var_)
    elif k == "bool":
        g.emit(ind, "b.boolean(%s)" % var_)
    elif k in ("str", "bytes"):
        g.emit(ind, "b.integer(len(%s))" % var_)
    elif k in ("var", "reg"):
        Tc = T[1] if k == "var" else T[2]
        g.emit(ind, "b.begin_list()")
        v = g.fresh("v")
        if style == "iter":
            g.emit(ind, "for %s in %s:" % (v, var_))
            walk(g, Tc, v, ind + 1, style)
        else:
            i = g.fresh("i")
            g.emit(ind, "for %s in range(len(%s)):" % (i, var_))
            if style == "index":
                g.emit(ind + 1, "%s = %s[%s]" % (v, var_, i))
            else:
                g.emit(ind + 1, "%s = %s[%s - len(%s)]" % (v, var_, i, var_))
            walk(g, Tc, v, ind + 1, style)
        g.emit(ind, "b.end_list()")
    elif k == "rec":
        g.emit(ind, "b.begin_record()")
        for key, Tf in T[1]:
            g.emit(ind, "b.field(%r)" % key)
            f = g.fresh("f")
            if style == "iter":
                g.emit(ind, "%s = %s.%s" % (f, var_, key))
            else:
                g.emit(ind, "%s = %s[%r]" % (f, var_, key))
            walk(g, Tf, f, ind, style)
        g.emit(ind, "b.end_record()")
        if not T[1]:
            pass
    elif k == "tup":
        g.emit(ind, "b.begin_tuple(%d)" % len(T[1]))
        for fi, Tf in enumerate(T[1]):
            g.emit(ind, "b.index(%d)" % fi)
            f = g.fresh("f")
            g.emit(ind, "%s = %s[%r]" % (f, var_, str(fi)))
            walk(g, Tf, f, ind, style)
        g.emit(ind, "b.end_tuple()")
    else:
        raise NotImplementedError(k)


def program_walk(T, style):
    g = Gen()
    g.emit(0, "def prog(x, b):")
    walk(g, ("var", T), "x", 1, style)
    g.emit(1, "return b")
    return "\n".join(g.lines)


def program_slices(T):
    g = Gen()
    g.emit(0, "def prog(x, b):")
    g.emit(1, "n = len(x)")
    g.emit(1, "for i in range(-n - 1, n + 2):")
    g.emit(2, "for j in range(-n - 1, n + 2):")
    g.emit(3, "s = x[i:j]")
    walk(g, ("var", T), "s", 3, "index")
    g.emit(3, "t = x[i:]")
    g.emit(3, "b.integer(len(t))")
    g.emit(3, "u = x[:j]")
    g.emit(3, "b.integer(len(u))")
    g.emit(1, "return b")
    return "\n".join(g.lines)


def program_early_exit(T):
    """nested iteration with break/continue: count the elements up to the first missing / empty / zero one"""
    g = Gen()
    g.emit(0, "def prog(x, b):")
    g.emit(1, "count = 0")
    g.emit(1, "for item in x:")
    k = T[0]
    if k == "opt":
        g.emit(2, "if item is None:")
        g.emit(3, "break")
    elif k in ("var", "reg"):
        g.emit(2, "if len(item) == 0:")
        g.emit(3, "continue")
        g.emit(2, "if len(item) == 1:")
        g.emit(3, "break")
    g.emit(2, "count += 1")
    g.emit(1, "b.integer(count)")
    g.emit(1, "return b")
    return "\n".join(g.lines)


def field_paths(T, prefix=()):
    """(path of field names, type reached) for records reachable through lists only"""
    out = []
    k = T[0]
    if k == "rec":
        for key, Tf in T[1]:
            out.append((prefix + (key,), Tf))
    return out


def program_fields(T):
    """x.f[i] against x[i].f and x['f'][i] against x[i]['f'] for every field of a record item type"""
    if T[0] != "rec" or not T[1]:
        return None
    g = Gen()
    g.emit(0, "def prog(x, b):")
    for key, Tf in T[1]:
        for form in ("x.%s[i]" % key, "x[i].%s" % key, "x[%r][i]" % key, "x[i][%r]" % key):
            g.emit(1, "b.begin_list()")
            g.emit(1, "for i in range(len(x)):")
            v = g.fresh("v")
            g.emit(2, "%s = %s" % (v, form))
            walk(g, Tf, v, 2, "index")
            g.emit(1, "b.end_list()")
    g.emit(1, "return b")
    return "\n".join(g.lines)


def numeric_leaf_only(T):
    k = T[0]
    if k in ("int", "float", "bool"):
        return True
    if k in ("var", "reg"):
        return numeric_leaf_only(T[1] if k == "var" else T[2])
    if k == "opt":
        return numeric_leaf_only(T[1])
    return False


def program_contains(T):
    if not numeric_leaf_only(T):
        return None
    g = Gen()
    g.emit(0, "def prog(x, b):")
    for c in ("0", "1", "3", "901", "2.5"):
        g.emit(1, "b.boolean(%s in x)" % c)
    g.emit(1, "return b")
    return "\n".join(g.lines)


def program_contains_none(T):
    if not numeric_leaf_only(T) or not has_kind(T, ("opt",)):
        return None
    return "def prog(x, b):\n    b.boolean(None in x)\n    return b"


def program_asarray(T):
    """np.asarray of the numeric leaves: of the whole array when it is flat, of every innermost list otherwise"""
    if T[0] in ("int", "float", "bool"):
        g = Gen()
        g.emit(0, "def prog(x, b):")
        g.emit(1, "a = np.asarray(x)")
        g.emit(1, "b.integer(len(a))")
        g.emit(1, "for v in a:")
        walk(g, T, "v", 2, "iter")
        g.emit(1, "return b")
        return "\n".join(g.lines)
    if T[0] == "var" and T[1][0] in ("int", "float", "bool"):
        g = Gen()
        g.emit(0, "def prog(x, b):")
        g.emit(1, "for item in x:")
        g.emit(2, "a = np.asarray(item)")
        g.emit(2, "b.begin_list()")
        g.emit(2, "for v in a:")
        walk(g, T[1], "v", 3, "iter")
        g.emit(2, "b.end_list()")
        g.emit(1, "return b")
        return "\n".join(g.lines)
    return None


PASSTHROUGH = {
    "return-array": "def prog(x):\n    return x",
    "return-item": "def prog(x, i):\n    return x[i]",
    "return-slice": "def prog(x, i, j):\n    return x[i:j]",
    "len": "def prog(x):\n    return len(x)",
}

BUILDER_PROGRAMS = {
    "scalars": "def prog(b):\n    b.null()\n    b.boolean(True)\n    b.integer(3)\n    b.real(1.5)\n    b.integer(-(2**62))\n    return b",
    "lists": "def prog(b):\n    for i in range(4):\n        b.begin_list()\n        for j in range(i):\n            if j % 2 == 0:\n                b.integer(j)\n            else:\n                b.real(j + 0.5)\n        b.end_list()\n    return b",
    "nested": "def prog(b):\n    b.begin_list()\n    b.begin_list()\n    b.end_list()\n    b.begin_list()\n    b.null()\n    b.integer(1)\n    b.end_list()\n    b.end_list()\n    b.null()\n    return b",
    "tuples": "def prog(b):\n    for i in range(3):\n        b.begin_tuple(2)\n        b.index(1)\n        b.real(i * 1.5)\n        b.index(0)\n        b.integer(i)\n        b.end_tuple()\n    return b",
    "records": "def prog(b):\n    for i in range(3):\n        b.begin_record('pt')\n        b.field('x')\n        b.integer(i)\n        b.field('y')\n        b.begin_list()\n        for j in range(i):\n            b.boolean(j == 1)\n        b.end_list()\n        b.end_record()\n    b.begin_record()\n    b.field('z')\n    b.null()\n    b.end_record()\n    return b",
    "union": "def prog(b):\n    b.integer(1)\n    b.begin_list()\n    b.integer(2)\n    b.end_list()\n    b.boolean(False)\n    b.begin_record()\n    b.field('x')\n    b.real(0.5)\n    b.end_record()\n    return b",
}
BUILDER_ERRORS = {
    "end_list-unopened": "def prog(b):\n    b.integer(1)\n    b.end_list()\n    return b",
    "field-outside-record": "def prog(b):\n    b.field('x')\n    return b",
    "index-outside-tuple": "def prog(b):\n    b.index(0)\n    return b",
    "end_record-in-list": "def prog(b):\n    b.begin_list()\n    b.end_record()\n    return b",
    "index-out-of-range": "def prog(b):\n    b.begin_tuple(2)\n    b.index(2)\n    return b",
}


def compile_source(src, numba):
    ns = {"np": np}
    exec(compile(src, "<generated C20 program>", "exec"), ns)
    py = ns["prog"]
    return py, numba.njit(py)


class C20(runner.Check):
    id = "C20"
    level = "exploration"
    watchdog_s = 600.0
    budget_s = {"thorough": 1500}      # shards not started within the budget are reported as a cap
    rule = ("states = arrays of a 20-type menu (quick; 29 thorough) x physical encodings (k <= 1 non-canonical node, every node "
            "class and index width the lowering supports) and the same arrays wrapped by ak.virtual (with/without form and "
            "length, with a cache) and ak.partitioned (every 2-way split); transitions = access programs generated from the "
            "type and compiled by Numba through the repository's lowering: full traversal by iteration, by positive index and "
            "by negative index; every range slice x[i:j], x[i:], x[:j] with i, j in [-n-1, n+1]; field access in the four "
            "orders/spellings; 'in' tests; np.asarray of numeric leaves; early exits (break/continue); pass-through of the "
            "array, of every item (including out-of-range positions: the error half) and of slices; len; each run twice. "
            "ArrayBuilder: six builder programs over every method the lowering offers and five ill-nested ones, compiled "
            "vs interpreted. Oracle: the same function run by the interpreter on the same array; the full traversal must also "
            "equal the array's to_list; a returned array must equal its input in value and type; sys.getrefcount of the array, "
            "its layout and the returned object balance over repeated calls. non-trivial = program output with at least one "
            "element or a required error.")
    assumptions = ["tier L3 mirror of awkward._ext (box/unbox helpers of src/python/content.cpp are imitated: reference counts are "
                   "checked for Python objects only)",
                   "three harness-side numba/llvmlite compatibility shims (mirror/numba_compat.py): legacy cgutils.pointer_add, "
                   "llvmlite.llvmpy.core.Type stand-in, prefer_literal on awkward's getitem typing templates",
                   "numba 0.67 / llvmlite 0.49 as the compiler"]

    def types(self, tier):
        return TYPES_QUICK if tier == "quick" else TYPES_THOROUGH

    def wrapped_types(self, tier):
        # quick: the wrappers are exercised on a third of the menu (each costs a full set of compilations)
        idx = range(len(self.types(tier)))
        return [ti for ti in idx if tier != "quick" or ti in (3, 5, 9, 11, 12, 14, 16)]

    def shards(self, tier):
        out = [(tier, "access", ti) for ti in range(len(self.types(tier)))]
        out += [(tier, "wrapped", ti) for ti in self.wrapped_types(tier)]
        out += [(tier, "builder", 0)]
        return out

    def _setup(self):
        os.environ.setdefault("NUMBA_OPT", "0")      # compile time dominates; the lowering under test is the same
        import numba_compat
        numba_compat.apply()
        import install
        self.ak = install.install()
        numba_compat.after_register(self.ak)
        import numba
        self.numba = numba
        import warnings
        warnings.filterwarnings("ignore")

    def run_shard(self, shard):
        tier, part, x = shard
        st = Stats()
        self._no = 0
        self._setup()
        getattr(self, "_shard_" + part)(st, tier, x)
        pool.unmark()
        return st.pack()

    # ------------------------------------------------------------------------------------------------------------ programs
    def _programs(self, T):
        progs = {}
        if has_kind(T, ("union",)):
            return progs       # documented: union items cannot be accessed in compiled code (typing error), see _union_refusal
        for style in ("iter", "index", "negindex"):
            progs["walk-" + style] = program_walk(T, style)
        progs["slices"] = program_slices(T)
        progs["early-exit"] = program_early_exit(T)
        for name, src in (("fields", program_fields(T)), ("contains", program_contains(T)), ("contains-none", program_contains_none(T)),
                          ("asarray", program_asarray(T))):
            if src is not None:
                progs[name] = src
        return progs

    def _arrays(self, T, tier):
        N, M, cap = (2, 2, 3) if tier == "quick" else (3, 2, 6)
        out = list(values.arrays(T, N, M, 5))
        if len(out) > cap:
            out = out[:2] + out[-(cap - 2):]
        return out

    def _viol(self, st, kind, text, case, **sig):
        st.violation(kind, "%s: %s" % (kind, text[:900]), case, failure=kind, **sig)

    def _run_builder_prog(self, f, arr):
        ak = self.ak
        b = ak.ArrayBuilder()
        out = f(arr, b)
        return ak.to_list(out.snapshot())

    def _compare_prog(self, st, name, py, jit, arr, case, sig, absolute=None):
        """compiled vs interpreted on one array, twice; returns False if a violation was recorded"""
        ak = self.ak
        self._no += 1
        pool.mark(self._no)
        st.transitions += 1
        st.evaluations += 1
        try:
            want = ("value", self._run_builder_prog(py, arr))
        except Exception as err:  # noqa: B902
            want = ("error", type(err).__name__)
        got = None
        rc0 = None
        for rep in range(3):
            if rep == 1:
                # the first call creates and caches the array's lookup/view objects; balance is measured after it
                gc.collect()
                rc0 = (sys.getrefcount(arr), sys.getrefcount(arr.layout))
            try:
                g = ("value", self._run_builder_prog(jit, arr))
            except self.numba.core.errors.TypingError as err:
                g = ("typing-error", str(err)[:300])
            except Exception as err:  # noqa: B902
                g = ("error", type(err).__name__ + ": " + str(err)[:200])
            if got is not None and repr(got) != repr(g):
                self._viol(st, "unstable", "%s: first call %r, second call %r" % (name, got, g), case, prog=name, **sig)
                return False
            got = g
        gc.collect()
        rc1 = (sys.getrefcount(arr), sys.getrefcount(arr.layout))
        if got[0] == "typing-error":
            self._viol(st, "not-compilable", "%s does not compile for this array type: %s" % (name, got[1]), case, prog=name, **sig)
            return False
        if want[0] == "error" and got[0] == "error":
            st.outcome("%s:error-in-both" % name)
            st.nontrivial += 1
            return True
        if want[0] != got[0] or not layoutsem.same(_plain(got[1]), _plain(want[1])):
            self._viol(st, "value", "%s: compiled %r, interpreted %r" % (name, got, want), case, prog=name, **sig)
            return False
        if absolute is not None and not layoutsem.same(_plain(got[1]), absolute):
            self._viol(st, "value-vs-to_list", "%s: compiled traversal %r, to_list %r" % (name, got[1], absolute), case, prog=name, **sig)
            return False
        if rc1 != rc0:
            self._viol(st, "refcount", "%s: reference counts (array, layout) %r before, %r after two calls" % (name, rc0, rc1), case,
                       prog=name, **sig)
            return False
        st.outcome("%s:ok" % name)
        if got[1]:
            st.nontrivial += 1
        return True

    def _passthrough(self, st, arr, n, case, sig, ref, full=True):
        ak = self.ak
        for name, (py, jit) in self._pt.items():
            if not full and name in ("return-array", "len"):
                continue
            if self._union and name in ("return-item", "return-slice"):
                continue      # documented: items of union type are refused at compile time
            if name == "return-array" or name == "len":
                argsets = [()]
            elif name == "return-item":
                argsets = [(i,) for i in range(-n - 1, n + 1)]
            else:
                argsets = [(i, j) for i in range(-n - 1, n + 2) for j in range(-n - 1, n + 2)]
            for args in argsets:
                self._no += 1
                pool.mark(self._no)
                st.transitions += 1
                st.evaluations += 1
                try:
                    w = py(arr, *args)
                    want = ("value", _plain(ak.to_list(w)) if not isinstance(w, (int, float, bool, np.generic, type(None), str, bytes)) else _plain(w),
                            _typestr(ak, w))
                except Exception as err:  # noqa: B902
                    want = ("error", type(err).__name__, None)
                got = None
                rc0 = None
                for rep in range(3):
                    if rep == 1:
                        gc.collect()
                        rc0 = (sys.getrefcount(arr), sys.getrefcount(arr.layout))
                    try:
                        r = jit(arr, *args)
                        g = ("value", _plain(ak.to_list(r)) if not isinstance(r, (int, float, bool, np.generic, type(None), str, bytes)) else _plain(r),
                             _typestr(ak, r))
                        del r
                    except Exception as err:  # noqa: B902
                        g = ("error", type(err).__name__ + ": " + str(err)[:160], None)
                    if got is not None and repr(got) != repr(g):
                        self._viol(st, "unstable", "%s%r: first %r second %r" % (name, args, got, g), case, prog=name, **sig)
                    got = g
                gc.collect()
                rc1 = (sys.getrefcount(arr), sys.getrefcount(arr.layout))
                if want[0] == "error":
                    if got[0] == "error":
                        st.outcome("%s:error-in-both" % name)
                        st.nontrivial += 1
                    else:
                        self._viol(st, "missing-error", "%s%r: interpreter raises %s, compiled code returns %r" % (name, args, want[1], got[1]),
                                   case, prog=name, **sig)
                    continue
                if got[0] == "error":
                    self._viol(st, "unexpected-error", "%s%r: compiled code raises %s, interpreter returns %r" % (name, args, got[1], want[1]),
                               case, prog=name, **sig)
                    continue
                if not layoutsem.same(got[1], want[1]):
                    self._viol(st, "value", "%s%r: compiled %r (%s), interpreted %r (%s)" % (name, args, got[1], got[2], want[1], want[2]),
                               case, prog=name, empty_result=(got[1] == []), **sig)
                    continue
                if got[2] != want[2]:
                    self._viol(st, "type", "%s%r: compiled %r has type %s, interpreted %r has type %s" % (
                        name, args, got[1], got[2], want[1], want[2]), case, prog=name, empty_result=(got[1] == []), **sig)
                    continue
                if rc1 != rc0:
                    self._viol(st, "refcount", "%s%r: reference counts (array, layout) %r before, %r after" % (name, args, rc0, rc1), case,
                               prog=name, **sig)
                    continue
                st.outcome("%s:ok" % name)
                if got[1] not in (None, [], 0):
                    st.nontrivial += 1

    def _compile_all(self, T):
        progs = {}
        for name, src in self._programs(T).items():
            progs[name] = (src,) + compile_source(src, self.numba)
        self._pt = {name: compile_source(src, self.numba) for name, src in PASSTHROUGH.items()}
        return progs

    def _shard_access(self, st, tier, ti):
        ak = self.ak
        T = self.types(tier)[ti]
        progs = self._compile_all(T)
        self._union = has_kind(T, ("union",))
        forms = set()
        seen_alt = set()
        for tvs in self._arrays(T, tier):
            ref = values.strip(tvs)
            encl = []
            for d, names in encs.encodings(T, tvs, 1, True):
                encl.append((d, names))
                d2 = _truthy_masks(d)
                if d2 is not None:
                    # the same array with "true" mask bytes other than 1 (the C++ layer reads a byte mask as != 0)
                    encl.append((d2, list(names) + ["mask-bytes-not-0-1"]))
            for d, names in encl:
                try:
                    lay = layouts.build(d)
                except Exception:  # noqa: B902
                    continue
                st.states += 1
                arr = ak.Array(lay)
                forms.add(lay.form.tojson(False, False))
                case = {"mode": "access", "gtype": values.type_to_json(T), "layout": layouts.to_json(d)}
                sig = dict(type=values.tstr(T), top=d["class"].rstrip("0123456789U_"), wrapped="no")
                refv = _refvalue(ref)
                canonical = not names
                fkey = lay.form.tojson(False, False)
                if fkey not in seen_alt:
                    # a new array type costs one compilation per program: quick takes one representative per combination of
                    # node classes (the index-width variants of a combination already seen are left to thorough)
                    if tier == "quick" and not canonical and _classes(d) in seen_alt:
                        st.count("width_variants_left_to_thorough")
                        continue
                    seen_alt.add(fkey)
                    seen_alt.add(_classes(d))
                for name, (src, py, jit) in progs.items():
                    if not canonical and name not in ("walk-index", "walk-iter", "slices"):
                        continue
                    self._compare_prog(st, name, py, jit, arr, case, sig, absolute=[refv] if name.startswith("walk-") else None)
                if has_kind(T, ("union",)):
                    self._union_refusal(st, T, arr, case, sig)
                self._passthrough(st, arr, len(ref), case, sig, ref, full=canonical)
            st.sample({"type": values.tstr(T), "programs": sorted(progs), "value": repr(ref)[:100]}, limit=1)
        st.count("distinct_forms_compiled", len(forms))

    def _union_refusal(self, st, T, arr, case, sig):
        """documented limit: items of union type cannot be accessed in compiled code; it must be refused at compile time,
        not mis-executed"""
        src = "def prog(x, b):\n    for v in x:\n        b.integer(1)\n    return b" if T[0] == "union" else None
        if src is None:
            return
        py, jit = compile_source(src, self.numba)
        try:
            out = self._run_builder_prog(jit, arr)
            self._viol(st, "union-not-refused", "iteration over a union-type array compiled and returned %r" % (out,), case,
                       prog="union", **sig)
        except Exception:  # noqa: B902
            st.outcome("union:refused-as-documented")

    def _shard_wrapped(self, st, tier, ti):
        ak = self.ak
        T = self.types(tier)[ti]
        if has_kind(T, ("union",)):
            return
        self._union = False
        progs = self._compile_all(T)
        for tvs in self._arrays(T, tier)[-3:]:
            ref = values.strip(tvs)
            d = next(iter(encs.encodings(T, tvs, 0, False)))[0]
            lay = layouts.build(d)
            whole = ak.Array(lay)
            n = len(ref)
            wrapped = []
            form = lay.form
            for mode in ("virtual-form-length", "virtual-bare", "virtual-cache"):
                cache = {} if mode == "virtual-cache" else None
                kw = dict(length=n, form=form) if mode != "virtual-bare" else {}
                wrapped.append((mode, ak.virtual(lambda whole=whole: whole, cache=_Cache() if cache is not None else None, **kw)))
            for cut in range(n + 1):
                try:
                    wrapped.append(("partitioned-%d" % cut, ak.partitioned([whole[:cut], whole[cut:]])))
                except Exception:  # noqa: B902
                    pass
            for mode, arr in wrapped:
                st.states += 1
                case = {"mode": "wrapped", "gtype": values.type_to_json(T), "layout": layouts.to_json(d), "wrap": mode}
                sig = dict(type=values.tstr(T), top=d["class"].rstrip("0123456789U_"), wrapped=mode.split("-")[0])
                if T[0] in ("str", "bytes") and mode.startswith("virtual"):
                    # items of a virtual *string* array: executed in a child process, because on the unchanged tree the
                    # compiled code dereferences a wrong pointer (KF-C20-8) and would take the worker down with it
                    self._probe_virtual_strings(st, ref, mode, case, sig)
                    self._passthrough_only_array(st, arr, case, sig)
                    continue
                refv = _refvalue(ref)
                for name, (src, py, jit) in progs.items():
                    if mode.startswith("partitioned") and name in ("slices", "fields", "contains", "asarray"):
                        # PartitionedView supports len, iteration, integer and range indexing only
                        if name != "slices":
                            continue
                    self._compare_prog(st, name, py, jit, arr, case, sig, absolute=[refv] if name.startswith("walk-") else None)
                self._passthrough(st, arr, n, case, sig, ref)

    def _probe_virtual_strings(self, st, ref, mode, case, sig):
        import subprocess
        self._no += 1
        pool.mark(self._no)
        st.transitions += 1
        st.evaluations += 1
        env = dict(os.environ)
        env.pop("LD_PRELOAD", None)
        p = subprocess.run([sys.executable, os.path.abspath(__file__), "--probe-virtual-strings", repr(ref), mode], env=env,
                           stdout=subprocess.PIPE, stderr=subprocess.DEVNULL, text=True, timeout=600)
        want = sum(len(x.encode("utf-8")) if isinstance(x, str) else len(x) for x in ref)
        if p.returncode < 0:
            self._viol(st, "crash", "iterating the items of a virtual string array %r (%s) in compiled code died with signal %d" % (
                ref, mode, -p.returncode), case, prog="walk-iter", strings=True, **sig)
        elif p.returncode != 0 or p.stdout.strip().splitlines()[-1:] != [str(want)]:
            self._viol(st, "value", "virtual string array %r (%s): compiled total length %r, expected %d (exit %d)" % (
                ref, mode, p.stdout.strip()[-80:], want, p.returncode), case, prog="walk-iter", strings=True, **sig)
        else:
            st.outcome("walk-iter:ok")
            st.nontrivial += 1

    def _passthrough_only_array(self, st, arr, case, sig):
        ak = self.ak
        py, jit = self._pt["return-array"]
        st.transitions += 1
        st.evaluations += 1
        try:
            ok = layoutsem.same(_plain(ak.to_list(jit(arr))), _plain(ak.to_list(arr)))
        except Exception as err:  # noqa: B902
            ok = False
        if ok:
            st.outcome("return-array:ok")
        else:
            self._viol(st, "value", "return-array of a virtual string array differs", case, prog="return-array", **sig)

    def _shard_builder(self, st, tier, _):
        ak = self.ak
        for name, src in sorted(BUILDER_PROGRAMS.items()):
            py, jit = compile_source(src, self.numba)
            self._no += 1
            pool.mark(self._no)
            st.states += 1
            st.transitions += 1
            st.evaluations += 1
            case = {"mode": "builder", "program": name}
            try:
                want = ak.to_list(py(ak.ArrayBuilder()).snapshot())
                wt = str(ak.type(py(ak.ArrayBuilder()).snapshot()))
                got = [ak.to_list(jit(ak.ArrayBuilder()).snapshot()) for _ in range(2)]
                gt = str(ak.type(jit(ak.ArrayBuilder()).snapshot()))
            except Exception as err:  # noqa: B902
                self._viol(st, "builder-raised", "%s: %s: %s" % (name, type(err).__name__, str(err)[:300]), case, prog=name)
                continue
            if layoutsem.same(_plain(got[0]), _plain(want)) and layoutsem.same(_plain(got[1]), _plain(want)) and gt == wt:
                st.outcome("builder:%s:ok" % name)
                st.nontrivial += 1
            else:
                self._viol(st, "builder-value", "%s: compiled %r (%s), interpreted %r (%s)" % (name, got, gt, want, wt), case, prog=name)
            # the builder passed in keeps accumulating across calls exactly as in the interpreter
            b1, b2 = ak.ArrayBuilder(), ak.ArrayBuilder()
            for _ in range(3):
                py(b1)
                jit(b2)
            if not layoutsem.same(_plain(ak.to_list(b1.snapshot())), _plain(ak.to_list(b2.snapshot()))):
                self._viol(st, "builder-accumulation", "%s called three times on one builder: compiled %r, interpreted %r" % (
                    name, ak.to_list(b2.snapshot()), ak.to_list(b1.snapshot())), case, prog=name)
        for name, src in sorted(BUILDER_ERRORS.items()):
            py, jit = compile_source(src, self.numba)
            self._no += 1
            pool.mark(self._no)
            st.transitions += 1
            st.evaluations += 1
            case = {"mode": "builder", "program": name}
            res = []
            for f in (py, jit):
                try:
                    f(ak.ArrayBuilder())
                    res.append("ok")
                except Exception as err:  # noqa: B902
                    res.append("error")
            if res == ["error", "error"]:
                st.outcome("builder:%s:error-in-both" % name)
                st.nontrivial += 1
            else:
                self._viol(st, "builder-error", "%s: interpreter %s, compiled %s" % (name, res[0], res[1]), case, prog=name)

    # --------------------------------------------------------------------------------------------------------------- replay
    def replay(self, case):
        st = Stats()
        self._no = 0
        self._setup()
        if case["mode"] == "builder":
            self._shard_builder(st, "quick", 0)
            vs = [v for v in st.violations if v["case"].get("program") == case["program"]]
            return bool(vs), "\n".join(v["summary"] for v in vs) or "holds"
        T = values.type_from_json(case["gtype"])
        d = layouts.from_json(case["layout"])
        progs = self._compile_all(T)
        self._union = has_kind(T, ("union",))
        ak = self.ak
        lay = layouts.build(d)
        arr = ak.Array(lay)
        ref = layoutsem.to_list(d)
        text = ["layout: %s" % layouts.short(d), "value: %r" % (ref,)]
        if case["mode"] == "wrapped":
            mode = case["wrap"]
            n = len(ref)
            if mode.startswith("virtual"):
                kw = dict(length=n, form=lay.form) if mode != "virtual-bare" else {}
                arr = ak.virtual(lambda: ak.Array(lay), cache=_Cache() if mode == "virtual-cache" else None, **kw)
            else:
                cut = int(mode.split("-")[1])
                whole = ak.Array(lay)
                arr = ak.partitioned([whole[:cut], whole[cut:]])
            text.append("wrapped: %s" % mode)
        sig = {}
        refv = _refvalue(ref)
        for name, (src, py, jit) in progs.items():
            self._compare_prog(st, name, py, jit, arr, case, sig, absolute=[refv] if name.startswith("walk-") else None)
        self._passthrough(st, arr, len(ref), case, sig, ref)
        for v in st.violations[:6]:
            text.append(v["summary"][:600])
            p = v.get("prog")
            if p in progs:
                text.append("program %s:\n%s" % (p, progs[p][0]))
        return bool(st.violations), "\n".join(text) if st.violations else "\n".join(text + ["holds"])


def _truthy_masks(d):
    """copy of a layout description in which the non-zero bytes of every ByteMaskedArray mask are 2, -1, 127, ... ;
    None if there is no such byte"""
    changed = [False]
    cyc = [2, -1, 127, -128, 64]

    def walk(x):
        if not isinstance(x, dict):
            return x
        out = dict(x)
        if out.get("class") == "ByteMaskedArray":
            m = np.array(out["mask"], dtype=np.int8).copy()
            k = 0
            for i in range(len(m)):
                if m[i] != 0:
                    m[i] = cyc[k % len(cyc)]
                    k += 1
                    changed[0] = True
            out["mask"] = m
        if isinstance(out.get("content"), dict):
            out["content"] = walk(out["content"])
        if out.get("contents"):
            out["contents"] = [walk(c) for c in out["contents"]]
        return out
    res = walk(d)
    return res if changed[0] else None


def _classes(d):
    """node classes of a layout description, index widths removed"""
    out = [d["class"].rstrip("0123456789U_")]
    if isinstance(d.get("content"), dict):
        out += list(_classes(d["content"]))
    for c in d.get("contents") or []:
        out += list(_classes(c))
    return tuple(out)


class _Cache(dict):
    pass


def _typestr(ak, x):
    try:
        return str(ak.type(x))
    except Exception:  # noqa: B902
        return type(x).__name__


def _refvalue(v):
    """to_list as the builder-recording programs see it: strings are recorded by their length, tuples as tuples"""
    if isinstance(v, (str, bytes)):
        return len(v.encode("utf-8")) if isinstance(v, str) else len(v)
    if isinstance(v, list):
        return [_refvalue(x) for x in v]
    if isinstance(v, tuple):
        return tuple(_refvalue(x) for x in v)
    if isinstance(v, dict):
        return {k: _refvalue(x) for k, x in v.items()}
    return v


def _plain(v):
    if isinstance(v, np.generic):
        return v.item()
    if isinstance(v, list):
        return [_plain(x) for x in v]
    if isinstance(v, tuple):
        return tuple(_plain(x) for x in v)
    if isinstance(v, dict):
        return {k: _plain(x) for k, x in v.items()}
    return v


def _probe_virtual_strings(argv):
    """child process: sum of the lengths of the items of a virtual string array, computed by compiled code"""
    import ast
    ref, mode = ast.literal_eval(argv[0]), argv[1]
    c = C20()
    c._setup()
    ak, numba = c.ak, c.numba
    whole = ak.Array(ref) if ref else ak.Array(ak.layout.ListOffsetArray64(ak.layout.Index64(np.zeros(1, np.int64)), ak.layout.NumpyArray(
        np.zeros(0, np.uint8), parameters={"__array__": "char"}), parameters={"__array__": "string"}))
    kw = dict(length=len(ref), form=whole.layout.form) if mode != "virtual-bare" else {}
    arr = ak.virtual(lambda: whole, cache=_Cache() if mode == "virtual-cache" else None, **kw)

    @numba.njit
    def total(x):
        s = 0
        for v in x:
            s += len(v)
        return s
    print(total(arr))
    return 0


if __name__ == "__main__":
    if len(sys.argv) > 1 and sys.argv[1] == "--probe-virtual-strings":
        sys.exit(_probe_virtual_strings(sys.argv[2:]))
    sys.exit(runner.main(C20()))
