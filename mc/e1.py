"""Engine E1: layout-graph exploration with a reference-model oracle (DESIGN.md 3.1).

State = physical layout (typed value x encoding); transition = one operation with one argument tuple;
oracle = model/refops.py applied to the typed value.  Subclasses give the type menu, the bounds and the
operation alphabet.
"""
import os
import sys

import numpy as np

import runner
from runner import Stats
import pool
import layouts
import layoutsem
import values
import encs
import refops
import opalpha
import ext

ERRORS = (ValueError, RuntimeError, IndexError, NotImplementedError, TypeError)


def observe(res):
    """Logical value of an operation result."""
    if res is None:
        return None
    if isinstance(res, (ext.Content, ext.Record)):
        return layoutsem.to_list(ext.describe(res))
    if isinstance(res, ext._Index):
        return np.asarray(res).tolist()
    if isinstance(res, tuple):
        return tuple(observe(x) for x in res)
    if isinstance(res, list):
        return [observe(x) for x in res]
    if isinstance(res, np.generic):
        return res.item() if res.dtype.kind not in "mM" else res
    return res


def trivial(v):
    """An observed value is trivial when it carries no element at all."""
    if v is None:
        return True
    if isinstance(v, (list, tuple)):
        return all(trivial(x) for x in v)
    if isinstance(v, dict):
        return all(trivial(x) for x in v.values())
    return False


class E1Check(runner.Check):
    level = "model_checking"
    types_quick = values.TYPES_QUICK
    types_thorough = values.TYPES_THOROUGH
    bounds_quick = dict(N=3, M=2, K=6, enc_k=1, state_cap=400, parts=1)
    bounds_thorough = dict(N=4, M=3, K=8, enc_k=2, state_cap=4000, parts=4)
    exotic = True
    labeler = staticmethod(values.default_label)
    _last = None

    # ---- to be provided by subclasses
    def alphabet(self, T, tvs, tier):
        """-> list of (opname, args) with JSON-able args (the same for every encoding of the value)."""
        raise NotImplementedError

    def expected(self, T, tvs, opname, args):
        """-> expected logical value; raise refops.RefError (must fail) or refops.Skip (undefined)."""
        raise NotImplementedError

    def matches(self, exp, got, opname, args):
        return refops.matches(exp, got)

    def apply(self, lay, opname, args):
        return opalpha.apply(lay, opname, list(args))

    def refusal_ok(self, T, tvs, opname, args, err):
        """Documented refusals: an error where the model has a value is accepted only by a syntactic
        predicate on the operation, never because an error was observed."""
        return False

    def signature(self, T, tvs, d, names, opname, args, failure):
        return {}

    def types(self, tier):
        return self.types_quick if tier == "quick" else self.types_thorough

    def bounds(self, tier):
        return self.bounds_quick if tier == "quick" else self.bounds_thorough

    # ---- engine
    def shards(self, tier):
        b = self.bounds(tier)
        out = []
        for ti in range(len(self.types(tier))):
            for part in range(b["parts"]):
                out.append((tier, ti, part))
        for g in range(len(self.extra_states(tier))):
            out.append((tier, "extra", g))
        return out

    def arrays(self, T, b):
        return values.arrays(T, b["N"], b["M"], b["K"], self.labeler)

    def extra_states(self, tier):
        """-> list of groups; a group is a list of (T, tvs, [(layout description, encoding names), ...]) built by hand
        (leaf dtypes and value sets that the generic value universe does not contain). One shard per group."""
        return []

    def run_shard(self, shard):
        tier, ti, part = shard
        st = Stats()
        self._no = 0
        if ti == "extra":
            for T, tvs, enclist in self.extra_states(tier)[part]:
                self._explore(st, tier, T, tvs, enclist, True)
            pool.unmark()
            return st.pack()
        T = self.types(tier)[ti]
        b = self.bounds(tier)
        nstates = 0
        for ai, tvs in enumerate(self.arrays(T, b)):
            if ai % b["parts"] != part:
                continue
            nstates += 1
            if nstates > b["state_cap"]:
                st.caps.append("type %s part %d: value cap %d reached" % (values.tstr(T), part, b["state_cap"]))
                break
            self._explore(st, tier, T, tvs, encs.encodings(T, tvs, b["enc_k"], self.exotic), nstates % 37 == 1)
        pool.unmark()
        return st.pack()

    def _explore(self, st, tier, T, tvs, enclist, sample):
        if True:
            ops = self.alphabet(T, tvs, tier)
            exp = []
            for opname, args in ops:
                try:
                    exp.append(("value", self.expected(T, tvs, opname, args)))
                except refops.RefError as err:
                    exp.append(("error", str(err)))
                except refops.Skip as err:
                    exp.append(("skip", str(err)))
            first_choice = {}
            for d, names in enclist:
                st.states += 1
                lay = layouts.build(d)
                for oi, ((opname, args), (ekind, evalue)) in enumerate(zip(ops, exp)):
                    self._no += 1
                    pool.mark(self._no)
                    st.transitions += 1
                    st.evaluations += 1
                    try:
                        res = self.apply(lay, opname, args)
                        got = ("value", observe(res))
                    except ERRORS as err:
                        got = ("error", err)
                    except layoutsem.Invalid as err:
                        # the operation returned a layout that breaks a structural rule (its value cannot be read)
                        self._viol(st, "invalid-result", T, tvs, d, names, opname, args,
                                   "result is not a valid layout: %s" % err)
                        continue
                    if ekind == "skip":
                        st.outcome("%s:undefined-in-model" % opname)
                        continue
                    if ekind == "value" and got[0] == "value":
                        if self.matches(evalue, got[1], opname, args):
                            if _has_alt(evalue):
                                # where the statement admits several answers, every encoding of one value must still
                                # give the same one (the choice cannot depend on the physical layout)
                                if oi not in first_choice:
                                    first_choice[oi] = (got[1], names, d)
                                elif not layoutsem.same(first_choice[oi][0], got[1]):
                                    self._other = first_choice[oi][2]
                                    self._viol(st, "encoding-dependent-choice", T, tvs, d, names, opname, args,
                                               "admitted answers %r; encoding %s gives %r but this encoding gives %r" % (
                                                   evalue, first_choice[oi][1] or "canonical", first_choice[oi][0], got[1]))
                                    self._other = None
                                    continue
                            st.outcome("%s:ok" % opname)
                            if not trivial(got[1]):
                                st.nontrivial += 1
                        else:
                            self._last = (evalue, got[1])
                            self._viol(st, "value", T, tvs, d, names, opname, args,
                                       "expected %r, got %r" % (evalue, got[1]))
                            self._last = None
                    elif ekind == "error" and got[0] == "error":
                        st.outcome("%s:error-as-required" % opname)
                        st.nontrivial += 1
                    elif ekind == "error":
                        self._viol(st, "missing-error", T, tvs, d, names, opname, args,
                                   "must raise (%s) but returned %r" % (evalue, got[1]))
                    else:
                        if self.refusal_ok(T, tvs, opname, args, got[1]):
                            st.outcome("%s:documented-refusal" % opname)
                        else:
                            self._viol(st, "unexpected-error", T, tvs, d, names, opname, args,
                                       "expected %r, raised %s: %s" % (evalue, type(got[1]).__name__, str(got[1])[:200]))
                if sample and names:
                    st.sample({"type": values.tstr(T), "value": repr(values.strip(tvs))[:200], "encoding": names,
                               "layout": layouts.short(d)[:300], "op": [ops[0][0], list(ops[0][1])] if ops else None})

    def _viol(self, st, failure, T, tvs, d, names, opname, args, text):
        case = {"layout": layouts.to_json(d), "type": values.tstr(T), "op": opname, "args": _jsonable(args),
                "value": repr(values.strip(tvs)), "gtype": values.type_to_json(T), "tvs": values.tv_to_json(tvs)}
        if getattr(self, "_other", None) is not None:
            case["other_layout"] = layouts.to_json(self._other)
        sig = {"op": opname, "failure": failure}
        sig.update(self.signature(T, tvs, d, names, opname, args, failure))
        st.violation(failure, "%s%r on %s [%s; encoding %s]: %s" % (opname, tuple(args), layouts.short(d)[:400],
                                                                     values.tstr(T), names or "canonical", text[:600]),
                     case, **sig)

    def replay(self, case):
        d = layouts.from_json(case["layout"])
        lay = layouts.build(d)
        T = values.type_from_json(case["gtype"])
        tvs = values.tv_from_json(case["tvs"])
        args = case["args"]
        text = ["layout: %s" % layouts.short(d), "value: %r" % (layoutsem.to_list(d),),
                "op: %s%r" % (case["op"], args)]
        try:
            exp = ("value", self.expected(T, tvs, case["op"], args))
        except refops.RefError as err:
            exp = ("error", str(err))
        except refops.Skip as err:
            exp = ("skip", str(err))
        text.append("expected: %s %r" % exp)
        try:
            got = ("value", observe(self.apply(lay, case["op"], args)))
        except ERRORS as err:
            got = ("error", err)
        text.append("observed: %s %r" % got)
        if exp[0] == "skip":
            bad = False
        elif exp[0] == "value" and got[0] == "value" and case.get("other_layout"):
            other = layouts.build(layouts.from_json(case["other_layout"]))
            try:
                got2 = ("value", observe(self.apply(other, case["op"], args)))
            except ERRORS as err:
                got2 = ("error", err)
            text.append("other encoding: %s" % layouts.short(layouts.from_json(case["other_layout"])))
            text.append("observed there: %s %r" % got2)
            bad = not self.matches(exp[1], got[1], case["op"], args) or got2[0] != "value" or not layoutsem.same(got[1], got2[1])
        elif exp[0] == "value" and got[0] == "value":
            bad = not self.matches(exp[1], got[1], case["op"], args)
        elif exp[0] == "error":
            bad = got[0] != "error"
        else:
            bad = not self.refusal_ok(T, tvs, case["op"], args, got[1])
        return bad, "\n".join(text)


def _has_alt(v):
    if isinstance(v, refops.Alt):
        return True
    if isinstance(v, (list, tuple)):
        return any(_has_alt(x) for x in v)
    if isinstance(v, dict):
        return any(_has_alt(x) for x in v.values())
    return False


def _jsonable(x):
    if isinstance(x, (list, tuple)):
        return [_jsonable(y) for y in x]
    if isinstance(x, np.ndarray):
        return ["a", x.tolist(), str(x.dtype)]
    if isinstance(x, (np.integer,)):
        return int(x)
    if isinstance(x, (np.bool_,)):
        return bool(x)
    if isinstance(x, slice):
        return ["s", x.start, x.stop, x.step]
    return x
