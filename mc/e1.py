"""Engine E1: layout-graph exploration with a reference-model oracle (DESIGN.md 3.1).

State = physical layout (typed value x encoding); transition = one operation with one argument tuple;
oracle = model/refops.py applied to the typed value.  Subclasses give the type menu, the bounds and the
operation alphabet.
"""
import os
import sys

import numpy as np

import runner
from runner import Stats
import pool
import layouts
import layoutsem
import values
import encs
import refops
import opalpha
import ext

ERRORS = (ValueError, RuntimeError, IndexError, NotImplementedError, TypeError)


def observe(res):
    """Logical value of an operation result."""
    if res is None:
        return None
    if isinstance(res, (ext.Content, ext.Record)):
        return layoutsem.to_list(ext.describe(res))
    if isinstance(res, ext._Index):
        return np.asarray(res).tolist()
    if isinstance(res, tuple):
        return tuple(observe(x) for x in res)
    if isinstance(res, list):
        return [observe(x) for x in res]
    if isinstance(res, np.generic):
        return res.item() if res.dtype.kind not in "mM" else res
    return res


def trivial(v):
    """An observed value is trivial when it carries no element at all."""
    if v is None:
        return True
    if isinstance(v, (list, tuple)):
        return all(trivial(x) for x in v)
    if isinstance(v, dict):
        return all(trivial(x) for x in v.values())
    return False


class E1Check(runner.Check):
    level = "model_checking"
    types_quick = values.TYPES_QUICK
    types_thorough = values.TYPES_THOROUGH
    bounds_quick = dict(N=3, M=2, K=6, enc_k=1, state_cap=400, parts=1)
    bounds_thorough = dict(N=4, M=3, K=8, enc_k=1, state_cap=160, parts=16)
    exotic = True
    l3_table = None           # name of the tier-L3 operation table in mc/l3.py (the Python layer's half of the property)
    labeler = staticmethod(values.default_label)
    _last = None

    # ---- to be provided by subclasses
    def alphabet(self, T, tvs, tier):
        """-> list of (opname, args) with JSON-able args (the same for every encoding of the value)."""
        raise NotImplementedError

    def expected(self, T, tvs, opname, args):
        """-> expected logical value; raise refops.RefError (must fail) or refops.Skip (undefined)."""
        raise NotImplementedError

    def matches(self, exp, got, opname, args):
        return refops.matches(exp, got)

    def apply(self, lay, opname, args):
        return opalpha.apply(lay, opname, list(args))

    def refusal_ok(self, T, tvs, opname, args, err):
        """Documented refusals: an error where the model has a value is accepted only by a syntactic
        predicate on the operation, never because an error was observed."""
        return False

    def signature(self, T, tvs, d, names, opname, args, failure):
        return {}

    def types(self, tier):
        return self.types_quick if tier == "quick" else self.types_thorough

    def bounds(self, tier):
        return self.bounds_quick if tier == "quick" else self.bounds_thorough

    # ---- engine
    def shards(self, tier):
        b = self.bounds(tier)
        out = []
        for ti in range(len(self.types(tier))):
            for part in range(b["parts"]):
                out.append((tier, ti, part))
        for g in range(len(self.extra_states(tier))):
            out.append((tier, "extra", g))
        if self.l3_table:
            for g in range(len(self.l3_spec()[1])):
                out.append((tier, "l3", g))
        return out

    def arrays(self, T, b):
        # the number of shapes is a tower in the nesting depth: three list levels are enumerated with inner lengths <= 2
        M = b["M"] if values.depth(T)[1] < 3 else min(b["M"], 2)
        return values.arrays(T, b["N"], M, b["K"], self.labeler)

    def extra_states(self, tier):
        """-> list of groups; a group is a list of (T, tvs, [(layout description, encoding names), ...]) built by hand
        (leaf dtypes and value sets that the generic value universe does not contain). One shard per group."""
        return []

    def run_shard(self, shard):
        tier, ti, part = shard
        st = Stats()
        self._no = 0
        if ti == "extra":
            for T, tvs, enclist in self.extra_states(tier)[part]:
                self._explore(st, tier, T, tvs, enclist, True)
            pool.unmark()
            return st.pack()
        if ti == "l3":
            self._run_l3(st, tier, part)
            pool.unmark()
            return st.pack()
        T = self.types(tier)[ti]
        b = self.bounds(tier)
        nstates = 0
        for ai, tvs in enumerate(self.arrays(T, b)):
            if ai % b["parts"] != part:
                continue
            nstates += 1
            if nstates > b["state_cap"]:
                st.caps.append("type %s part %d: value cap %d reached" % (values.tstr(T), part, b["state_cap"]))
                break
            self._explore(st, tier, T, tvs, encs.encodings(T, tvs, b["enc_k"], self.exotic), nstates % 37 == 1)
        pool.unmark()
        return st.pack()

    def _explore(self, st, tier, T, tvs, enclist, sample):
        if True:
            ops = self.alphabet(T, tvs, tier)
            exp = []
            for opname, args in ops:
                try:
                    exp.append(("value", self.expected(T, tvs, opname, args)))
                except refops.RefError as err:
                    exp.append(("error", str(err)))
                except refops.Skip as err:
                    exp.append(("skip", str(err)))
            first_choice = {}
            for d, names in enclist:
                st.states += 1
                lay = layouts.build(d)
                for oi, ((opname, args), (ekind, evalue)) in enumerate(zip(ops, exp)):
                    self._no += 1
                    pool.mark(self._no)
                    st.transitions += 1
                    st.evaluations += 1
                    try:
                        res = self.apply(lay, opname, args)
                        got = ("value", observe(res))
                    except ERRORS as err:
                        got = ("error", err)
                    except layoutsem.Invalid as err:
                        # the operation returned a layout that breaks a structural rule (its value cannot be read)
                        self._viol(st, "invalid-result", T, tvs, d, names, opname, args,
                                   "result is not a valid layout: %s" % err)
                        continue
                    if ekind == "skip":
                        st.outcome("%s:undefined-in-model" % opname)
                        continue
                    if ekind == "value" and got[0] == "value":
                        if self.matches(evalue, got[1], opname, args):
                            if _has_alt(evalue):
                                # where the statement admits several answers, every encoding of one value must still
                                # give the same one (the choice cannot depend on the physical layout)
                                if oi not in first_choice:
                                    first_choice[oi] = (got[1], names, d)
                                elif not layoutsem.same(first_choice[oi][0], got[1]):
                                    self._other = first_choice[oi][2]
                                    self._viol(st, "encoding-dependent-choice", T, tvs, d, names, opname, args,
                                               "admitted answers %r; encoding %s gives %r but this encoding gives %r" % (
                                                   evalue, first_choice[oi][1] or "canonical", first_choice[oi][0], got[1]))
                                    self._other = None
                                    continue
                            st.outcome("%s:ok" % opname)
                            if not trivial(got[1]):
                                st.nontrivial += 1
                        else:
                            self._last = (evalue, got[1])
                            self._viol(st, "value", T, tvs, d, names, opname, args,
                                       "expected %r, got %r" % (evalue, got[1]))
                            self._last = None
                    elif ekind == "error" and got[0] == "error":
                        st.outcome("%s:error-as-required" % opname)
                        st.nontrivial += 1
                    elif ekind == "error":
                        self._viol(st, "missing-error", T, tvs, d, names, opname, args,
                                   "must raise (%s) but returned %r" % (evalue, got[1]))
                    else:
                        if self.refusal_ok(T, tvs, opname, args, got[1]):
                            st.outcome("%s:documented-refusal" % opname)
                        else:
                            self._viol(st, "unexpected-error", T, tvs, d, names, opname, args,
                                       "expected %r, raised %s: %s" % (evalue, type(got[1]).__name__, str(got[1])[:200]))
                if sample and names:
                    st.sample({"type": values.tstr(T), "value": repr(values.strip(tvs))[:200], "encoding": names,
                               "layout": layouts.short(d)[:300], "op": [ops[0][0], list(ops[0][1])] if ops else None})

    # ---- tier L3: the same property through the repository's Python layer
    def l3_matches(self, exp, got, label):
        return refops.matches(exp, got)

    def l3_signature(self, T, tvs, label):
        return {}

    def l3_bounds(self, tier):
        return (2, 2, 10) if tier == "quick" else (3, 2, 60)

    def l3_spec(self):
        """-> (table function (T, tvs, tier) -> [(label, run, expect)], list of types)"""
        import l3
        return l3.TABLES[self.l3_table]

    def _run_l3(self, st, tier, g):
        import l3
        ak = l3.ak()
        table, types = self.l3_spec()
        T = types[g]
        N, M, cap = self.l3_bounds(tier)
        vals = list(values.arrays(T, N, M, 6, self.labeler))
        if len(vals) > cap:
            vals = vals[:cap // 2] + vals[-(cap - cap // 2):]
        for vi, tvs in enumerate(vals):
            ops = table(T, tvs, tier)
            encl = list(encs.encodings(T, tvs, 1, False))
            # canonical plus two alternatives that rotate through the whole list from value to value
            chosen = [encl[0]]
            if len(encl) > 1:
                m = len(encl) - 1
                for pick in sorted(set([1 + (vi % m), 1 + ((vi * 7 + m // 2) % m)])):
                    chosen.append(encl[pick])
            arrays = []
            for d, names in chosen:
                arrays.append((ak.Array(layouts.build(d)), d, names or ["canonical"]))
            if len(tvs) >= 1:
                whole = arrays[0][0]
                cut = len(tvs) // 2
                try:
                    arrays.append((ak.partitioned([whole[:cut], whole[cut:]]), chosen[0][0], ["partitioned@%d" % cut]))
                except Exception:  # noqa: B902
                    pass
            exp = []
            for label, run, expect in ops:
                try:
                    exp.append(("value", expect(T, tvs)))
                except refops.RefError as err:
                    exp.append(("error", str(err)))
                except refops.Skip as err:
                    exp.append(("skip", str(err)))
            for arr, d, names in arrays:
                st.states += 1
                for (label, run, expect), (ekind, evalue) in zip(ops, exp):
                    self._no += 1
                    pool.mark(self._no)
                    st.transitions += 1
                    st.evaluations += 1
                    opn = label.split("(")[0].split(" ")[0]
                    if ekind == "skip":
                        st.outcome("l3:%s:undefined-in-model" % opn)
                        continue
                    try:
                        got = ("value", run(arr))
                    except refops.Skip:
                        continue
                    except Exception as err:  # noqa: B902
                        got = ("error", "%s: %s" % (type(err).__name__, str(err)[:160]))
                    case = {"mode": "l3", "table": self.l3_table, "gtype": values.type_to_json(T), "tvs": values.tv_to_json(tvs),
                            "layout": layouts.to_json(d), "wrap": names, "label": label}
                    sig = {"op": "l3:" + opn, "wrap": names[0].split("@")[0].split("-")[0], "l3": True,
                           "axis_none": "axis=None" in label, "no_leaves": len(l3.leaves(values.strip(tvs))) == 0,
                           "strings": refops._has_kind(T, ("str", "bytes"))}
                    sig.update(self.l3_signature(T, tvs, label))
                    if ekind == "value" and got[0] == "value":
                        if self.l3_matches(evalue, got[1], label):
                            st.outcome("l3:%s:ok" % opn)
                            if not trivial(got[1]):
                                st.nontrivial += 1
                        else:
                            self._last = (evalue, got[1])
                            sig.update(self.l3_signature(T, tvs, label))
                            self._last = None
                            st.violation("value", "ak.%s on %r [%s; %s]: expected %r, got %r" % (
                                label, values.strip(tvs), values.tstr(T), names, evalue, got[1]), case, failure="value", **sig)
                    elif ekind == "error" and got[0] == "error":
                        st.outcome("l3:%s:error-as-required" % opn)
                        st.nontrivial += 1
                    elif ekind == "error":
                        st.violation("missing-error", "ak.%s on %r [%s; %s]: must raise (%s), returned %r" % (
                            label, values.strip(tvs), values.tstr(T), names, evalue, got[1]), case, failure="missing-error", **sig)
                    else:
                        st.violation("unexpected-error", "ak.%s on %r [%s; %s]: expected %r, raised %s" % (
                            label, values.strip(tvs), values.tstr(T), names, evalue, got[1]), case, failure="unexpected-error", **sig)

    def _replay_l3(self, case):
        import l3
        ak = l3.ak()
        T = values.type_from_json(case["gtype"])
        tvs = values.tv_from_json(case["tvs"])
        table, types = self.l3_spec()
        d = layouts.from_json(case["layout"])
        arr = ak.Array(layouts.build(d))
        wrap = case["wrap"][0]
        if wrap.startswith("partitioned"):
            cut = int(wrap.split("@")[1])
            arr = ak.partitioned([arr[:cut], arr[cut:]])
        text = ["array: %r (%s) as %s" % (values.strip(tvs), values.tstr(T), case["wrap"]), "operation: ak.%s" % case["label"]]
        for tier in ("thorough", "quick"):
            for label, run, expect in table(T, tvs, tier):
                if label != case["label"]:
                    continue
                try:
                    exp = ("value", expect(T, tvs))
                except refops.RefError as err:
                    exp = ("error", str(err))
                except refops.Skip as err:
                    exp = ("skip", str(err))
                try:
                    got = ("value", run(arr))
                except Exception as err:  # noqa: B902
                    got = ("error", "%s: %s" % (type(err).__name__, str(err)[:200]))
                text += ["expected: %s %r" % exp, "observed: %s %r" % got]
                if exp[0] == "skip":
                    bad = False
                elif exp[0] == "value":
                    bad = got[0] != "value" or not self.l3_matches(exp[1], got[1], label)
                else:
                    bad = got[0] != "error"
                return bad, "\n".join(text)
        return False, "\n".join(text + ["operation not in the table any more"])

    def _viol(self, st, failure, T, tvs, d, names, opname, args, text):
        case = {"layout": layouts.to_json(d), "type": values.tstr(T), "op": opname, "args": _jsonable(args),
                "value": repr(values.strip(tvs)), "gtype": values.type_to_json(T), "tvs": values.tv_to_json(tvs)}
        if getattr(self, "_other", None) is not None:
            case["other_layout"] = layouts.to_json(self._other)
        sig = {"op": opname, "failure": failure}
        sig.update(self.signature(T, tvs, d, names, opname, args, failure))
        st.violation(failure, "%s%r on %s [%s; encoding %s]: %s" % (opname, tuple(args), layouts.short(d)[:400],
                                                                     values.tstr(T), names or "canonical", text[:600]),
                     case, **sig)

    def replay(self, case):
        if case.get("mode") == "l3":
            return self._replay_l3(case)
        d = layouts.from_json(case["layout"])
        lay = layouts.build(d)
        T = values.type_from_json(case["gtype"])
        tvs = values.tv_from_json(case["tvs"])
        args = case["args"]
        text = ["layout: %s" % layouts.short(d), "value: %r" % (layoutsem.to_list(d),),
                "op: %s%r" % (case["op"], args)]
        try:
            exp = ("value", self.expected(T, tvs, case["op"], args))
        except refops.RefError as err:
            exp = ("error", str(err))
        except refops.Skip as err:
            exp = ("skip", str(err))
        text.append("expected: %s %r" % exp)
        try:
            got = ("value", observe(self.apply(lay, case["op"], args)))
        except ERRORS as err:
            got = ("error", err)
        text.append("observed: %s %r" % got)
        if exp[0] == "skip":
            bad = False
        elif exp[0] == "value" and got[0] == "value" and case.get("other_layout"):
            other = layouts.build(layouts.from_json(case["other_layout"]))
            try:
                got2 = ("value", observe(self.apply(other, case["op"], args)))
            except ERRORS as err:
                got2 = ("error", err)
            text.append("other encoding: %s" % layouts.short(layouts.from_json(case["other_layout"])))
            text.append("observed there: %s %r" % got2)
            bad = not self.matches(exp[1], got[1], case["op"], args) or got2[0] != "value" or not layoutsem.same(got[1], got2[1])
        elif exp[0] == "value" and got[0] == "value":
            bad = not self.matches(exp[1], got[1], case["op"], args)
        elif exp[0] == "error":
            bad = got[0] != "error"
        else:
            bad = not self.refusal_ok(T, tvs, case["op"], args, got[1])
        return bad, "\n".join(text)


def _has_alt(v):
    if isinstance(v, refops.Alt):
        return True
    if isinstance(v, (list, tuple)):
        return any(_has_alt(x) for x in v)
    if isinstance(v, dict):
        return any(_has_alt(x) for x in v.values())
    return False


def _jsonable(x):
    if isinstance(x, (list, tuple)):
        return [_jsonable(y) for y in x]
    if isinstance(x, np.ndarray):
        return ["a", x.tolist(), str(x.dtype)]
    if isinstance(x, (np.integer,)):
        return int(x)
    if isinstance(x, (np.bool_,)):
        return bool(x)
    if isinstance(x, slice):
        return ["s", x.start, x.stop, x.step]
    return x
