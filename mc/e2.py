"""Engine E2: kernel explorer (DESIGN.md 3.2).

The Python ``definition`` of a kernel in kernel-specification.yml is executed on *lazy* arguments: every
element of an input array becomes a choice point the first time the definition reads it.  The choice
sequences are enumerated breadth-first by number of deviations from the all-default sequence (every
complete sequence is reached exactly once through its chain of "last deviation removed" parents), so a
cap always cuts at a well-defined deviation level.  The compiled kernel is then called through ctypes on
the same concrete arguments, in buffers of exactly the extent the definition touched, with guard zones.

Nothing here is random: the enumeration order is a function of the YAML and the tier only.
"""
import ctypes
import math
import signal
import struct

import numpy as np

# ----------------------------------------------------------------------------------------------------------
# C types

CT = {
    "bool": (np.dtype(np.bool_), ctypes.c_bool),
    "int8_t": (np.dtype(np.int8), ctypes.c_int8),
    "uint8_t": (np.dtype(np.uint8), ctypes.c_uint8),
    "int16_t": (np.dtype(np.int16), ctypes.c_int16),
    "uint16_t": (np.dtype(np.uint16), ctypes.c_uint16),
    "int32_t": (np.dtype(np.int32), ctypes.c_int32),
    "uint32_t": (np.dtype(np.uint32), ctypes.c_uint32),
    "int64_t": (np.dtype(np.int64), ctypes.c_int64),
    "uint64_t": (np.dtype(np.uint64), ctypes.c_uint64),
    "float": (np.dtype(np.float32), ctypes.c_float),
    "double": (np.dtype(np.float64), ctypes.c_double),
}
INT_RANGE = {}
for _n, (_d, _c) in CT.items():
    if _d.kind in "iu":
        INT_RANGE[_n] = (int(np.iinfo(_d).min), int(np.iinfo(_d).max))

kMaxInt64 = 9223372036854775806
kSliceNone = kMaxInt64 + 1


class ERROR(ctypes.Structure):
    _fields_ = [("str", ctypes.c_char_p), ("filename", ctypes.c_char_p), ("id", ctypes.c_int64),
                ("attempt", ctypes.c_int64), ("pass_through", ctypes.c_bool)]


def parse_type(t):
    """'Const[List[int64_t]]' -> (base, depth, const)"""
    const = False
    depth = 0
    t = t.strip()
    while True:
        if t.startswith("Const[") and t.endswith("]"):
            const = True
            t = t[6:-1]
        elif t.startswith("List[") and t.endswith("]"):
            depth += 1
            t = t[5:-1]
        else:
            break
    return t, depth, const


# ----------------------------------------------------------------------------------------------------------
# outcomes of running a definition


class Skip(Exception):
    """The candidate is outside the contract of the kernel (or outside the domain of the definition)."""

    def __init__(self, reason):
        Exception.__init__(self, reason)
        self.reason = reason


class DefTimeout(BaseException):
    pass


def _on_vtalrm(signum, frame):
    raise DefTimeout()


def conv(base, v):
    """C conversion of a Python value stored into an lvalue of C type ``base`` (what `to[i] = v` does in the
    compiled kernel).  Conversions that are undefined in C (nan/inf/out-of-range float -> integer) or inexact
    where the repository reads float() as a cast (|int| > 2**53 -> floating) put the candidate outside the domain."""
    if base == "bool":
        if isinstance(v, float) and v != v:
            return True
        return bool(v)
    if base in INT_RANGE:
        if isinstance(v, float):
            if v != v or v in (math.inf, -math.inf):
                raise Skip("float-to-int-undefined")
            if abs(v) >= 9007199254740992.0:
                # the definition computed in floating point what the kernel computes in integers (2**53 itself may be
                # the rounded 2**53 + 1)
                raise Skip("float-arithmetic-inexact")
            v = math.trunc(v)
            lo, hi = INT_RANGE[base]
            if v < lo or v > hi:
                raise Skip("float-to-int-undefined")
            return v
        v = int(v)
        lo, hi = INT_RANGE[base]
        if v < lo or v > hi:
            m = hi - lo + 1
            v = (v - lo) % m + lo
        return v
    # floating
    if isinstance(v, bool):
        v = int(v)
    if isinstance(v, int):
        f = float(v) if abs(v) < (1 << 1023) else None
        if f is None or int(f) != v:
            raise Skip("int-to-float-inexact")
        v = f
    if base == "float":
        if v != v or v in (math.inf, -math.inf):
            return v
        w = struct.unpack("f", struct.pack("f", v))[0] if abs(v) < 3.5e38 else math.copysign(math.inf, v)
        return w
    return float(v)


class CFloat(float):
    """Result of float(...) in a definition.  The repository reads float(x) as a C cast (dev/generate-cuda.py), and
    several definitions pass the result to range(); __index__ gives the C truncation there.  Arithmetic on it yields
    plain floats."""
    __slots__ = ()

    def __index__(self):
        return int(self)


def _float(x):
    if isinstance(x, int) and not isinstance(x, bool):
        try:
            f = float(x)
        except OverflowError:
            raise Skip("int-to-float-inexact")
        if int(f) != x:
            raise Skip("int-to-float-inexact")
        return CFloat(f)
    return CFloat(x)


def _int(x):
    if isinstance(x, float):
        if x != x or x in (math.inf, -math.inf) or abs(x) >= 9.3e18:
            raise Skip("float-to-int-undefined")
    return int(x)


def _uint8(x):
    return int(x) & 0xFF


DEF_GLOBALS = {
    "range": range, "len": len, "min": min, "max": max, "ValueError": ValueError, "uint8": _uint8,
    "float": _float, "int": _int, "kSliceNone": kSliceNone, "kMaxInt64": kMaxInt64, "abs": abs,
    "True": True, "False": False, "__builtins__": {},
}


def _regularize_rangeslice(start, stop, posstep, hasstart, hasstop, length):
    """Reference meaning of awkward_regularize_rangeslice (include/awkward/kernel-utils.h: "regularize a Python
    slice"): Python's own slice.indices, not a transcription of the C helper."""
    if length < 0:
        raise Skip("negative-list-length")
    a, b, _ = slice(start if hasstart else None, stop if hasstop else None, 1 if posstep else -1).indices(length)
    return a, b


# helpers that C calls by reference and the definitions call by value: `helper(a, b, ...)` as a statement is read as
# `a, b = helper(a, b, ...)` (DESIGN.md 5 C13 class B: repair where the intended meaning is unambiguous; done here
# because /repo is never modified by a check)
BYREF_HELPERS = {"awkward_regularize_rangeslice": (_regularize_rangeslice, 2)}


def repair_definition(source):
    """-> (source', names of repaired helper calls)"""
    import ast
    tree = ast.parse(source)
    repaired = []

    class T(ast.NodeTransformer):
        def visit_Expr(self, node):
            c = node.value
            if isinstance(c, ast.Call) and isinstance(c.func, ast.Name) and c.func.id in BYREF_HELPERS:
                n = BYREF_HELPERS[c.func.id][1]
                if all(isinstance(a, ast.Name) for a in c.args[:n]):
                    repaired.append(c.func.id)
                    tgt = ast.Tuple(elts=[ast.Name(id=a.id, ctx=ast.Store()) for a in c.args[:n]], ctx=ast.Store())
                    return ast.copy_location(ast.Assign(targets=[tgt], value=c), node)
            return node
    tree = T().visit(tree)
    ast.fix_missing_locations(tree)
    return tree, repaired


def compile_definition(name, source):
    """-> python function, or None when the YAML carries no definition (class C)."""
    if not source or "def " not in source:
        return None
    g = dict(DEF_GLOBALS)
    code = source
    fn_repaired = []
    if any(h in source for h in BYREF_HELPERS):
        code, fn_repaired = repair_definition(source)
        for h in fn_repaired:
            g[h] = BYREF_HELPERS[h][0]
    exec(compile(code, "<definition of %s>" % name, "exec"), g)
    fn = g.get(name)
    if fn is not None:
        fn.repaired = sorted(set(fn_repaired))
    return fn


# ----------------------------------------------------------------------------------------------------------
# choice-sequence explorer


class Ctx(object):
    __slots__ = ("prefix", "trace", "np")

    def __init__(self, prefix):
        self.prefix = prefix
        self.np = len(prefix)
        self.trace = []

    def choose(self, n):
        i = len(self.trace)
        c = self.prefix[i] if i < self.np else 0
        if c >= n:
            raise RuntimeError("nondeterminism not captured: choice %d of arity %d at position %d" % (c, n, i))
        self.trace.append((n, c))
        return c


class Fixed(object):
    """Replay context: no choices are left."""

    def choose(self, n):
        raise Skip("replay-reads-unset-element")


def explore(roots, fixed, body, cap, hard_cap=None):
    """Breadth-first (by deviation count) enumeration of all choice sequences of ``body``.

    roots: list of prefixes whose first ``fixed`` positions are enumerated eagerly (scalar tuples).
    body(ctx) is run once per sequence, does the work and returns True when the candidate counted (was inside the
    contract).  ``cap`` bounds the counted candidates, ``hard_cap`` all runs.  Returns (runs, counted,
    completed_levels, exhausted): after ``completed_levels`` = L every sequence with fewer than L deviations behind
    the root has been run."""
    if hard_cap is None:
        hard_cap = 4 * cap
    frontier = list(roots)
    runs = 0
    counted = 0
    level = 0
    while frontier:
        nxt = []
        truncated = False
        for prefix in frontier:
            if counted >= cap or runs >= hard_cap:
                return runs, counted, level, False
            ctx = Ctx(prefix)
            if body(ctx):
                counted += 1
            runs += 1
            if truncated:
                continue
            tr = ctx.trace
            start = max(len(prefix), fixed)
            if start < len(tr):
                room = hard_cap - runs
                base = [c for _, c in tr[:start]]
                for p in range(start, len(tr)):
                    n = tr[p][0]
                    for c in range(1, n):
                        if len(nxt) >= room:
                            truncated = True
                            break
                        nxt.append(tuple(base) + (c,))
                    if truncated:
                        break
                    base.append(0)
        level += 1
        if truncated:
            for prefix in nxt:
                if counted >= cap or runs >= hard_cap:
                    break
                if body(Ctx(prefix)):
                    counted += 1
                runs += 1
            return runs, counted, level, False
        frontier = nxt
    return runs, counted, level, True


def explore_by_root(roots, fixed, body, cap):
    """Like explore(), but every root (scalar tuple) is explored on its own, in the given order (smallest tuples
    first), to exhaustion or to its share of the budget that is left: share = remaining cap / remaining roots, so
    what a small root does not use goes to the larger ones.  Runs that fall outside the contract are cheap (no kernel
    call) and are bounded by 8 x share.  Returns (runs, counted, roots exhausted, all exhausted)."""
    runs = counted = done = 0
    n = len(roots)
    for i, root in enumerate(roots):
        share = max(1, (cap - counted) // (n - i))
        r, c, _, ex = explore([root], fixed, body, share, hard_cap=8 * share)
        runs += r
        counted += c
        done += 1 if ex else 0
    return runs, counted, done, done == n


# ----------------------------------------------------------------------------------------------------------
# lazy arguments


class OutOfExtent(Exception):
    pass


class ReadBeforeWrite(Exception):
    pass


class LazyIn(object):
    """Input array: an element is chosen when first read.  Writable inputs (declared `List[...]`, dir in) also
    accept writes, which shadow the input value afterwards."""
    __slots__ = ("name", "base", "domain", "ctx", "vals", "written", "maxext", "state", "ops", "child")

    def __init__(self, name, base, domain, ctx, maxext, state, child=None):
        self.name = name
        self.base = base
        self.domain = domain
        self.ctx = ctx
        self.vals = {}
        self.written = {}
        self.maxext = maxext
        self.state = state
        self.child = child

    def __getitem__(self, i):
        if type(i) is not int:
            if isinstance(i, float) and not isinstance(i, CFloat):
                raise TypeError("float index")
            i = int(i)
        w = self.written
        if w and i in w:
            return w[i]
        v = self.vals.get(i, self)
        if v is self:
            st = self.state
            st.ops += 1
            if i < 0 or i >= self.maxext:
                raise OutOfExtent(self.name)
            if self.child is not None:
                v = self.child(i)
            else:
                dom = self.domain(self, i)
                if not dom:
                    raise Skip("empty-domain")
                v = dom[self.ctx.choose(len(dom))] if len(dom) > 1 else dom[0]
            self.vals[i] = v
        return v

    def __setitem__(self, i, v):
        if type(i) is not int:
            i = int(i)
        if i < 0 or i >= self.maxext:
            raise OutOfExtent(self.name)
        self.state.ops += 1
        self.written[i] = conv(self.base, v)

    def __len__(self):
        raise Skip("len-of-input")


class Out(object):
    """Output array: write-before-read; values are converted to the C type when stored."""
    __slots__ = ("name", "base", "written", "maxext", "state")

    def __init__(self, name, base, maxext, state):
        self.name = name
        self.base = base
        self.written = {}
        self.maxext = maxext
        self.state = state

    def __getitem__(self, i):
        if type(i) is not int:
            i = int(i)
        try:
            return self.written[i]
        except KeyError:
            raise ReadBeforeWrite(self.name)

    def __setitem__(self, i, v):
        if type(i) is not int:
            if isinstance(i, float) and not isinstance(i, CFloat):
                raise TypeError("float index")
            i = int(i)
        if i < 0 or i >= self.maxext:
            raise OutOfExtent(self.name)
        st = self.state
        st.ops += 1
        if st.ops > st.maxops:
            raise Skip("definition-too-long")
        self.written[i] = conv(self.base, v)

    def __len__(self):
        raise Skip("len-of-output")


class OutOuter(object):
    """List[List[T]] output: a fixed number of lazily created inner outputs."""
    __slots__ = ("name", "base", "rows", "maxext", "state", "maxrows")

    def __init__(self, name, base, maxext, state, maxrows=6):
        self.name = name
        self.base = base
        self.rows = {}
        self.maxext = maxext
        self.state = state
        self.maxrows = maxrows

    def __getitem__(self, i):
        if i < 0 or i >= self.maxrows:
            raise OutOfExtent(self.name)
        r = self.rows.get(i)
        if r is None:
            r = self.rows[i] = Out("%s[%d]" % (self.name, i), self.base, self.maxext, self.state)
        return r


class RunState(object):
    __slots__ = ("ops", "maxops", "aux")

    def __init__(self, maxops=3000):
        self.ops = 0
        self.maxops = maxops
        self.aux = {}


# ----------------------------------------------------------------------------------------------------------
# running the definition

BROKEN = (NameError, TypeError, AttributeError, RecursionError, UnboundLocalError, KeyError, AssertionError)


class DefRun(object):
    """Result of one execution of a definition: status and the concrete arguments it touched."""
    __slots__ = ("status", "reason", "scalars", "ins", "outs", "message")

    def __init__(self):
        self.status = None      # "ok" | "error" | "skip" | "broken"
        self.reason = None
        self.scalars = {}
        self.ins = {}           # name -> LazyIn
        self.outs = {}          # name -> Out / OutOuter
        self.message = None


def run_definition(fn, args, timeout_s=2.0):
    """args: list of python objects (scalars, LazyIn, Out) in declaration order."""
    r = DefRun()
    old = signal.signal(signal.SIGVTALRM, _on_vtalrm)
    signal.setitimer(signal.ITIMER_VIRTUAL, timeout_s)
    try:
        try:
            fn(*args)
            r.status = "ok"
        finally:
            signal.setitimer(signal.ITIMER_VIRTUAL, 0)
    except ValueError as e:
        r.status = "error"
        r.message = str(e)
    except Skip as e:
        r.status = "skip"
        r.reason = e.reason
    except OutOfExtent as e:
        r.status = "skip"
        r.reason = "index-outside-extent"
    except IndexError:
        r.status = "skip"
        r.reason = "index-outside-extent"
    except ReadBeforeWrite:
        r.status = "skip"
        r.reason = "output-read-before-write"
    except ZeroDivisionError:
        r.status = "skip"
        r.reason = "division-by-zero"
    except OverflowError:
        r.status = "skip"
        r.reason = "python-overflow"
    except DefTimeout:
        r.status = "skip"
        r.reason = "definition-timeout"
    except BROKEN as e:
        r.status = "broken"
        r.reason = "%s: %s" % (type(e).__name__, e)
    finally:
        signal.setitimer(signal.ITIMER_VIRTUAL, 0)
        signal.signal(signal.SIGVTALRM, old)
    return r


# ----------------------------------------------------------------------------------------------------------
# calling the compiled kernel

GUARD = 8          # guard elements on each side
FILLS = (0x00, 0xFF, 0xA5)

_fill_cache = {}


def arg_fill(fill, i, row=None):
    """Byte pattern of the guard zones / filler of argument number i: every array gets its own pattern, so that a
    kernel copying one array's guard zone into another's is seen."""
    b = fill + 0x35 * i
    if row is not None:
        b += 0x11 * (row + 1)
    return b & 0xFF


def fill_value(base, fill):
    k = (base, fill)
    v = _fill_cache.get(k)
    if v is None:
        dt = CT[base][0]
        v = np.frombuffer(bytes([fill]) * dt.itemsize, dtype=dt)[0].item()
        _fill_cache[k] = v
    return v


class Buf(object):
    """An array argument of exactly ``n`` elements between two guard zones filled with ``fill`` bytes."""
    __slots__ = ("raw", "view", "n", "fill", "gb", "base", "before")

    def __init__(self, base, n, fill, values=None):
        dt = CT[base][0]
        self.base = base
        self.n = n
        self.fill = fill
        self.gb = GUARD * dt.itemsize
        self.raw = np.full(2 * self.gb + n * dt.itemsize, fill, dtype=np.uint8)
        self.view = self.raw[self.gb:self.gb + n * dt.itemsize].view(dt)
        if values:
            for i, v in values.items():
                self.view[i] = v
        self.before = None

    def ptr(self):
        return self.raw.ctypes.data + self.gb

    def snapshot(self):
        self.before = self.raw.tobytes()

    def guards_ok(self):
        g = bytes([self.fill]) * self.gb
        raw = self.raw
        return raw[:self.gb].tobytes() == g and raw[raw.shape[0] - self.gb:].tobytes() == g

    def unchanged(self):
        return self.raw.tobytes() == self.before

    def tolist(self):
        return self.view.tolist()


class KernelLib(object):
    def __init__(self, path):
        self.lib = ctypes.CDLL(path)
        self._fn = {}

    def has(self, name):
        try:
            getattr(self.lib, name)
            return True
        except AttributeError:
            return False

    def fn(self, spec):
        f = self._fn.get(spec["name"])
        if f is None:
            f = getattr(self.lib, spec["name"])
            at = []
            for a in spec["args"]:
                base, depth, const = parse_type(a["type"])
                at.append(ctypes.c_void_p if depth else CT[base][1])
            f.argtypes = at
            f.restype = ERROR
            self._fn[spec["name"]] = f
        return f


def same(base, a, b):
    """Equality of two values of C type ``base`` (NaN equals NaN)."""
    if a == b:
        return True
    if isinstance(a, float) and isinstance(b, float) and a != a and b != b:
        return True
    return False
