"""Known findings (DESIGN.md section 7): committed file, read-only at run time, narrow signatures."""
import json
import os

VERIF = os.path.dirname(os.path.dirname(os.path.abspath(__file__)))
PATH = os.path.join(VERIF, "known_findings.json")

# structural predicates referred to by name from known_findings.json; each gets (violation dict, params)
PREDICATES = {}


def predicate(name):
    def deco(f):
        PREDICATES[name] = f
        return f
    return deco


def load():
    try:
        with open(PATH) as f:
            return json.load(f)["findings"]
    except FileNotFoundError:
        return []


def match(known, prop, v):
    """A violation is attributed to an entry only if *all* signature components match."""
    for ent in known:
        if ent.get("property") != prop:
            continue
        sig = ent.get("signature", {})
        ok = True
        for k, want in sig.items():
            if k == "predicate" or k == "predicates":
                for w in ([want] if k == "predicate" else want):
                    f = PREDICATES.get(w["name"])
                    if f is None or not f(v, w.get("params", {})):
                        ok = False
                        break
                if not ok:
                    break
            elif v.get(k) != want:
                ok = False
                break
        if ok and sig:
            return ent
    return None


@predicate("op_in")
def _op_in(v, params):
    return v.get("op") in params.get("ops", [])


@predicate("input_top_in")
def _input_top_in(v, params):
    return v.get("input_top") in params.get("families", [])


@predicate("field_in")
def _field_in(v, params):
    return v.get(params.get("field")) in params.get("values", [])


@predicate("either_field_in")
def _either_field_in(v, params):
    return any(v.get(f) in params.get("values", []) for f in params.get("fields", []))


@predicate("field_endswith")
def _field_endswith(v, params):
    return str(v.get(params.get("field"), "")).endswith(params.get("suffix", "\0"))


@predicate("enc_has")
def _enc_has(v, params):
    """the re-encoding (a '+'-joined set of alternative names when two nodes are non-canonical) includes one of the values"""
    parts = str(v.get("enc", "")).split("+")
    return any(x in parts for x in params.get("values", []))
