"""Tier-L3 halves of the E1 properties: the repository's own Python layer (ak.Array.__getitem__, ak.sum(axis=None),
ak.flatten/unflatten/ravel, ak.cartesian, ak.pad_none/fill_none/is_none/mask, ak.zip/unzip/with_field,
ak.concatenate, ak.sort/argsort ...) run on the mirror against the same reference models as the L2 halves.

A table entry is (label, run(ak, arr) -> python value, expect(T, tvs) -> reference value) ; expect may raise refops.RefError
(the call must raise), refops.Skip (undefined) ."""
import itertools
import math

import numpy as np

import refops
import values
import layoutsem
from values import I, F, B, S, var, opt, rec, reg, tup
from refops import RefError, Skip

_ak = [None]


def ak():
    if _ak[0] is None:
        import install
        _ak[0] = install.install()
        import warnings
        warnings.filterwarnings("ignore")
    return _ak[0]


def plain(v):
    if isinstance(v, np.generic):
        return v.item()
    if isinstance(v, np.ndarray):
        return plain(v.tolist())
    if isinstance(v, list):
        return [plain(x) for x in v]
    if isinstance(v, tuple):
        return tuple(plain(x) for x in v)
    if isinstance(v, dict):
        return {k: plain(x) for k, x in v.items()}
    return v


def tl(x):
    a = ak()
    if isinstance(x, (a.Array, a.Record, a.layout.Content, a.layout.Record, a.partition.PartitionedArray)):
        return plain(a.to_list(x))
    return plain(x)


# ------------------------------------------------------------------------------------------------------------ reference bits
def leaves(v):
    """non-missing leaves in order (strings are leaves)"""
    if v is None:
        return []
    if isinstance(v, (list, tuple)):
        out = []
        for x in v:
            out.extend(leaves(x))
        return out
    if isinstance(v, dict):
        out = []
        for x in v.values():
            out.extend(leaves(x))
        return out
    return [v]


def reduce_all(name, T, tvs, mask):
    if refops._has_string(T) or refops._has_kind(T, ("rec", "tup", "union", "unknown")):
        raise Skip("axis=None over records/strings")
    vals = leaves(values.strip(tvs))
    kind = refops._leaf_kind(T)
    pairs = list(enumerate(vals))
    opts = refops._reduce_leaves(name, pairs, kind, mask)
    if name in ("argmin", "argmax"):
        raise Skip("positions with axis=None refer to the flattened array (covered separately)")
    return opts[0] if len(opts) == 1 and not isinstance(opts[0], tuple) else refops.Alt(opts)


def depth_of(T):
    lo, hi = refops.array_depth(T)
    return lo, hi


# --------------------------------------------------------------------------------------------------------------- op tables
REDUCERS = ["count", "count_nonzero", "sum", "prod", "any", "all", "min", "max", "argmin", "argmax"]


def ops_C03(T, tvs, tier):
    a = ak()
    lo, hi = depth_of(T)
    out = []
    for r in REDUCERS:
        f = getattr(a, r)
        for ax in range(-hi, hi):
            for mask in (False, True):
                for keep in (False, True):
                    if tier == "quick" and keep and mask:
                        continue
                    out.append(("%s(axis=%d,mask_identity=%s,keepdims=%s)" % (r, ax, mask, keep),
                                lambda arr, f=f, ax=ax, mask=mask, keep=keep: tl(f(arr, axis=ax, mask_identity=mask, keepdims=keep)),
                                lambda T, tvs, r=r, ax=ax, mask=mask, keep=keep: refops.reduce(T, tvs, r, ax, mask, keep)))
        for mask in (False, True):
            out.append(("%s(axis=None,mask_identity=%s)" % (r, mask),
                        lambda arr, f=f, mask=mask: tl(f(arr, axis=None, mask_identity=mask)),
                        lambda T, tvs, r=r, mask=mask: reduce_all(r, T, tvs, mask)))
    return out


def ops_C05(T, tvs, tier):
    a = ak()
    lo, hi = depth_of(T)
    out = []
    for ax in range(-hi - 1, hi + 1):
        out.append(("num(axis=%d)" % ax, lambda arr, ax=ax: tl(a.num(arr, axis=ax)), lambda T, tvs, ax=ax: refops.num(T, tvs, ax)))
        out.append(("local_index(axis=%d)" % ax, lambda arr, ax=ax: tl(a.local_index(arr, axis=ax)),
                    lambda T, tvs, ax=ax: refops.local_index(T, tvs, ax)))
        out.append(("flatten(axis=%d)" % ax, lambda arr, ax=ax: tl(a.flatten(arr, axis=ax)),
                    lambda T, tvs, ax=ax: refops.flatten(T, tvs, ax)))
    out.append(("flatten(axis=None)", lambda arr: tl(a.flatten(arr, axis=None)), lambda T, tvs: flatten_none(T, tvs)))
    out.append(("ravel", lambda arr: tl(a.ravel(arr)), lambda T, tvs: flatten_none(T, tvs)))
    out.append(("flatten(axis=None) type", lambda arr: str(a.type(a.flatten(arr, axis=None))), lambda T, tvs: flat_type(T, tvs)))
    out.append(("ravel type", lambda arr: str(a.type(a.ravel(arr))), lambda T, tvs: flat_type(T, tvs)))
    out.append(("unflatten(flatten(x), num(x))", lambda arr: tl(a.unflatten(a.flatten(arr, axis=1), a.num(arr, axis=1))),
                lambda T, tvs: unflatten_law(T, tvs)))
    out.append(("unflatten(x, 1)", lambda arr: tl(a.unflatten(arr, 1)) if len(arr) else Skip_(),
                lambda T, tvs: [[x] for x in values.strip(tvs)] if len(tvs) else _skip("empty")))
    out.append(("unflatten(x, counts 0..)", lambda arr: tl(a.unflatten(arr, np.array(split_counts(len(arr)), dtype=np.int64))),
                lambda T, tvs: unflatten_counts(values.strip(tvs), split_counts(len(tvs)))))
    out.append(("unflatten(x, too few)", lambda arr: tl(a.unflatten(arr, np.array([len(arr) + 1], dtype=np.int64))),
                lambda T, tvs: _referr("counts do not add up")))
    return out


def Skip_():
    raise Skip("n/a")


def _skip(why):
    raise Skip(why)


def _referr(why):
    raise RefError(why)


def split_counts(n):
    out = [0]
    k = 1
    left = n
    while left > 0:
        c = min(k, left)
        out.append(c)
        left -= c
        k += 1
    out.append(0)
    return out


def unflatten_counts(v, counts):
    out, k = [], 0
    for c in counts:
        out.append(v[k:k + c])
        k += c
    return out


def flatten_none(T, tvs):
    if refops._has_kind(T, ("union",)):
        raise Skip("union")
    if refops._has_kind(T, ("str", "bytes")):
        raise Skip("axis=None takes strings apart into characters in 1.x; the statement does not say")
    return leaves(values.strip(tvs))


def flat_type(T, tvs):
    """type of the completely flattened array: its leaves keep their own primitive type"""
    if refops._has_kind(T, ("union", "str", "bytes")):
        raise Skip("strings / unions")
    kinds = set()

    def walk(t):
        k = t[0]
        if k in ("int", "float", "bool"):
            kinds.add(k)
        elif k in ("var", "opt"):
            walk(t[1])
        elif k == "reg":
            walk(t[2])
        elif k == "rec":
            for _, x in t[1]:
                walk(x)
        elif k == "tup":
            for x in t[1]:
                walk(x)
    walk(T)
    if len(kinds) != 1:
        raise Skip("leaves of several primitive types are promoted")
    n = len(flatten_none(T, tvs))
    return "%d * %s" % (n, {"int": "int64", "float": "float64", "bool": "bool"}[kinds.pop()])


def unflatten_law(T, tvs):
    inner, isopt = refops.item_types(T)
    if inner[0] not in ("var", "reg") or isopt:
        raise Skip("needs lists without missing rows at axis 1")
    if any(e is None for e in tvs):
        raise Skip("missing rows")
    ch = refops._child(inner)
    return values.strip(tvs)


def ops_C06(T, tvs, tier):
    a = ak()
    lo, hi = depth_of(T)
    out = []
    for ax in range(-hi, hi):
        for asc in (True, False):
            for stable in (True, False):
                out.append(("sort(axis=%d,ascending=%s,stable=%s)" % (ax, asc, stable),
                            lambda arr, ax=ax, asc=asc, stable=stable: tl(a.sort(arr, axis=ax, ascending=asc, stable=stable)),
                            lambda T, tvs, ax=ax, asc=asc, stable=stable: refops.sort(T, tvs, ax, asc, stable, arg=False)))
                out.append(("argsort(axis=%d,ascending=%s,stable=%s)" % (ax, asc, stable),
                            lambda arr, ax=ax, asc=asc, stable=stable: tl(a.argsort(arr, axis=ax, ascending=asc, stable=stable)),
                            lambda T, tvs, ax=ax, asc=asc, stable=stable: refops.sort(T, tvs, ax, asc, stable, arg=True)))
    return out


def ops_C07(T, tvs, tier):
    a = ak()
    lo, hi = depth_of(T)
    out = []
    for ax in range(0, hi):
        for n in (1, 2, 3):
            for repl in (False, True):
                out.append(("combinations(n=%d,replacement=%s,axis=%d)" % (n, repl, ax),
                            lambda arr, n=n, repl=repl, ax=ax: tl(a.combinations(arr, n, replacement=repl, axis=ax)),
                            lambda T, tvs, n=n, repl=repl, ax=ax: refops.combinations(T, tvs, n, repl, ax)))
                out.append(("argcombinations(n=%d,replacement=%s,axis=%d)" % (n, repl, ax),
                            lambda arr, n=n, repl=repl, ax=ax: tl(a.argcombinations(arr, n, replacement=repl, axis=ax)),
                            lambda T, tvs, n=n, repl=repl, ax=ax: argcombinations_ref(T, tvs, n, repl, ax)))
        out.append(("combinations(n=2,fields=[p,q],axis=%d)" % ax,
                    lambda arr, ax=ax: tl(a.combinations(arr, 2, axis=ax, fields=["p", "q"])),
                    lambda T, tvs, ax=ax: refops.combinations(T, tvs, 2, False, ax, keys=["p", "q"])))
    # cartesian of the array with itself and with a shifted copy, at axis 0 and 1, nested or not
    for ax in range(0, min(hi, 2)):
        for nested in (None, True):
            out.append(("cartesian([x, x],axis=%d,nested=%s)" % (ax, nested),
                        lambda arr, ax=ax, nested=nested: tl(a.cartesian([arr, arr], axis=ax, nested=nested)),
                        lambda T, tvs, ax=ax, nested=nested: cartesian_ref(T, [tvs, tvs], ax, nested, None)))
            out.append(("cartesian({a:x,b:x},axis=%d,nested=%s)" % (ax, nested),
                        lambda arr, ax=ax, nested=nested: tl(a.cartesian({"a": arr, "b": arr}, axis=ax, nested=nested)),
                        lambda T, tvs, ax=ax, nested=nested: cartesian_ref(T, [tvs, tvs], ax, nested, ["a", "b"])))
            out.append(("argcartesian([x, x],axis=%d,nested=%s)" % (ax, nested),
                        lambda arr, ax=ax, nested=nested: tl(a.argcartesian([arr, arr], axis=ax, nested=nested)),
                        lambda T, tvs, ax=ax, nested=nested: cartesian_ref(T, [tvs, tvs], ax, nested, None, arg=True)))
        out.append(("cartesian([x, x, x],axis=%d)" % ax,
                    lambda arr, ax=ax: tl(a.cartesian([arr, arr, arr], axis=ax)),
                    lambda T, tvs, ax=ax: cartesian_ref(T, [tvs, tvs, tvs], ax, None, None)))
    return out


def argcombinations_ref(T, tvs, n, repl, axis):
    """positions: combinations of the local index"""
    li = refops.local_index(T, tvs, axis) if axis > 0 else list(range(len(tvs)))
    Tli = _index_type(T, axis)
    return refops.combinations(Tli, values_from(li), n, repl, axis)


def _index_type(T, axis):
    """type of local_index(axis): the list structure down to axis with int leaves"""
    if axis == 0:
        return I
    inner, isopt = refops.item_types(T)
    if inner[0] == "var":
        t = var(_index_type(inner[1], axis - 1))
    elif inner[0] == "reg":
        t = reg(inner[1], _index_type(inner[2], axis - 1))
    else:
        raise Skip("axis deeper than lists")
    return opt(t) if isopt else t


def values_from(v):
    return v


def cartesian_ref(T, operands, axis, nested, keys, arg=False):
    if refops._has_kind(T, ("union", "unknown")):
        raise Skip("union")
    vs = [values.strip(o) for o in operands]
    k = len(vs)

    def mk(combo):
        return dict(zip(keys, combo)) if keys else tuple(combo)

    def product_at(items, depth):
        """items: tuple of k values at this level"""
        if depth == axis:
            if any(x is None for x in items):
                raise Skip("missing lists at the product axis")
            lists = [list(range(len(x))) if arg else x for x in items]
            if nested:
                # nested=True: group by every operand but the last
                def build(prefix, rest):
                    if len(rest) == 1:
                        return [mk(prefix + [y]) for y in rest[0]]
                    return [build(prefix + [y], rest[1:]) for y in rest[0]]
                return build([], lists)
            return [mk(c) for c in itertools.product(*lists)]
        if any(x is None for x in items):
            if all(x is None for x in items):
                return None
            raise Skip("partly missing")
        n = len(items[0])
        return [product_at(tuple(x[i] for x in items), depth + 1) for i in range(n)]
    if axis == 0:
        lists = [list(range(len(x))) if arg else x for x in vs]
        if nested:
            def build(prefix, rest):
                if len(rest) == 1:
                    return [mk(prefix + [y]) for y in rest[0]]
                return [build(prefix + [y], rest[1:]) for y in rest[0]]
            return build([], lists)
        return [mk(c) for c in itertools.product(*lists)]
    return [product_at(tuple(x[i] for x in vs), 1) for i in range(len(vs[0]))]


def ops_C09(T, tvs, tier):
    a = ak()
    lo, hi = depth_of(T)
    out = []
    for ax in range(-hi, hi):
        for target in (0, 1, 3):
            for clip in (False, True):
                out.append(("pad_none(%d,axis=%d,clip=%s)" % (target, ax, clip),
                            lambda arr, target=target, ax=ax, clip=clip: tl(a.pad_none(arr, target, axis=ax, clip=clip)),
                            lambda T, tvs, target=target, ax=ax, clip=clip: refops.rpad(T, tvs, target, ax, clip)))
        out.append(("is_none(axis=%d)" % ax, lambda arr, ax=ax: tl(a.is_none(arr, axis=ax)),
                    lambda T, tvs, ax=ax: is_none_ref(T, tvs, ax)))
        out.append(("fill_none(99,axis=%d)" % ax, lambda arr, ax=ax: tl(a.fill_none(arr, 99, axis=ax)),
                    lambda T, tvs, ax=ax: fill_none_ref(T, tvs, ax)))
    out.append(("fill_none(99,axis=None)", lambda arr: tl(a.fill_none(arr, 99, axis=None)), lambda T, tvs: fill_none_ref(T, tvs, None)))
    for vw in (True, False):
        out.append(("mask(alternating,valid_when=%s)" % vw,
                    lambda arr, vw=vw: tl(a.mask(arr, np.array([i % 2 == 0 for i in range(len(arr))], dtype=np.bool_), valid_when=vw)),
                    lambda T, tvs, vw=vw: [x if ((i % 2 == 0) == vw) else None for i, x in enumerate(values.strip(tvs))]))
    return out


def is_none_ref(T, tvs, axis):
    lo, hi = refops.array_depth(T)
    if lo != hi and axis < 0:
        raise Skip("negative axis on branching depth")
    pos = axis if axis >= 0 else axis + lo
    if not 0 <= pos < lo:
        raise RefError("axis out of range")

    def at(T, v, p):
        if p == 0:
            return v is None
        if v is None:
            return None
        inner, isopt = refops.item_types(T)
        if inner[0] not in ("var", "reg"):
            raise Skip("axis below records")
        ch = refops._child(inner)
        return [at(ch, x, p - 1) for x in v]
    return [at(T, x, pos) for x in values.strip(tvs)]


def fill_none_ref(T, tvs, axis):
    """fill_none replaces exactly the None at the chosen level; the fields of a record sit at the record's own level"""
    if refops._has_kind(T, ("union", "unknown", "str", "bytes", "tup")):
        raise Skip("fill value of another type makes a union")
    if refops._has_kind(T, ("rec",)) and not _flat_record_fields(T):
        raise Skip("records whose fields have lists: levels differ between the fields")
    lo, hi = refops.array_depth(T)
    if axis is None:
        def fill(v):
            if v is None:
                return 99
            if isinstance(v, list):
                return [fill(x) for x in v]
            if isinstance(v, dict):
                return {k: fill(x) for k, x in v.items()}
            return v
        return [fill(x) for x in values.strip(tvs)]
    if lo != hi and axis < 0:
        raise Skip("negative axis on branching depth")
    pos = axis if axis >= 0 else axis + lo
    if not 0 <= pos < lo:
        raise RefError("axis out of range")

    def at(v, p):
        if isinstance(v, dict):
            return {k: at(x, p) for k, x in v.items()}
        if p == 0:
            return 99 if v is None else v
        if v is None:
            return None
        if not isinstance(v, list):
            raise Skip("axis below leaves")
        return [at(x, p - 1) for x in v]
    return [at(x, pos) for x in values.strip(tvs)]


def _flat_record_fields(T):
    k = T[0]
    if k == "rec":
        return all(t[0] in ("int", "float", "bool") or (t[0] == "opt" and t[1][0] in ("int", "float", "bool")) for _, t in T[1])
    if k in ("var", "opt"):
        return _flat_record_fields(T[1])
    if k == "reg":
        return _flat_record_fields(T[2])
    return True


def ops_C10(T, tvs, tier):
    a = ak()
    out = []
    keys = _keys(T)
    if not keys:
        return out
    strip = values.strip

    def field(v, k):
        return refops.project(T, v, refops.Field(k))
    out.append(("fields", lambda arr: list(a.fields(arr)), lambda T, tvs: list(keys)))
    for k in keys:
        out.append(("x[%r]" % k, lambda arr, k=k: tl(arr[k]), lambda T, tvs, k=k: [strip(field(v, k)) for v in tvs]))
        if k.isidentifier():
            out.append(("x.%s" % k, lambda arr, k=k: tl(getattr(arr, k)), lambda T, tvs, k=k: [strip(field(v, k)) for v in tvs]))
    out.append(("unzip", lambda arr: [tl(x) for x in a.unzip(arr)],
                lambda T, tvs: [[strip(field(v, k)) for v in tvs] for k in keys]))
    if T[0] == "rec":
        out.append(("zip(unzip(x)) == x", lambda arr: tl(a.zip(dict(zip(a.fields(arr), a.unzip(arr))), depth_limit=1)),
                    lambda T, tvs: strip(tvs)))
        out.append(("with_field(x, x[k0], 'new')", lambda arr: tl(a.with_field(arr, arr[keys[0]], "new")),
                    lambda T, tvs: [dict(list(strip(v).items()) + [("new", strip(v)[keys[0]])]) for v in tvs]))
        out.append(("with_field(x, 7, k0) replaces", lambda arr: sortkeys(tl(a.with_field(arr, 7, keys[0]))),
                    lambda T, tvs: sortkeys([with_replaced(strip(v), keys[0], 7) for v in tvs])))
        out.append(("x['new'] = ... (setitem)", lambda arr: setitem(a, arr, keys[0]),
                    lambda T, tvs: [dict(list(strip(v).items()) + [("new", strip(v)[keys[0]])]) for v in tvs]))
    out.append(("x[[keys reversed]]", lambda arr: tl(arr[list(reversed(keys))]),
                lambda T, tvs: strip(refops.getitem(T, tvs, (refops.Fields(list(reversed(keys))),)))))
    return out


def with_replaced(d, k, v):
    """with_field on an existing name: the field is replaced and moves to the end (documented in ak.with_field? the order is
    not promised: compared without order)"""
    out = dict(d)
    out[k] = v
    return out


def sortkeys(v):
    if isinstance(v, dict):
        return {k: sortkeys(v[k]) for k in sorted(v)}
    if isinstance(v, list):
        return [sortkeys(x) for x in v]
    return v


def setitem(a, arr, k):
    arr2 = a.Array(arr.layout)
    arr2["new"] = arr2[k]
    return tl(arr2)


def _keys(T):
    k = T[0]
    if k == "rec":
        return [key for key, _ in T[1]]
    if k in ("var", "opt"):
        return _keys(T[1])
    if k == "reg":
        return _keys(T[2])
    return None


def ops_C08(T, tvs, tier):
    a = ak()
    lo, hi = depth_of(T)
    out = []
    strip = values.strip
    out.append(("concatenate([x, x])", lambda arr: tl(a.concatenate([arr, arr])), lambda T, tvs: strip(tvs) + strip(tvs)))
    out.append(("concatenate([x, x[:1], x])", lambda arr: tl(a.concatenate([arr, arr[:1], arr])),
                lambda T, tvs: strip(tvs) + strip(tvs)[:1] + strip(tvs)))
    out.append(("concatenate([x[:0], x])", lambda arr: tl(a.concatenate([arr[:0], arr])), lambda T, tvs: strip(tvs)))
    if hi >= 2 and lo == hi:
        out.append(("concatenate([x, x], axis=1)", lambda arr: tl(a.concatenate([arr, arr], axis=1)),
                    lambda T, tvs: concat_axis1(T, tvs)))
        out.append(("concatenate([x, x], axis=-1)", lambda arr: tl(a.concatenate([arr, arr], axis=-1)),
                    lambda T, tvs: concat_axis_last(T, tvs)))
    return out


def concat_axis1(T, tvs):
    # a missing list at the concatenation axis contributes nothing (ak.concatenate fills it with [] on purpose)
    return [(values.strip(e) or []) + (values.strip(e) or []) if e is not None else [] for e in tvs]


def concat_axis_last(T, tvs):
    lo, hi = refops.array_depth(T)

    def at(v, p):
        if v is None:
            raise Skip("missing lists")
        if p == 1:
            return v + v
        return [at(x, p - 1) for x in v]
    return [at(values.strip(e), lo - 1) for e in tvs]


TABLES = {
    "C03": (ops_C03, [var(I), var(F), var(var(I)), var(opt(I)), opt(var(I)), reg(2, I), I, var(B), var(reg(2, I))]),
    "C05": (ops_C05, [var(I), var(var(I)), var(opt(I)), opt(var(I)), reg(2, I), var(reg(2, I)), I, var(S), var(rec(("x", I))),
                      rec(("x", I), ("y", var(values.UNK))), rec(("x", B), ("y", var(values.UNK))), var(B)]),
    "C06": (ops_C06, [var(I), var(F), var(opt(I)), var(S), I, F, opt(var(I)), reg(2, F)]),
    "C07": (ops_C07, [var(I), var(var(I)), opt(var(I)), reg(2, I), var(rec(("x", I))), I, var(opt(I)), var(reg(1, I)),
                      reg(2, reg(1, I)), var(reg(2, I))]),
    "C08": (ops_C08, [I, var(I), var(var(I)), opt(I), var(opt(I)), rec(("x", I), ("y", var(I))), S, reg(2, I), opt(var(I)),
                      opt(var(F))]),
    "C09": (ops_C09, [var(I), opt(I), var(opt(I)), opt(var(I)), var(var(I)), reg(2, I), I, opt(var(opt(I))),
                      opt(rec(("x", I), ("y", opt(I)))), var(opt(rec(("x", opt(I)), ("y", I)))), rec(("x", opt(I)), ("y", I))]),
    "C10": (ops_C10, [rec(("x", I), ("y", var(I))), var(rec(("x", I), ("y", F))), opt(rec(("x", I))), var(opt(rec(("x", I), ("y", I)))),
                      rec(("x", rec(("a", I))), ("y", I)), reg(2, rec(("x", I)))]),
}
