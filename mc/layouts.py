"""Physical layout descriptions <-> real libawkward objects (through the mirror), JSON replay form, and
canonical state keys."""
import base64
import hashlib
import json
import os
import sys

import numpy as np

VERIF = os.path.dirname(os.path.dirname(os.path.abspath(__file__)))
for sub in ("mirror", "model", "bridge"):
    p = os.path.join(VERIF, sub)
    if p not in sys.path:
        sys.path.insert(0, p)
import ext  # noqa: E402

_IDX = {"8": ext.Index8, "U8": ext.IndexU8, "32": ext.Index32, "U32": ext.IndexU32, "64": ext.Index64}


def _index(cls, arr, pad):
    """Index object over ``arr``; with pad=(before, after, fill) the logical window sits inside a longer
    buffer (non-zero Index::offset, unreachable tail)."""
    arr = np.asarray(arr, dtype=cls._dtype)
    if not pad:
        return cls(arr)
    before, after, fill = pad
    buf = np.concatenate([np.full(before, fill, dtype=cls._dtype), arr, np.full(after, fill, dtype=cls._dtype)])
    return cls(buf, _window=(before, len(arr)))


def build(d):
    """Construct the real layout described by d (see model/layoutsem.py for the format)."""
    c = d["class"]
    if c == "__prebuilt__":
        return d["object"]      # a layout object supplied by the caller (C18 wraps nodes in VirtualArray)
    par = d.get("parameters") or None
    pad = d.get("_pad") or {}
    if c == "NumpyArray":
        a = d["array"]
        if "byte" in pad and a.size > 0 and a.flags["C_CONTIGUOUS"]:
            before, after, fill = pad["byte"]
            raw = np.concatenate([np.full(before, fill, np.uint8), np.frombuffer(a.tobytes(), np.uint8),
                                  np.full(after, fill, np.uint8)])
            obj = object.__new__(ext.NumpyArray)
            obj._h = ext.NumpyArray._build(a, par, byteoffset=before, backing=raw.tobytes())
            return obj
        return ext.NumpyArray(a, parameters=par)
    if c == "EmptyArray":
        return ext.EmptyArray(parameters=par)
    if c.startswith("ListOffsetArray"):
        w = c[len("ListOffsetArray"):]
        return getattr(ext, c)(_index(_IDX[w], d["offsets"], pad.get("offsets")), build(d["content"]), parameters=par)
    if c.startswith("ListArray"):
        w = c[len("ListArray"):]
        return getattr(ext, c)(_index(_IDX[w], d["starts"], pad.get("starts")),
                               _index(_IDX[w], d["stops"], pad.get("stops")), build(d["content"]), parameters=par)
    if c == "RegularArray":
        return ext.RegularArray(build(d["content"]), d["size"], d.get("zeros_length", d.get("length", 0)),
                                parameters=par)
    if c.startswith("IndexedOptionArray"):
        w = c[len("IndexedOptionArray"):]
        return getattr(ext, c)(_index(_IDX[w], d["index"], pad.get("index")), build(d["content"]), parameters=par)
    if c.startswith("IndexedArray"):
        w = c[len("IndexedArray"):]
        return getattr(ext, c)(_index(_IDX[w], d["index"], pad.get("index")), build(d["content"]), parameters=par)
    if c == "ByteMaskedArray":
        return ext.ByteMaskedArray(_index(ext.Index8, d["mask"], pad.get("mask")), build(d["content"]),
                                   d["valid_when"], parameters=par)
    if c == "BitMaskedArray":
        return ext.BitMaskedArray(_index(ext.IndexU8, d["mask"], pad.get("mask")), build(d["content"]),
                                  d["valid_when"], d["length"], d["lsb_order"], parameters=par)
    if c == "UnmaskedArray":
        return ext.UnmaskedArray(build(d["content"]), parameters=par)
    if c.startswith("UnionArray8_"):
        w = c[len("UnionArray8_"):]
        return getattr(ext, c)(_index(ext.Index8, d["tags"], pad.get("tags")),
                               _index(_IDX[w], d["index"], pad.get("index")),
                               [build(x) for x in d["contents"]], parameters=par)
    if c == "RecordArray":
        return ext.RecordArray([build(x) for x in d["contents"]], d.get("keys"), d.get("length"), parameters=par)
    if c == "Record":
        return ext.Record(build(d["array"]), d["at"])
    raise ValueError(c)


###################################################################### JSON form (replay files)

def _arr_json(a):
    a = np.asarray(a)
    if a.dtype.kind in "mM":
        return {"dtype": str(a.dtype), "shape": list(a.shape), "data": a.astype("int64").reshape(-1).tolist(),
                "strides": list(a.strides)}
    if a.dtype.kind == "c":
        flat = a.reshape(-1)
        return {"dtype": str(a.dtype), "shape": list(a.shape), "strides": list(a.strides),
                "data": [[repr(float(x.real)), repr(float(x.imag))] for x in flat]}
    if a.dtype.kind == "f":
        return {"dtype": str(a.dtype), "shape": list(a.shape), "strides": list(a.strides),
                "data": [repr(float(x)) for x in a.reshape(-1)]}
    if a.dtype.kind in "SUVO":
        return {"dtype": str(a.dtype), "shape": list(a.shape), "strides": list(a.strides),
                "b64": base64.b64encode(np.ascontiguousarray(a).tobytes()).decode()}
    return {"dtype": str(a.dtype), "shape": list(a.shape), "strides": list(a.strides),
            "data": a.reshape(-1).tolist()}


def _arr_unjson(j):
    dt = np.dtype(j["dtype"])
    if "b64" in j:
        return np.frombuffer(base64.b64decode(j["b64"]), dtype=dt).reshape(j["shape"]).copy()
    if dt.kind in "mM":
        a = np.array(j["data"], dtype="int64").view(dt) if len(j["data"]) else np.zeros(0, dt)
        a = np.array(j["data"], dtype="int64").astype(dt)
    elif dt.kind == "c":
        a = np.array([complex(float(r), float(i)) for r, i in j["data"]], dtype=dt)
    elif dt.kind == "f":
        a = np.array([float(x) for x in j["data"]], dtype=dt)
    else:
        a = np.array(j["data"], dtype=dt)
    a = a.reshape(j["shape"])
    strides = tuple(j.get("strides") or a.strides)
    if strides != a.strides and a.size > 0:
        a = restride(a, strides)
    return a


def restride(a, strides):
    """A copy of ``a`` with the same values but the given byte strides (junk 0xA5 in the gaps)."""
    shape = a.shape
    lo = sum(min(0, (n - 1) * s) for n, s in zip(shape, strides))
    hi = sum(max(0, (n - 1) * s) for n, s in zip(shape, strides)) + a.itemsize
    raw = np.full(hi - lo, 0xA5, dtype=np.uint8)
    base = np.ndarray(shape, dtype=a.dtype, buffer=raw.data, offset=-lo, strides=strides)
    base[...] = a
    return base


def to_json(d):
    if d is None:
        return None
    out = {}
    for k, v in d.items():
        if isinstance(v, np.ndarray):
            out[k] = {"__ndarray__": _arr_json(v)}
        elif k in ("content", "array") and isinstance(v, dict):
            out[k] = to_json(v)
        elif k == "contents":
            out[k] = [to_json(x) for x in v]
        elif isinstance(v, (np.integer,)):
            out[k] = int(v)
        elif isinstance(v, (np.bool_,)):
            out[k] = bool(v)
        elif isinstance(v, tuple):
            out[k] = list(v)
        else:
            out[k] = v
    return out


def from_json(j):
    if j is None:
        return None
    out = {}
    for k, v in j.items():
        if isinstance(v, dict) and "__ndarray__" in v:
            out[k] = _arr_unjson(v["__ndarray__"])
        elif k in ("content", "array") and isinstance(v, dict):
            out[k] = from_json(v)
        elif k == "contents":
            out[k] = [from_json(x) for x in v]
        elif k == "_pad":
            out[k] = {kk: tuple(vv) for kk, vv in v.items()}
        else:
            out[k] = v
    return out


def key(d):
    """Canonical hashable key of a physical layout: node tree, parameters and all buffer bytes."""
    h = hashlib.sha1()
    _key(d, h)
    return h.hexdigest()


def _key(d, h):
    if d is None:
        h.update(b"<none>")
        return
    h.update(d["class"].encode())
    for k in sorted(d.keys()):
        v = d[k]
        if k == "class":
            continue
        h.update(k.encode())
        if isinstance(v, np.ndarray):
            h.update(str(v.dtype).encode())
            h.update(str(v.shape).encode())
            h.update(str(v.strides).encode())
            h.update(np.ascontiguousarray(v).tobytes())
        elif k in ("content", "array") and isinstance(v, dict):
            _key(v, h)
        elif k == "contents":
            for x in v:
                _key(x, h)
                h.update(b"|")
        else:
            h.update(json.dumps(v, sort_keys=True, default=str).encode())


def short(d, depth=0):
    """One-line human-readable rendering for samples."""
    if d is None:
        return "None"
    c = d["class"]
    bits = []
    for k in ("offsets", "starts", "stops", "index", "mask", "tags"):
        if k in d:
            bits.append("%s=%s" % (k, np.asarray(d[k]).tolist()))
    for k in ("size", "zeros_length", "valid_when", "length", "lsb_order", "keys", "at"):
        if k in d and d[k] is not None:
            bits.append("%s=%s" % (k, d[k]))
    if d.get("parameters"):
        bits.append("parameters=%s" % json.dumps(d["parameters"], sort_keys=True))
    if c == "NumpyArray":
        a = d["array"]
        bits.append("%s%s" % (a.dtype, a.tolist()))
        if not a.flags["C_CONTIGUOUS"]:
            bits.append("strides=%s" % (a.strides,))
    if "content" in d:
        bits.append(short(d["content"], depth + 1))
    if "array" in d and isinstance(d["array"], dict):
        bits.append(short(d["array"], depth + 1))
    if "contents" in d:
        bits.append("[" + ", ".join(short(x, depth + 1) for x in d["contents"]) + "]")
    if d.get("_pad"):
        bits.append("pad=%s" % (d["_pad"],))
    return "%s(%s)" % (c, ", ".join(bits))
