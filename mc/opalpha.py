"""The union alphabet of structural operations at tier L2 (public C++ API through the mirror).

An operation is a (name, args) pair with JSON-able args; ``apply(layout, name, args)`` executes it.
"""
import os

import numpy as np

import ext
import layoutsem

FILL = None


def _fillvalue():
    return ext.NumpyArray(np.array([99], dtype=np.int64))


def decode_slice_item(x):
    """JSON-able slice item -> Python index object.
    int | ["s", start, stop, step] | "..." | None (newaxis) | ["f", name] | ["ff", [names]] |
    ["a", nested list, dtype] | ["L", layout-json]"""
    if isinstance(x, int):
        return x
    if x is None:
        return None
    if x == "...":
        return Ellipsis
    kind = x[0]
    if kind == "s":
        return slice(x[1], x[2], x[3])
    if kind == "f":
        return x[1]
    if kind == "ff":
        return list(x[1])
    if kind == "a":
        return np.array(x[1], dtype=x[2]) if len(x) > 2 else np.array(x[1])
    if kind == "L":
        import layouts
        return layouts.build(layouts.from_json(x[1]))
    if kind == "opt":
        # option-type integer index array, as a layout (IndexedOptionArray64 over int64)
        vals = [v for v in x[1] if v is not None]
        index, pos = [], 0
        for v in x[1]:
            if v is None:
                index.append(-1)
            else:
                index.append(pos)
                pos += 1
        return ext.IndexedOptionArray64(ext.Index64(np.array(index, dtype=np.int64)),
                                        ext.NumpyArray(np.array(vals, dtype=np.int64)))
    if kind == "jag":
        return _jagged_layout(x[1])
    raise ValueError(x)


def _jagged_layout(v):
    """nested lists of ints / bools / None -> ListOffsetArray64 (... of IndexedOptionArray64) of NumpyArray"""
    def leafkind(v):
        for e in v:
            if isinstance(e, list):
                k = leafkind(e)
                if k:
                    return k
            elif isinstance(e, bool):
                return "bool"
            elif isinstance(e, int):
                return "int"
        return None
    kind = leafkind(v) or "int"

    def build(items):
        # items: list of elements at this level: all lists (or None) -> list node; else leaves
        if any(isinstance(e, list) for e in items) or (len(items) and all(e is None for e in items) and False):
            hasnone = any(e is None for e in items)
            present = [e for e in items if e is not None]
            offsets = [0]
            flat = []
            for e in present:
                flat.extend(e)
                offsets.append(len(flat))
            node = ext.ListOffsetArray64(ext.Index64(np.array(offsets, dtype=np.int64)), build(flat))
            if hasnone:
                index, pos = [], 0
                for e in items:
                    if e is None:
                        index.append(-1)
                    else:
                        index.append(pos)
                        pos += 1
                node = ext.IndexedOptionArray64(ext.Index64(np.array(index, dtype=np.int64)), node)
            return node
        hasnone = any(e is None for e in items)
        present = [e for e in items if e is not None]
        leaf = ext.NumpyArray(np.array(present, dtype=np.bool_ if kind == "bool" else np.int64))
        if hasnone:
            index, pos = [], 0
            for e in items:
                if e is None:
                    index.append(-1)
                else:
                    index.append(pos)
                    pos += 1
            leaf = ext.IndexedOptionArray64(ext.Index64(np.array(index, dtype=np.int64)), leaf)
        return leaf
    offsets = [0]
    flat = []
    for e in v:
        flat.extend(e)
        offsets.append(len(flat))
    return ext.ListOffsetArray64(ext.Index64(np.array(offsets, dtype=np.int64)), build(flat))


def decode_slice(sl):
    if isinstance(sl, list) and len(sl) > 0 and sl[0] == "t":
        return tuple(decode_slice_item(x) for x in sl[1:])
    return decode_slice_item(sl)


def apply(lay, name, args):
    if name == "getitem":
        return lay[decode_slice(args[0])]
    if name == "getitem_at":
        return lay[int(args[0])]
    if name == "getitem_range":
        return lay[slice(args[0], args[1])]
    if name == "getitem_field":
        return lay[str(args[0])]
    if name == "getitem_fields":
        return lay[list(args[0])]
    if name == "carry":
        return lay.carry(ext.Index64(np.array(args[0], dtype=np.int64)), bool(args[1]))
    if name == "num":
        return lay.num(args[0])
    if name == "flatten":
        return lay.offsets_and_flatten(args[0])
    if name == "localindex":
        return lay.localindex(args[0])
    if name in ("count", "count_nonzero", "sum", "prod", "any", "all", "min", "max", "argmin", "argmax"):
        return getattr(lay, name)(args[0], bool(args[1]), bool(args[2]))
    if name in ("sort", "argsort"):
        return getattr(lay, name)(args[0], bool(args[1]), bool(args[2]))
    if name == "combinations":
        keys = args[3] if len(args) > 3 else None
        return lay.combinations(args[0], bool(args[1]), keys, None, args[2])
    if name == "rpad":
        return lay.rpad(args[0], args[1])
    if name == "rpad_and_clip":
        return lay.rpad_and_clip(args[0], args[1])
    if name == "fillna":
        return lay.fillna(_fillvalue())
    if name == "mergemany_self":
        return lay.mergemany([lay])
    if name == "merge_as_union_self":
        return lay.merge_as_union(lay)
    if name == "deep_copy":
        return lay.deep_copy(True, True, True)
    if name == "shallow_simplify":
        return ext._box1(lay._call(b"shallow_simplify"))
    if name == "toListOffsetArray64":
        return lay.toListOffsetArray64(bool(args[0]))
    if name == "toRegularArray":
        return lay.toRegularArray()
    if name == "compact_offsets64":
        return lay.compact_offsets64(bool(args[0]))
    if name == "broadcast_tooffsets64":
        return lay.broadcast_tooffsets64(ext.Index64(np.array(args[0], dtype=np.int64)))
    if name == "project":
        return lay.project()
    if name == "bytemask":
        # a byte mask is read as booleans ("!= 0" in the C++ layer, .view(bool) in the Python layer): a ByteMaskedArray
        # with valid_when=False hands out its own mask bytes, whatever non-zero values they hold
        import numpy as _np
        return [1 if x else 0 for x in _np.asarray(lay.bytemask()).tolist()]
    if name == "toIndexedOptionArray64":
        return lay.toIndexedOptionArray64()
    if name == "toByteMaskedArray":
        return lay.toByteMaskedArray()
    if name == "simplify":
        return lay.simplify()
    if name == "contiguous":
        return lay.contiguous()
    if name == "numbers_to_type":
        return lay.numbers_to_type(args[0])
    if name == "tojson":
        return lay.tojson()
    if name == "iterate":
        return list(lay)
    if name == "is_unique":
        return lay.is_unique()
    if name == "unique":
        return ext._box1(lay._call(b"unique"))
    raise ValueError("unknown op " + name)


def op_by_name(name, args):
    return lambda lay: apply(lay, name, args)


def contents_of(res):
    """The layout objects contained in an operation's result."""
    if isinstance(res, (ext.Content, ext.Record)):
        yield res
    elif isinstance(res, (tuple, list)):
        for x in res:
            for y in contents_of(x):
                yield y


REDUCERS = ["count", "count_nonzero", "sum", "prod", "any", "all", "min", "max", "argmin", "argmax"]


def slices_small(n, isrecord_keys=None):
    out = [0, -1, n, ["s", 1, None, None], ["s", None, None, -1], ["s", None, None, 2], ["s", None, -1, None],
           ["s", 5, None, None], "...", None,
           ["a", [0, -1] if n > 0 else [], "int64"],
           ["a", [True, False, True][:n] if n <= 3 else [True] * n, "bool"],
           ["t", ["s", None, None, None], 0], ["t", "...", 0], ["t", ["s", None, None, -1], ["s", 1, None, None]],
           ["t", ["a", [0] if n > 0 else [], "int64"], ["s", None, 1, None]],
           ["t", None, ["s", None, None, None]], ["t", 0, "..."]]
    if isrecord_keys:
        out.append(["f", isrecord_keys[0]])
        out.append(["ff", list(isrecord_keys)])
        out.append(["t", ["s", 1, None, None], ["f", isrecord_keys[0]]])
    return out


def _keys_of(d):
    c = d["class"]
    if c == "RecordArray":
        return d.get("keys")
    if "content" in d and isinstance(d["content"], dict):
        return _keys_of(d["content"])
    return None


def ops_for(d, T, tier, small=False):
    """Yield (name, args, fn) for the union alphabet applicable to the layout described by d."""
    n = layoutsem.length(d)
    lo, hi = layoutsem.minmax_depth(d)
    cls = d["class"]
    axes = list(range(-hi - 1, hi + 1))
    if small:
        axes = [a for a in axes if a in (0, 1, -1)]
    ops = []
    for sl in slices_small(n, _keys_of(d)):
        ops.append(("getitem", [sl]))
    if n > 0:
        ops.append(("carry", [[n - 1, 0], False]))
        ops.append(("carry", [[0], True]))
    ops.append(("carry", [[], False]))
    for ax in axes:
        ops.append(("num", [ax]))
        ops.append(("flatten", [ax]))
        ops.append(("localindex", [ax]))
        for r in (REDUCERS if not small else ["sum", "argmax", "count"]):
            for mask in ((False, True) if not small else (False,)):
                for keep in ((False, True) if not small else (False,)):
                    ops.append((r, [ax, mask, keep]))
        # sorting a four-deep array along a non-innermost axis reads past a heap buffer (KF-C12-NONLOCAL-SORT): the
        # sanitizer build (C12) runs and reports it deterministically; the release build would corrupt its own heap at
        # random, so the other checks leave that one combination out
        unsafe = hi >= 4 and ax not in (-1, hi - 1) and os.environ.get("AKV_VARIANT") != "san"
        if not unsafe:
            ops.append(("sort", [ax, True, False]))
            ops.append(("argsort", [ax, False, True]))
            ops.append(("argsort", [ax, True, False]))      # the unstable argsort is a different routine (std::sort)
            if not small:
                ops.append(("sort", [ax, False, True]))
        for nn in ((1, 2, 3) if not small else (2,)):
            for repl in (False, True):
                ops.append(("combinations", [nn, repl, ax]))
        for target in ((0, 1, 3) if not small else (2,)):
            ops.append(("rpad", [target, ax]))
            ops.append(("rpad_and_clip", [target, ax]))
    ops.append(("fillna", []))
    ops.append(("mergemany_self", []))
    ops.append(("merge_as_union_self", []))
    ops.append(("deep_copy", []))
    ops.append(("shallow_simplify", []))
    ops.append(("numbers_to_type", ["float32"]))
    if cls.startswith("List") or cls == "RegularArray":
        ops.append(("toListOffsetArray64", [True]))
        ops.append(("toListOffsetArray64", [False]))
        ops.append(("toRegularArray", []))
        ops.append(("compact_offsets64", [True]))
    if cls.startswith("Indexed") or cls in ("ByteMaskedArray", "BitMaskedArray", "UnmaskedArray"):
        ops.append(("project", []))
        ops.append(("bytemask", []))
        ops.append(("simplify", []))
    if cls in ("ByteMaskedArray", "BitMaskedArray", "UnmaskedArray"):
        ops.append(("toIndexedOptionArray64", []))
    if cls in ("BitMaskedArray", "UnmaskedArray"):
        ops.append(("toByteMaskedArray", []))
    if cls.startswith("UnionArray"):
        ops.append(("simplify", []))
    if cls == "NumpyArray":
        ops.append(("contiguous", []))
    for name, args in ops:
        yield name, tuple(_freeze(a) for a in args), (lambda lay, name=name, args=args: apply(lay, name, args))


def _freeze(a):
    if isinstance(a, list):
        return tuple(_freeze(x) for x in a)
    return a
