"""Exploration pool (DESIGN.md 11b): deterministic shards over forked workers, crash/hang attribution.

A check provides ``run_shard(shard) -> ShardResult-like dict``.  While running, the check calls
``pool.mark(case_no)`` before each case; the number lives in shared memory so that when a worker dies
(signal, sanitizer abort) or is killed by the watchdog (SIGALRM = hang inside C++), the parent knows
exactly which case of which shard was executing and reports it as the replay artefact.
"""
import multiprocessing
import multiprocessing.connection
import os
import signal
import sys
import time
import traceback

_ctx = multiprocessing.get_context("fork")
_slot = None        # shared array [shard, case] of this worker
_watchdog_s = 20.0


def mark(case_no):
    """Called by a check right before executing case ``case_no`` of the current shard."""
    if _slot is not None:
        _slot[1] = case_no
    signal.setitimer(signal.ITIMER_REAL, _watchdog_s)


def unmark():
    signal.setitimer(signal.ITIMER_REAL, 0)


def _worker(wid, conn, slots, run_shard, watchdog_s):
    global _slot, _watchdog_s
    _slot = slots[wid]
    _watchdog_s = watchdog_s
    signal.signal(signal.SIGALRM, signal.SIG_DFL)
    try:
        while True:
            msg = conn.recv()
            if msg is None:
                break
            idx, shard = msg
            _slot[0] = idx
            _slot[1] = -1
            try:
                res = run_shard(shard)
                unmark()
                conn.send(("ok", idx, res))
            except BaseException:
                unmark()
                conn.send(("exc", idx, traceback.format_exc()))
    finally:
        os._exit(0)


class Crash(object):
    def __init__(self, shard_index, shard, case_no, kind, detail):
        self.shard_index = shard_index
        self.shard = shard
        self.case_no = case_no
        self.kind = kind      # "crash" | "hang"
        self.detail = detail

    def __repr__(self):
        return "Crash(%s shard=%r case=%d %s)" % (self.kind, self.shard, self.case_no, self.detail)


def run(shards, run_shard, workers=None, seed=0, watchdog_s=20.0, progress=None, deadline=None):
    """Run every shard; returns (results_by_index, crashes, harness_errors, skipped_indices).

    ``seed`` only rotates the order in which shards are handed out.  ``deadline`` (time.time() value):
    shards not started by then are skipped and reported (the check then says it was capped)."""
    n = len(shards)
    if workers is None:
        workers = int(os.environ.get("AKV_WORKERS", "16"))
    workers = max(1, min(workers, n))
    order = list(range(n))
    if n:
        r = seed % n
        order = order[r:] + order[:r]
    slots = [_ctx.RawArray("q", 2) for _ in range(workers)]
    procs, conns = [], []
    sys.stdout.flush()
    sys.stderr.flush()
    for w in range(workers):
        parent, child = _ctx.Pipe()
        p = _ctx.Process(target=_worker, args=(w, child, slots, run_shard, watchdog_s))
        p.daemon = True
        p.start()
        child.close()
        procs.append(p)
        conns.append(parent)
    results = {}
    crashes, errors, skipped = [], [], []
    pending = list(order)
    busy = {}

    def feed(w):
        while pending:
            if deadline is not None and time.time() > deadline:
                skipped.extend(pending)
                del pending[:]
                break
            idx = pending.pop(0)
            try:
                conns[w].send((idx, shards[idx]))
                busy[w] = idx
                return True
            except (BrokenPipeError, OSError):
                pending.insert(0, idx)
                return False
        try:
            conns[w].send(None)
        except (BrokenPipeError, OSError):
            pass
        return False

    alive = set()
    for w in range(workers):
        if feed(w):
            alive.add(w)

    def respawn(w):
        parent, child = _ctx.Pipe()
        p = _ctx.Process(target=_worker, args=(w, child, slots, run_shard, watchdog_s))
        p.daemon = True
        p.start()
        child.close()
        procs[w] = p
        conns[w] = parent

    done_count = 0
    while alive:
        ready = multiprocessing.connection.wait([conns[w] for w in alive] + [procs[w].sentinel for w in alive],
                                                timeout=1.0)
        for w in list(alive):
            c = conns[w]
            got = False
            try:
                if c.poll():
                    msg = c.recv()
                    got = True
            except (EOFError, OSError):
                got = False
                msg = None
            if got:
                kind, idx, payload = msg
                busy.pop(w, None)
                if kind == "ok":
                    results[idx] = payload
                else:
                    errors.append((idx, shards[idx], payload))
                done_count += 1
                if progress:
                    progress(done_count, n)
                if not feed(w):
                    alive.discard(w)
                continue
            if not procs[w].is_alive():
                # died without answering: attribute to the marked case
                procs[w].join()
                code = procs[w].exitcode
                idx = busy.pop(w, None)
                if idx is not None:
                    case_no = slots[w][1]
                    kind = "hang" if code == -signal.SIGALRM else "crash"
                    crashes.append(Crash(idx, shards[idx], case_no, kind, "exit code %s" % code))
                    done_count += 1
                respawn(w)
                if not feed(w):
                    alive.discard(w)
    for p in procs:
        p.join(timeout=5)
        if p.is_alive():
            p.terminate()
    return results, crashes, errors, skipped
