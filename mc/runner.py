"""Common driver of all checks: build, shard, explore, match known findings, write evidence, report."""
import argparse
import hashlib
import json
import os
import subprocess
import sys
import time

VERIF = os.path.dirname(os.path.dirname(os.path.abspath(__file__)))
for sub in ("mc", "model", "mirror", "bridge", "tools", "checks"):
    p = os.path.join(VERIF, sub)
    if p not in sys.path:
        sys.path.insert(0, p)

import pool  # noqa: E402
import findings  # noqa: E402


class Stats(object):
    """Per-shard accumulator, merged by the parent."""

    def __init__(self):
        self.evaluations = 0
        self.nontrivial = 0       # distinct non-trivial cases (shards partition the space, so sums are exact)
        self.states = 0
        self.transitions = 0
        self.outcomes = {}        # outcome label -> count
        self.samples = []
        self.violations = []      # dicts: kind, summary, case (replayable), signature fields
        self.counters = {}
        self.caps = []
        self._groups = {}

    def count(self, key, n=1):
        self.counters[key] = self.counters.get(key, 0) + n

    def outcome(self, label):
        self.outcomes[label] = self.outcomes.get(label, 0) + 1

    def sample(self, obj, limit=3):
        if len(self.samples) < limit:
            self.samples.append(obj)

    def violation(self, kind, summary, case, **sig):
        # keep a few witnesses per signature group, so that frequent known findings cannot crowd out
        # a different violation found in the same shard
        gk = repr((kind,) + tuple(sorted((k, repr(x)) for k, x in sig.items())))
        n = self._groups.get(gk, 0)
        self._groups[gk] = n + 1
        if n < 3 and len(self._groups) <= 400:
            v = {"kind": kind, "summary": summary, "case": case}
            v.update(sig)
            self.violations.append(v)
        self.count("violations_total")

    def pack(self):
        d = dict(self.__dict__)
        d.pop("_groups", None)
        return d

    @staticmethod
    def merge(dicts):
        out = Stats()
        for d in dicts:
            out.evaluations += d["evaluations"]
            out.nontrivial += d["nontrivial"]
            out.states += d["states"]
            out.transitions += d["transitions"]
            for k, v in d["outcomes"].items():
                out.outcomes[k] = out.outcomes.get(k, 0) + v
            for k, v in d["counters"].items():
                out.counters[k] = out.counters.get(k, 0) + v
            out.samples.extend(d["samples"])
            out.violations.extend(d["violations"])
            out.caps.extend(d["caps"])
        return out


class Check(object):
    """Base class of a property check."""
    id = None
    level = "model_checking"
    variant = "rel"           # or "san"
    rule = ""
    assumptions = []
    watchdog_s = 30.0

    def shards(self, tier):
        raise NotImplementedError

    def run_shard(self, shard):
        """-> Stats.pack()"""
        raise NotImplementedError

    def replay(self, case):
        """Re-execute one stored case without the explorer; returns (violates: bool, text)."""
        raise NotImplementedError

    def extra_coverage(self, tier, merged):
        return {}


def _replay_path(cid, case):
    blob = json.dumps(case, sort_keys=True, default=str).encode()
    h = hashlib.sha1(blob).hexdigest()[:16]
    d = os.path.join(VERIF, "replays", cid)
    os.makedirs(d, exist_ok=True)
    path = os.path.join(d, h + ".json")
    with open(path, "w") as f:
        json.dump({"property": cid, "case": case}, f, indent=1, sort_keys=True, default=str)
    return path


def _reexec_with_asan():
    """The san variant needs the ASan runtime loaded before Python starts."""
    import build
    rt = build.asan_runtime()
    if os.environ.get("AKV_ASAN_READY") == "1":
        return
    env = dict(os.environ)
    # libstdc++ must be loaded together with the ASan runtime, otherwise its __cxa_throw interceptor finds no
    # real function (the python executable itself does not link libstdc++)
    cxx = subprocess.run([build.CXX, "-print-file-name=libstdc++.so.6"], stdout=subprocess.PIPE, text=True).stdout.strip()
    cxx = os.path.realpath(cxx) if os.path.sep in cxx else cxx
    env["LD_PRELOAD"] = rt + ":" + cxx + (":" + env["LD_PRELOAD"] if env.get("LD_PRELOAD") else "")
    env["ASAN_OPTIONS"] = "detect_leaks=0:abort_on_error=1:allocator_may_return_null=1:handle_segv=0:" \
                          "detect_odr_violation=0:log_path=" + os.path.join(VERIF, ".build", "asan", "log")
    env["UBSAN_OPTIONS"] = "halt_on_error=1:abort_on_error=1:print_stacktrace=1"
    env["AKV_ASAN_READY"] = "1"
    os.makedirs(os.path.join(VERIF, ".build", "asan"), exist_ok=True)
    sys.stdout.flush()
    os.execve(sys.executable, [sys.executable] + sys.argv, env)


def main(check, argv=None):
    ap = argparse.ArgumentParser()
    ap.add_argument("--tier", default=os.environ.get("VERIF_TIER", "quick"), choices=["quick", "thorough"])
    ap.add_argument("--replay", default=None)
    ap.add_argument("--workers", type=int, default=None)
    ap.add_argument("--no-evidence", action="store_true")
    ap.add_argument("--budget", type=float, default=None, help="wall-clock budget in seconds (reported as a cap)")
    args = ap.parse_args(argv)
    seed = int(os.environ.get("VERIF_SEED", "0") or 0)
    os.environ.setdefault("PYTHONHASHSEED", "0")
    os.environ["AKV_VARIANT"] = check.variant
    if check.variant == "san":
        _reexec_with_asan()

    import akb
    t0 = time.time()
    akb.lib()   # builds (exit 2 + BUILD-FAILED if the tree does not compile)
    build_s = time.time() - t0

    if args.replay:
        with open(args.replay) as f:
            rec = json.load(f)
        bad, text = check.replay(rec["case"])
        print(text)
        print("REPLAY %s: %s" % (check.id, "violates" if bad else "holds"))
        return 1 if bad else 0

    tier = args.tier
    # replay artefacts of earlier runs of this check are stale
    rdir = os.path.join(VERIF, "replays", check.id)
    if os.path.isdir(rdir):
        for name in os.listdir(rdir):
            if name.endswith(".json"):
                os.unlink(os.path.join(rdir, name))
    shards = check.shards(tier)
    only = os.environ.get("AKV_ONLY_SHARDS")
    if only:
        # debugging aid: run only the shards whose repr contains one of the '|'-separated fragments
        shards = [s for s in shards if any(frag in repr(s) for frag in only.split("|"))]
    budget = args.budget
    if budget is None:
        budget = getattr(check, "budget_s", {}).get(tier)
    deadline = (time.time() + budget) if budget else None
    results, crashes, errors, skipped = pool.run(shards, check.run_shard, workers=args.workers, seed=seed,
                                                 watchdog_s=check.watchdog_s, deadline=deadline)
    merged = Stats.merge([results[k] for k in sorted(results)])
    wall = time.time() - t0

    known = findings.load()
    new_violations = []
    known_hits = {}
    for v in merged.violations:
        ent = findings.match(known, check.id, v)
        if ent is not None and ent.get("status") == "known":
            known_hits.setdefault(ent["id"], [ent, 0])[1] += 1
        else:
            new_violations.append(v)
    for c in crashes:
        case = check.crash_case(c) if hasattr(check, "crash_case") else {"shard": c.shard, "case_no": c.case_no}
        v = {"kind": c.kind, "summary": "%s in worker: shard=%r case=%d (%s)" % (c.kind, c.shard, c.case_no, c.detail),
             "case": case}
        ent = findings.match(known, check.id, v)
        if ent is not None and ent.get("status") == "known":
            known_hits.setdefault(ent["id"], [ent, 0])[1] += 1
        else:
            new_violations.append(v)
    for idx, shard, tb in errors:
        new_violations.append({"kind": "harness-error", "summary": "exception in harness, shard=%r\n%s" % (shard, tb),
                               "case": {"shard": shard}})

    for kid, (ent, n) in sorted(known_hits.items()):
        print("KNOWN-FINDING: property=%s %s (%s, %d occurrence(s) this run)" % (check.id, ent["what"], kid, n))

    printed = 0
    for v in new_violations:
        if printed >= 200:
            printed += 1          # replay artefacts are written for the first 200 violations only
            continue
        path = _replay_path(check.id, v["case"])
        if printed < 10:
            print("VIOLATION property=%s replay=%s" % (check.id, path))
            print("  " + v["summary"].replace("\n", "\n  ")[:1500])
        printed += 1
    if printed > 10:
        print("  ... %d further violations not printed" % (printed - 10))
    if new_violations and os.environ.get("AKV_TRIAGE"):
        groups = {}
        for v in new_violations:
            k = tuple((kk, str(v[kk])) for kk in sorted(v) if kk not in ("summary", "case"))
            groups.setdefault(k, []).append(v)
        print("---- triage: %d groups" % len(groups))
        for k, vs in sorted(groups.items(), key=lambda kv: -len(kv[1]))[:int(os.environ.get("AKV_TRIAGE_N", "14"))]:
            print("%5d  %s\n         e.g. %s" % (len(vs), dict(k), vs[0]["summary"][:260].replace("\n", " ")))

    capped = bool(skipped) or bool(merged.caps)
    coverage = {
        "evaluations": merged.evaluations,
        "distinct_nontrivial": merged.nontrivial,
        "rule": check.rule,
        "states": merged.states,
        "transitions": merged.transitions,
        "traces_validated_against_impl": merged.transitions,
        "samples": merged.samples[:8] if merged.samples else [],
        "distinct_outcomes": len(merged.outcomes),
        "outcomes": dict(sorted(merged.outcomes.items(), key=lambda kv: -kv[1])[:40]),
        "counters": merged.counters,
        "shards": len(shards),
        "shards_completed": len(results),
        "shards_skipped_by_budget": len(skipped),
        "caps": merged.caps[:20] + (["time budget %.0fs: %d of %d shards not started" % (budget, len(skipped), len(shards))]
                                    if skipped else []),
        "exhaustive": (not capped) and not crashes and not errors,
        "known_findings_matched": {k: n for k, (e, n) in known_hits.items()},
        "build_s": round(build_s, 2),
        "variant": check.variant,
    }
    coverage.update(check.extra_coverage(tier, merged))
    ev = {
        "property_id": check.id,
        "tier": tier,
        "seed": seed,
        "level": check.level,
        "coverage": coverage,
        "assumptions": list(check.assumptions),
        "wall_s": round(wall, 2),
        "violations": len(new_violations),
    }
    if not args.no_evidence:
        os.makedirs(os.path.join(VERIF, "evidence"), exist_ok=True)
        with open(os.path.join(VERIF, "evidence", check.id + ".json"), "w") as f:
            json.dump(ev, f, indent=1, sort_keys=True, default=str)
    print("%s tier=%s seed=%d states=%d transitions=%d evaluations=%d nontrivial=%d outcomes=%d known=%d "
          "violations=%d wall=%.1fs%s" % (check.id, tier, seed, merged.states, merged.transitions, merged.evaluations,
                                          merged.nontrivial, len(merged.outcomes), len(known_hits), len(new_violations),
                                          wall, " CAPPED" if capped else ""))
    return 1 if new_violations else 0
