"""Mirror of awkward._ext.ArrayBuilder (binding and builder_fromiter PORTed from src/python/content.cpp)."""
import ctypes
import numbers

import numpy as np

import akb
import ext
import formtypes
from ext import _translate

_ready = False


def _lib():
    global _ready
    L = akb.lib()
    if not _ready:
        L.akb_builder_new.argtypes = [ctypes.c_int64, ctypes.c_double]
        L.akb_builder_new.restype = ctypes.c_void_p
        L.akb_builder_free.argtypes = [ctypes.c_void_p]
        L.akb_builder_free.restype = None
        L.akb_builder_rawptr.argtypes = [ctypes.c_void_p]
        L.akb_builder_rawptr.restype = ctypes.c_void_p
        L.akb_builder_call.argtypes = [ctypes.c_void_p, ctypes.c_char_p, ctypes.POINTER(akb.AkbArgs)]
        L.akb_builder_call.restype = ctypes.c_int
        _ready = True
    return L


class ArrayBuilder(object):
    def __init__(self, initial=1024, resize=1.5):
        self._h = _lib().akb_builder_new(int(initial), float(resize))

    def __del__(self):
        h = getattr(self, "_h", None)
        if h is not None and akb is not None and akb._lib is not None:
            try:
                akb._lib.akb_builder_free(h)
            except Exception:
                pass
            self._h = None

    def _call(self, method, ints=(), doubles=(), strs=(), handles=()):
        L = _lib()
        a, keep = akb.pack(ints, doubles, strs, handles, ())
        if L.akb_builder_call(self._h, method, ctypes.byref(a)) != 0:
            try:
                akb._raise()
            except akb.BridgeError as err:
                raise _translate(err) from None
        return akb._collect()

    @property
    def _ptr(self):
        return _lib().akb_builder_rawptr(self._h)

    def __repr__(self):
        return self._call(b"tostring").s[0].decode("utf-8", "surrogateescape")

    def __len__(self):
        return self._call(b"length").i[0]

    def clear(self):
        self._call(b"clear")

    def type(self, typestrs=None):
        flat = []
        for k, v in (typestrs or {}).items():
            flat.extend((k, v))
        return formtypes.Type._wrap(self._call(b"type", strs=flat).h[0])

    def snapshot(self):
        return ext._box1(self._call(b"snapshot"))

    def __getitem__(self, where):
        return self.snapshot()[where]

    def __iter__(self):
        return ext.Iterator(self.snapshot())

    def null(self):
        self._call(b"null")

    def boolean(self, x):
        self._call(b"boolean", ints=[1 if x else 0])

    def integer(self, x):
        self._call(b"integer", ints=[_int64(x)])

    def real(self, x):
        self._call(b"real", doubles=[float(x)])

    def complex(self, x):
        x = complex(x)
        self._call(b"complex", doubles=[x.real, x.imag])

    def datetime(self, obj):
        # PORT of builder_datetime
        if isinstance(obj, str):
            dt = np.datetime64(obj)
            self._call(b"datetime", ints=[int(dt.astype(np.int64))], strs=[str(dt.dtype)])
        elif isinstance(obj, np.datetime64):
            self._call(b"datetime", ints=[int(obj.astype(np.int64))], strs=[str(obj.dtype)])
        else:
            raise ValueError("cannot convert %r (type %s) to an array element" % (obj, type(obj).__name__))

    def timedelta(self, obj):
        if isinstance(obj, str):
            dt = np.timedelta64(obj)
            self._call(b"timedelta", ints=[int(dt.astype(np.int64))], strs=[str(dt.dtype)])
        elif isinstance(obj, np.timedelta64):
            self._call(b"timedelta", ints=[int(obj.astype(np.int64))], strs=[str(obj.dtype)])
        else:
            raise ValueError("cannot convert %r (type %s) to an array element" % (obj, type(obj).__name__))

    def bytestring(self, x):
        if not isinstance(x, bytes):
            raise TypeError("bytestring() requires bytes")
        self._call(b"bytestring", strs=[x])

    def string(self, x):
        if not isinstance(x, str):
            raise TypeError("string() requires str")
        self._call(b"string", strs=[x])

    def beginlist(self):
        self._call(b"beginlist")

    def endlist(self):
        self._call(b"endlist")

    def begintuple(self, numfields):
        self._call(b"begintuple", ints=[int(numfields)])

    def index(self, index):
        self._call(b"index", ints=[int(index)])

    def endtuple(self):
        self._call(b"endtuple")

    def beginrecord(self, name=None):
        if name is None:
            self._call(b"beginrecord")
        else:
            self._call(b"beginrecord_check", strs=[str(name)])

    def field(self, x):
        self._call(b"field_check", strs=[str(x)])

    def endrecord(self):
        self._call(b"endrecord")

    def append(self, array, at):
        self._call(b"append", ints=[int(at)], handles=[ext._unbox(array)])

    def extend(self, array):
        self._call(b"extend", handles=[ext._unbox(array)])

    def fromiter(self, obj):
        """PORT of builder_fromiter (same order of type tests)."""
        if obj is None:
            self.null()
        elif isinstance(obj, bool):
            self.boolean(obj)
        elif isinstance(obj, int):
            self.integer(obj)
        elif isinstance(obj, float):
            self.real(obj)
        elif isinstance(obj, complex):
            self.complex(obj)
        elif isinstance(obj, bytes):
            self.bytestring(obj)
        elif isinstance(obj, str):
            self.string(obj)
        elif isinstance(obj, tuple):
            self.begintuple(len(obj))
            for i, x in enumerate(obj):
                self.index(i)
                self.fromiter(x)
            self.endtuple()
        elif isinstance(obj, dict):
            self.beginrecord()
            for k, v in obj.items():
                if not isinstance(k, str):
                    raise ValueError("keys of dicts in 'fromiter' must all be strings")
                self.field(k)
                self.fromiter(v)
            self.endrecord()
        elif isinstance(obj, np.ndarray) and obj.ndim == 0:
            self.fromiter(obj.tolist())
        elif _iterable(obj) and not isinstance(obj, (np.generic,)):
            self.beginlist()
            for x in obj:
                self.fromiter(x)
            self.endlist()
        elif isinstance(obj, np.datetime64):
            self.datetime(obj)
        elif isinstance(obj, np.timedelta64):
            self.timedelta(obj)
        elif isinstance(obj, np.bool_):
            self.boolean(bool(obj))
        elif isinstance(obj, np.integer):
            self.integer(int(obj))
        elif isinstance(obj, np.floating):
            self.real(float(obj))
        else:
            raise ValueError("cannot convert %r (type %s) to an array element" % (obj, type(obj).__name__))


def _iterable(obj):
    try:
        iter(obj)
        return True
    except TypeError:
        return False


def _int64(x):
    v = int(x)
    if not -2 ** 63 <= v < 2 ** 63:
        raise TypeError("integer out of int64 range")
    return v


ext.ArrayBuilder = ArrayBuilder
