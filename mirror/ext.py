"""Pure-Python replacement for the pybind11 module ``awkward._ext`` (uncompilable here: no pybind11).

Every class has the name, constructor signature, properties and methods of the class that
``/repo/src/python/*.cpp`` defines; every *behaviour* is forwarded to the freshly built ``libawkward.so``
through the bridge (``bridge/akb.py``).  The few pieces of logic that live in ``src/python/content.cpp``
itself (``getitem<T>``, ``toslice``, ``box``) are ported line by line and marked PORT.
"""
import json
import numbers
import os
import sys

import numpy as np

sys.path.insert(0, os.path.join(os.path.dirname(os.path.dirname(os.path.abspath(__file__))), "bridge"))
import akb  # noqa: E402

BridgeError = akb.BridgeError

__version__ = "1.4.0"


def _translate(err):
    """pybind11's default translation of C++ exceptions."""
    if err.cls == "ValueError":
        return ValueError(err.msg)
    if err.cls == "IndexError":
        return IndexError(err.msg)
    if err.cls == "RuntimeError":
        return RuntimeError(err.msg)
    if err.cls == "MemoryError":
        return MemoryError(err.msg)
    return RuntimeError(err.msg)


def _dumps(v):
    return json.dumps(v)


def _params_in(parameters):
    """dict2parameters"""
    if parameters is None:
        return []
    out = []
    for k, v in parameters.items():
        out.append(str(k))
        out.append(_dumps(v))
    return out


def _params_out(strs):
    out = {}
    for k in range(0, len(strs), 2):
        out[strs[k].decode("utf-8", "surrogateescape")] = json.loads(strs[k + 1].decode("utf-8", "surrogateescape"))
    return out


###################################################################### Index

class _Index(object):
    _dtype = None

    def __init__(self, array, _window=None):
        if isinstance(array, _Index):
            array = array._view()
        arr = np.asarray(array)
        if arr.dtype != self._dtype:
            if arr.size == 0 or arr.dtype.kind in "iub":
                arr = arr.astype(self._dtype)
            else:
                raise TypeError("%s requires %s data" % (type(self).__name__, self._dtype))
        if arr.ndim != 1:
            raise ValueError("Index must be built from a one-dimensional array; try array.ravel()")
        self._buf = np.ascontiguousarray(arr)
        if self._buf is array:
            self._buf = self._buf.copy()
        if _window is None:
            self._offset = 0
            self._length = self._buf.shape[0]
        else:
            self._offset, self._length = _window

    @classmethod
    def _from_out(cls, arr):
        self = cls.__new__(cls)
        self._buf = arr
        self._offset = 0
        self._length = arr.shape[0]
        return self

    def _arg(self):
        return (self._buf, self._offset, self._length)

    def _view(self):
        return self._buf[self._offset:self._offset + self._length]

    def __array__(self, dtype=None, copy=None):
        v = self._view()
        if dtype is not None and np.dtype(dtype) != v.dtype:
            return v.astype(dtype)
        return v

    def __len__(self):
        return self._length

    def __getitem__(self, where):
        if isinstance(where, slice):
            return type(self)(self._view()[where])
        v = self._view()
        n = len(v)
        i = int(where)
        if i < 0:
            i += n
        if not 0 <= i < n:
            raise IndexError("index out of range")
        return int(v[i])

    def __iter__(self):
        return iter(self._view().tolist())

    def __repr__(self):
        return "<%s i=\"%s\" offset=\"%d\" length=\"%d\"/>" % (
            type(self).__name__, " ".join(str(x) for x in self._view().tolist()), self._offset, self._length)

    @property
    def ptr_lib(self):
        return "cpu"

    def copy_to(self, ptr_lib):
        return type(self)(self._view().copy())

    def deep_copy(self):
        return type(self)(self._view().copy())

    @property
    def nbytes(self):
        return self._length * self._dtype.itemsize


class Index8(_Index):
    _dtype = np.dtype(np.int8)


class IndexU8(_Index):
    _dtype = np.dtype(np.uint8)


class Index32(_Index):
    _dtype = np.dtype(np.int32)


class IndexU32(_Index):
    _dtype = np.dtype(np.uint32)


class Index64(_Index):
    _dtype = np.dtype(np.int64)


_INDEX_BY_CODE = [Index8, IndexU8, Index32, IndexU32, Index64]


def _index_out(arr):
    return _INDEX_BY_CODE[akb.IDX_CODE[arr.dtype]]._from_out(arr)


def _as_index(cls, obj):
    if isinstance(obj, cls):
        return obj
    if isinstance(obj, _Index):
        raise TypeError("incompatible Index type: expected %s, got %s" % (cls.__name__, type(obj).__name__))
    return cls(obj)


###################################################################### boxing

_CLASSES = {}


def _box(h, cls):
    """PORT of box(): None -> None, scalar NumpyArray -> Python scalar, everything else a layout object."""
    if cls == "None":
        return None
    if cls == "nullptr":
        raise RuntimeError("bridge returned a null content pointer")
    if cls == "scalar":
        obj = NumpyArray._wrap(h)
        return obj._scalar()
    return _CLASSES[cls]._wrap(h)


def _box1(res, k=0):
    return _box(res.h[k], res.hc[k])


def _unbox(obj):
    if isinstance(obj, (Content, Record)):
        return obj._h
    raise TypeError("content argument must be a Content subtype, not %s" % type(obj).__name__)


###################################################################### Content

class Content(object):
    """Common methods of every layout node (``content_methods<T>`` in src/python/content.cpp)."""

    def __init__(self):
        raise TypeError("Content is abstract")

    @classmethod
    def _wrap(cls, h):
        self = object.__new__(cls)
        self._h = h
        return self

    def __del__(self):
        h = getattr(self, "_h", None)
        if h is not None and akb is not None and akb._lib is not None:
            try:
                akb._lib.akb_release(h)
            except Exception:
                pass
            self._h = None

    def _call(self, method, ints=(), doubles=(), strs=(), handles=(), indexes=()):
        try:
            return akb.call(self._h, method, ints, doubles, strs, handles, indexes)
        except akb.BridgeError as err:
            raise _translate(err) from None

    def _describe(self):
        return self._call(b"describe")

    # identities are not part of any property; accepted and ignored
    @property
    def identities(self):
        return None

    @identities.setter
    def identities(self, value):
        if value is not None:
            raise NotImplementedError("identities are not supported by the verification mirror")

    def setidentities(self, *args):
        if args and args[0] is not None:
            raise NotImplementedError("identities are not supported by the verification mirror")

    @property
    def identity(self):
        raise ValueError("%s instance has no associated identities" % type(self).__name__)

    @property
    def parameters(self):
        return _params_out(self._call(b"parameters").s)

    @parameters.setter
    def parameters(self, value):
        self.setparameters(value)

    def setparameters(self, value):
        # in-place on the C++ object in the original; here the handle is re-pointed at a shallow copy
        # with the new parameters (observably equivalent for the Python layer, which never relies on
        # aliasing between two Python objects for the same node)
        p = _params_in(value)
        res = self._call(b"withparameters", ints=[len(p) // 2], strs=p)
        old = self._h
        self._h = res.h[0]
        akb.lib().akb_release(old)

    def setparameter(self, key, value):
        p = self.parameters
        p[key] = value
        self.setparameters(p)

    def withparameter(self, key, value):
        p = self.parameters
        p[key] = value
        q = _params_in(p)
        return _box1(self._call(b"withparameters", ints=[len(q) // 2], strs=q))

    def parameter(self, key):
        s = self._call(b"parameter", strs=[key]).s[0]
        return json.loads(s.decode("utf-8", "surrogateescape"))

    def purelist_parameter(self, key):
        s = self._call(b"purelist_parameter", strs=[key]).s[0]
        return json.loads(s.decode("utf-8", "surrogateescape"))

    def type(self, typestrs=None):
        flat = []
        for k, v in (typestrs or {}).items():
            flat.extend((k, v))
        res = self._call(b"type", strs=flat)
        return _type_wrap(res.h[0])

    def _typestr(self):
        return self._call(b"typestr").s[0].decode("utf-8", "surrogateescape")

    @property
    def form(self):
        return _form_wrap(self._call(b"form").h[0])

    def _formjson(self, verbose=True):
        return self._call(b"formjson", ints=[1 if verbose else 0]).s[0].decode("utf-8", "surrogateescape")

    def __len__(self):
        return self._call(b"length").i[0]

    def __iter__(self):
        return Iterator(self)

    def __repr__(self):
        return self._call(b"tostring").s[0].decode("utf-8", "surrogateescape")

    @property
    def kernels(self):
        return "cpu"

    @property
    def caches(self):
        return _caches_of(self)

    def tojson(self, *args, **kwargs):
        names_s = ["pretty", "maxdecimals", "nan_string", "infinity_string", "minus_infinity_string",
                   "complex_real_string", "complex_imag_string"]
        names_f = ["destination", "pretty", "maxdecimals", "buffersize", "nan_string", "infinity_string",
                   "minus_infinity_string", "complex_real_string", "complex_imag_string"]
        tofile = (len(args) > 0 and isinstance(args[0], str)) or "destination" in kwargs
        names = names_f if tofile else names_s
        opts = {"pretty": False, "maxdecimals": None, "buffersize": 65536, "nan_string": None,
                "infinity_string": None, "minus_infinity_string": None, "complex_real_string": None,
                "complex_imag_string": None}
        for n, v in zip(names, args):
            opts[n] = v
        opts.update(kwargs)
        md = opts["maxdecimals"]
        if md is None:
            md = -1
        elif not isinstance(md, numbers.Integral):
            raise ValueError("maxdecimals must be None or an integer")
        strs = [opts[n] for n in names_s[2:]]
        ints = [1 if opts["pretty"] else 0, int(md)] + [0 if s is None else 1 for s in strs]
        strs = ["" if s is None else s for s in strs]
        if tofile:
            res = self._call(b"tojson_file", ints=ints + [int(opts["buffersize"])], strs=strs)
            with open(opts["destination"], "wb") as f:
                f.write(res.s[0])
            return None
        return self._call(b"tojson", ints=ints, strs=strs).s[0].decode("utf-8", "surrogateescape")

    @property
    def nbytes(self):
        return self._call(b"nbytes").i[0]

    def deep_copy(self, copyarrays=True, copyindexes=True, copyidentities=True):
        return _box1(self._call(b"deep_copy", ints=[int(copyarrays), int(copyindexes), int(copyidentities)]))

    @property
    def numfields(self):
        return self._call(b"numfields").i[0]

    def fieldindex(self, key):
        return self._call(b"fieldindex", strs=[key]).i[0]

    def key(self, fieldindex):
        return self._call(b"key", ints=[fieldindex]).s[0].decode("utf-8", "surrogateescape")

    def haskey(self, key):
        return bool(self._call(b"haskey", strs=[key]).i[0])

    def keys(self):
        return [s.decode("utf-8", "surrogateescape") for s in self._call(b"keys").s]

    @property
    def purelist_isregular(self):
        return bool(self._call(b"purelist_isregular").i[0])

    @property
    def purelist_depth(self):
        return self._call(b"purelist_depth").i[0]

    @property
    def branch_depth(self):
        r = self._call(b"branch_depth").i
        return (bool(r[0]), r[1])

    @property
    def minmax_depth(self):
        r = self._call(b"minmax_depth").i
        return (r[0], r[1])

    def getitem_nothing(self):
        return _box1(self._call(b"getitem_nothing"))

    def getitem_at_nowrap(self, at):
        return _box1(self._call(b"getitem_at_nowrap", ints=[at]))

    def getitem_range_nowrap(self, start, stop):
        return _box1(self._call(b"getitem_range_nowrap", ints=[start, stop]))

    @property
    def _persistent_shared_ptr(self):
        return PersistentSharedPtr(self)

    def validityerror(self):
        out = self._call(b"validityerror").s[0]
        if len(out) == 0:
            return None
        return out.decode("utf-8", "surrogateescape")

    def fillna(self, value):
        return _box1(self._call(b"fillna", handles=[_unbox(value)]))

    def num(self, axis=1):
        return _box1(self._call(b"num", ints=[axis]))

    def flatten(self, axis=1):
        res = self._call(b"offsets_and_flatten", ints=[axis])
        return _box1(res)

    def offsets_and_flatten(self, axis=1):
        res = self._call(b"offsets_and_flatten", ints=[axis])
        return (_index_out(res.x[0]), _box1(res))

    def rpad(self, length, axis):
        return _box1(self._call(b"rpad", ints=[length, axis]))

    def rpad_and_clip(self, length, axis):
        return _box1(self._call(b"rpad_and_clip", ints=[length, axis]))

    def mergeable(self, other, mergebool=False):
        return bool(self._call(b"mergeable", ints=[int(mergebool)], handles=[_unbox(other)]).i[0])

    def merge(self, other):
        return _box1(self._call(b"merge", handles=[_unbox(other)]))

    def merge_as_union(self, other):
        return _box1(self._call(b"merge_as_union", handles=[_unbox(other)]))

    def mergemany(self, others):
        return _box1(self._call(b"mergemany", handles=[_unbox(x) for x in others]))

    def axis_wrap_if_negative(self, axis):
        return self._call(b"axis_wrap_if_negative", ints=[axis]).i[0]

    def _reduce(self, name, axis, mask, keepdims):
        return _box1(self._call(name, ints=[axis, int(mask), int(keepdims)]))

    def count(self, axis=-1, mask=False, keepdims=False):
        return self._reduce(b"count", axis, mask, keepdims)

    def count_nonzero(self, axis=-1, mask=False, keepdims=False):
        return self._reduce(b"count_nonzero", axis, mask, keepdims)

    def sum(self, axis=-1, mask=False, keepdims=False):
        return self._reduce(b"sum", axis, mask, keepdims)

    def prod(self, axis=-1, mask=False, keepdims=False):
        return self._reduce(b"prod", axis, mask, keepdims)

    def any(self, axis=-1, mask=False, keepdims=False):
        return self._reduce(b"any", axis, mask, keepdims)

    def all(self, axis=-1, mask=False, keepdims=False):
        return self._reduce(b"all", axis, mask, keepdims)

    def _minmax(self, name, axis, mask, keepdims, initial):
        if initial is None:
            return _box1(self._call(name, ints=[axis, int(mask), int(keepdims), 0, 0, 0], doubles=[0.0]))
        # PORT: initial.cast<double>(), (f64 > 0 ? cast<uint64_t> : 0), cast<int64_t>
        f64 = float(initial)
        try:
            i64 = int(np.int64(operator_index(initial)))
        except Exception:
            raise RuntimeError("Unable to cast Python instance to C++ type")
        u64 = operator_index(initial) if f64 > 0 else 0
        u64bits = int(np.array([u64], dtype=np.uint64).view(np.int64)[0])
        return _box1(self._call(name, ints=[axis, int(mask), int(keepdims), 1, i64, u64bits], doubles=[f64]))

    def min(self, axis=-1, mask=True, keepdims=False, initial=None):
        return self._minmax(b"min", axis, mask, keepdims, initial)

    def max(self, axis=-1, mask=True, keepdims=False, initial=None):
        return self._minmax(b"max", axis, mask, keepdims, initial)

    def argmin(self, axis=-1, mask=True, keepdims=False):
        return self._reduce(b"argmin", axis, mask, keepdims)

    def argmax(self, axis=-1, mask=True, keepdims=False):
        return self._reduce(b"argmax", axis, mask, keepdims)

    def localindex(self, axis=1):
        return _box1(self._call(b"localindex", ints=[axis]))

    def combinations(self, n, replacement=False, keys=None, parameters=None, axis=1):
        strs = []
        nk = 0
        if keys is not None:
            strs = [str(k) for k in keys]
            nk = len(strs)
        p = _params_in(parameters)
        return _box1(self._call(b"combinations",
                                ints=[n, int(replacement), axis, 0 if keys is None else 1, len(p) // 2, nk],
                                strs=strs + p))

    def sort(self, axis, ascending, stable):
        return _box1(self._call(b"sort", ints=[axis, int(ascending), int(stable)]))

    def argsort(self, axis, ascending, stable):
        return _box1(self._call(b"argsort", ints=[axis, int(ascending), int(stable)]))

    def numbers_to_type(self, name):
        return _box1(self._call(b"numbers_to_type", strs=[name]))

    def is_unique(self):
        return bool(self._call(b"is_unique").i[0])

    def copy_to(self, ptr_lib):
        if ptr_lib == "cpu":
            return _box1(self._call(b"shallow_copy"))
        raise ValueError("specify 'cpu' or 'cuda'")

    def carry(self, index, allow_lazy):
        return _box1(self._call(b"carry", ints=[int(allow_lazy)], indexes=[_as_index(Index64, index)._arg()]))

    def simplify(self, *args):
        return _box1(self._call(b"simplify", ints=[int(x) for x in args] if args else [0, 0]))

    def __getitem__(self, where):
        return _getitem(self, where)


def operator_index(x):
    import operator
    if isinstance(x, (float, np.floating)):
        return int(x)
    return operator.index(x)


###################################################################### getitem / toslice  (PORT)

def _is_int(obj):
    return isinstance(obj, (int, np.integer)) and not isinstance(obj, (bool, np.bool_))


def _getitem(self, obj):
    """PORT of template getitem<T> in src/python/content.cpp."""
    if isinstance(obj, (int,)) and not isinstance(obj, bool) or isinstance(obj, bool):
        # py::isinstance<py::int_> is true for bool as well
        return _box1(self._call(b"getitem_at", ints=[int(obj)]))
    if isinstance(obj, slice):
        step = obj.step
        if step is None or (isinstance(step, int) and step == 1):
            start, stop = obj.start, obj.stop
            return _box1(self._call(b"getitem_range",
                                    ints=[0 if start is None else 1, 0 if start is None else int(start),
                                          0 if stop is None else 1, 0 if stop is None else int(stop)]))
    if isinstance(obj, str):
        return _box1(self._call(b"getitem_field", strs=[obj]))
    if not isinstance(obj, tuple) and _is_iterable(obj):
        strings = []
        all_strings = True
        for x in obj:
            if isinstance(x, str):
                strings.append(x)
            else:
                all_strings = False
                break
        if all_strings and len(strings) != 0:
            return _box1(self._call(b"getitem_fields", strs=strings))
    enc = _SliceEncoder()
    enc.toslice(obj)
    return _box1(self._call(b"getitem", ints=enc.ints, strs=enc.strs, handles=enc.handles, indexes=enc.indexes))


def _is_iterable(obj):
    try:
        iter(obj)
        return True
    except TypeError:
        return False


def _handle_as_numpy(content):
    """PORT of handle_as_numpy."""
    if isinstance(content, (NumpyArray, EmptyArray)):
        return True
    if isinstance(content, (RegularArray, IndexedArray32, IndexedArrayU32, IndexedArray64)):
        return _handle_as_numpy(content.content)
    if isinstance(content, (UnionArray8_32, UnionArray8_U32, UnionArray8_64)):
        contents = content.contents
        first = contents[0]
        for other in contents[1:]:
            if not first.mergeable(other, False):
                return False
        return _handle_as_numpy(first)
    return False


class _SliceEncoder(object):
    """Encodes a Python index expression into the flat slice description understood by the bridge;
    the decisions follow toslice()/toslice_part() in src/python/content.cpp (PORT)."""

    def __init__(self):
        self.ints = [0]
        self.strs = []
        self.handles = []
        self.indexes = []
        self.keep = []

    def toslice(self, obj):
        if isinstance(obj, tuple):
            for x in obj:
                self.part(x)
        else:
            self.part(obj)

    def _item(self, *vals):
        self.ints[0] += 1
        self.ints.extend(vals)

    def part(self, obj):
        if hasattr(obj, "__index__"):
            try:
                index = obj.__index__()
                index = int(np.int64(index))
                ok = True
            except Exception:
                ok = False
            if ok:
                self._item(0, index)
                return
        if isinstance(obj, int):
            self._item(0, int(obj))
        elif isinstance(obj, slice):
            start, stop, step = obj.start, obj.stop, obj.step
            st = 1 if step is None else int(step)
            if st == 0:
                raise ValueError("slice step must not be 0")
            self._item(1, 0 if start is None else 1, 0 if start is None else int(start),
                       0 if stop is None else 1, 0 if stop is None else int(stop), st)
        elif obj is Ellipsis:
            self._item(2)
        elif obj is None:
            self._item(3)
        elif isinstance(obj, str):
            self.strs.append(obj)
            self._item(4, len(self.strs) - 1)
        elif _is_iterable(obj):
            strings = []
            all_strings = True
            for x in obj:
                if isinstance(x, str):
                    strings.append(x)
                else:
                    all_strings = False
                    break
            if all_strings and len(strings) != 0:
                self._fields(strings)
                return
            content = None
            ak = sys.modules.get("awkward")
            if isinstance(obj, np.ma.MaskedArray):
                content = ak.from_numpy(obj, False, False, False)
            elif isinstance(obj, np.ndarray):
                pass
            elif isinstance(obj, Content):
                content = obj
                if isinstance(content, VirtualArray):
                    content = content.array
            elif isinstance(obj, ArrayBuilder):
                content = obj.snapshot()
            elif ak is not None and isinstance(obj, ak.Array):
                tmp = obj.layout
                if isinstance(tmp, ak.partition.PartitionedArray):
                    content = tmp.toContent()
                    obj = content
                else:
                    content = tmp
            elif ak is not None and isinstance(obj, ak.ArrayBuilder):
                content = obj.snapshot().layout
            elif ak is not None and isinstance(obj, ak.partition.PartitionedArray):
                content = obj.toContent()
                obj = content
            else:
                if ak is None:
                    # L2-only use (the repository's Python layer is not loaded): rectilinear numeric
                    # sequences only; ragged indexes must be passed as layout objects
                    asarray = np.asarray(obj)
                    if asarray.dtype.kind not in "biu" and asarray.size != 0:
                        raise ValueError("L2-only mirror: pass ragged/option indexes as layouts")
                    obj = asarray
                else:
                    obj = ak.from_iter(obj, False)
                    bad = False
                    asarray = None
                    try:
                        asarray = ak.to_numpy(obj, False)
                    except Exception:
                        bad = True
                    if not bad:
                        asarray = np.asarray(asarray)
                        if asarray.dtype.kind not in "biufcmM":
                            bad = True
                    if bad:
                        content = obj
                    else:
                        obj = asarray
            if content is not None and not _handle_as_numpy(content):
                arr = content.parameter("__array__")
                if arr == "string" or arr == "bytestring":
                    import awkward as ak
                    self._fields([x if isinstance(x, str) else x.decode("utf-8", "surrogateescape")
                                  for x in ak.to_list(content)])
                else:
                    self.handles.append(content._h)
                    self.keep.append(content)
                    self._item(7, len(self.handles) - 1)
            else:
                array = np.asarray(obj) if not isinstance(obj, Content) else np.asarray(obj)
                if array.ndim == 0:
                    raise ValueError("arrays used as an index must have at least one dimension")
                if array.dtype == np.bool_:
                    for x in np.nonzero(array):
                        self._array(np.asarray(x, dtype=np.int64), True)
                else:
                    if array.dtype.kind not in "iu" and array.size != 0:
                        raise ValueError(
                            "arrays used as an index must be a (native-endian) integer or boolean")
                    if not array.dtype.isnative and array.size != 0:
                        raise ValueError(
                            "arrays used as an index must be a (native-endian) integer or boolean")
                    self._array(np.asarray(array, dtype=np.int64), False)
        else:
            raise ValueError(
                "only integers, slices (`:`), ellipsis (`...`), numpy.newaxis (`None`), "
                "and integer or boolean arrays (possibly jagged) are valid indices")

    def _fields(self, strings):
        pos = []
        for s in strings:
            self.strs.append(s)
            pos.append(len(self.strs) - 1)
        self._item(5, len(strings), *pos)

    def _array(self, intarray, frombool):
        """SliceArray64 over the int64 array's own memory layout (shape and strides in items)."""
        shape = list(intarray.shape)
        strides = [s // 8 for s in intarray.strides]
        # the backing buffer handed to the bridge: the smallest contiguous span containing every element
        if intarray.size == 0:
            flat = np.zeros(0, dtype=np.int64)
            off = 0
        else:
            lo = sum(min(0, (n - 1) * s) for n, s in zip(shape, strides))
            hi = sum(max(0, (n - 1) * s) for n, s in zip(shape, strides))
            base = np.lib.stride_tricks.as_strided(intarray, shape=(hi - lo + 1,), strides=(8,),
                                                   writeable=False) if lo == 0 else None
            if base is None:
                # negative strides: start the span at the lowest address
                first = intarray.ctypes.data + lo * 8
                base = np.frombuffer((np.ctypeslib.ctypes.c_char * ((hi - lo + 1) * 8)).from_address(first),
                                     dtype=np.int64)
            flat = np.array(base, dtype=np.int64)
            off = -lo
        self.indexes.append((flat, off, shape[0]))
        self._item(6, len(self.indexes) - 1, 1 if frombool else 0, len(shape), *(shape + strides))


###################################################################### node classes

def _make(cls, ints=(), strs=(), handles=(), indexes=()):
    try:
        res = akb.make(cls, ints, (), strs, handles, indexes)
    except akb.BridgeError as err:
        raise _translate(err) from None
    return res.h[0]


class EmptyArray(Content):
    def __init__(self, identities=None, parameters=None):
        p = _params_in(parameters)
        self._h = _make("EmptyArray", [len(p) // 2], p)

    def toNumpyArray(self):
        return _box1(self._call(b"toNumpyArray"))


def _format_of(arr):
    """(format, dtype-name-or-empty) as pybind11's buffer_info would report them."""
    if arr.dtype.kind in "mM":
        return arr.dtype.str[1:], str(arr.dtype)
    try:
        fmt = memoryview(arr).format
    except (ValueError, TypeError):
        fmt = arr.dtype.char
    return fmt.lstrip("@=<>!"), ""


class NumpyArray(Content):
    def __init__(self, array, identities=None, parameters=None):
        if isinstance(array, _Index):
            array = np.asarray(array)
        arr = np.asarray(array)
        if arr.ndim == 0:
            raise ValueError("NumpyArray must not be scalar; try array.reshape(1)")
        if arr.dtype.kind in "OSUV":
            # format_to_dtype gives NOT_PRIMITIVE; the C++ object can still be built
            pass
        self._h = self._build(arr, parameters)

    @staticmethod
    def _build(arr, parameters, byteoffset=None, backing=None):
        """``backing`` (bytes-like, optional) lets the explorer choose the whole physical buffer."""
        p = _params_in(parameters)
        fmt, dtname = _format_of(arr)
        if backing is None:
            # smallest contiguous span that contains every element
            shape, strides = list(arr.shape), list(arr.strides)
            if arr.size == 0:
                raw = np.zeros(0, dtype=np.uint8)
                off = 0
            else:
                lo = sum(min(0, (n - 1) * s) for n, s in zip(shape, strides))
                hi = sum(max(0, (n - 1) * s) for n, s in zip(shape, strides)) + arr.itemsize
                first = arr.ctypes.data + lo
                raw = np.frombuffer((np.ctypeslib.ctypes.c_char * (hi - lo)).from_address(first),
                                    dtype=np.uint8).copy()
                off = -lo
        else:
            raw = np.frombuffer(backing, dtype=np.uint8).copy()
            off = byteoffset
            shape, strides = list(arr.shape), list(arr.strides)
        ints = [len(p) // 2, len(shape)] + shape + strides + [off, arr.itemsize]
        return _make("NumpyArray", ints, p + [fmt, dtname], (), [(raw, 0, raw.shape[0])])

    def _info(self):
        res = self._describe()
        i = res.i
        P = i[0]
        pos = 2  # i[1] = length
        ndim = i[pos]
        shape = i[pos + 1:pos + 1 + ndim]
        strides = i[pos + 1 + ndim:pos + 1 + 2 * ndim]
        byteoffset, itemsize, isscalar, ptr = i[pos + 1 + 2 * ndim:pos + 5 + 2 * ndim]
        fmt = res.s[1 + 2 * P].decode()
        dtname = res.s[2 + 2 * P].decode()
        return dict(shape=tuple(shape), strides=tuple(strides), byteoffset=byteoffset, itemsize=itemsize,
                    isscalar=bool(isscalar), ptr=ptr, format=fmt, dtype=dtname, data=res.x[0],
                    parameters=_params_out(res.s[1:1 + 2 * P]))

    def _numpy(self):
        info = self._info()
        return _numpy_from_info(info)

    def _scalar(self):
        arr = self._numpy()
        v = arr.reshape(-1)[0]
        if arr.dtype.kind in "mM":
            return v
        return v.item()

    def __array__(self, dtype=None, copy=None):
        arr = self._numpy()
        if dtype is not None:
            arr = arr.astype(dtype)
        return arr

    def __buffer__(self, flags):
        # stands in for pybind11's def_buffer (PEP 688); a copy of the logical array
        return memoryview(np.ascontiguousarray(self._numpy()))

    shape = property(lambda self: self._info()["shape"])
    strides = property(lambda self: self._info()["strides"])
    itemsize = property(lambda self: self._info()["itemsize"])
    format = property(lambda self: self._info()["format"])
    ndim = property(lambda self: len(self._info()["shape"]))
    isscalar = property(lambda self: self._info()["isscalar"])
    isempty = property(lambda self: any(x == 0 for x in self._info()["shape"]))
    ptr = property(lambda self: self._info()["ptr"])
    ptr_lib = property(lambda self: "cpu")
    iscontiguous = property(lambda self: bool(self._call(b"iscontiguous").i[0]))

    def toRegularArray(self):
        return _box1(self._call(b"toRegularArray"))

    def contiguous(self):
        return _box1(self._call(b"contiguous"))


def _np_dtype(fmt, dtname):
    if dtname.startswith("datetime64") or dtname.startswith("timedelta64"):
        return np.dtype(fmt)
    if dtname == "bool":
        return np.dtype(np.bool_)
    try:
        return np.dtype(dtname)
    except TypeError:
        return np.dtype(fmt)


def _numpy_from_info(info):
    dt = _np_dtype(info["format"], info["dtype"])
    data = info["data"]
    if dt.itemsize != info["itemsize"]:
        dt = np.dtype("V%d" % info["itemsize"])
    arr = np.frombuffer(data.tobytes(), dtype=dt).copy()
    return arr.reshape(info["shape"])


class _ListOffsetArray(Content):
    _index = None

    def __init__(self, offsets, content, identities=None, parameters=None):
        p = _params_in(parameters)
        self._h = _make(type(self).__name__, [len(p) // 2], p, [_unbox(content)],
                        [_as_index(self._index, offsets)._arg()])

    offsets = property(lambda self: _index_out(self._describe().x[0]))
    starts = property(lambda self: _index_out(self._call(b"starts").x[0]))
    stops = property(lambda self: _index_out(self._call(b"stops").x[0]))
    content = property(lambda self: _box1(self._describe()))

    def compact_offsets64(self, start_at_zero=True):
        return _index_out(self._call(b"compact_offsets64", ints=[int(start_at_zero)]).x[0])

    def broadcast_tooffsets64(self, offsets):
        return _box1(self._call(b"broadcast_tooffsets64", indexes=[_as_index(Index64, offsets)._arg()]))

    def toListOffsetArray64(self, start_at_zero=False):
        return _box1(self._call(b"toListOffsetArray64", ints=[int(start_at_zero)]))

    def toRegularArray(self):
        return _box1(self._call(b"toRegularArray"))


class ListOffsetArray32(_ListOffsetArray):
    _index = Index32


class ListOffsetArrayU32(_ListOffsetArray):
    _index = IndexU32


class ListOffsetArray64(_ListOffsetArray):
    _index = Index64


class _ListArray(Content):
    _index = None

    def __init__(self, starts, stops, content, identities=None, parameters=None):
        p = _params_in(parameters)
        self._h = _make(type(self).__name__, [len(p) // 2], p, [_unbox(content)],
                        [_as_index(self._index, starts)._arg(), _as_index(self._index, stops)._arg()])

    starts = property(lambda self: _index_out(self._describe().x[0]))
    stops = property(lambda self: _index_out(self._describe().x[1]))
    content = property(lambda self: _box1(self._describe()))
    compact_offsets64 = _ListOffsetArray.compact_offsets64
    broadcast_tooffsets64 = _ListOffsetArray.broadcast_tooffsets64
    toListOffsetArray64 = _ListOffsetArray.toListOffsetArray64
    toRegularArray = _ListOffsetArray.toRegularArray


class ListArray32(_ListArray):
    _index = Index32


class ListArrayU32(_ListArray):
    _index = IndexU32


class ListArray64(_ListArray):
    _index = Index64


class RegularArray(Content):
    def __init__(self, content, size, zeros_length=0, identities=None, parameters=None):
        p = _params_in(parameters)
        self._h = _make("RegularArray", [len(p) // 2, int(size), int(zeros_length)], p, [_unbox(content)])

    @property
    def size(self):
        res = self._describe()
        return res.i[2 + 0]

    content = property(lambda self: _box1(self._describe()))
    compact_offsets64 = _ListOffsetArray.compact_offsets64
    broadcast_tooffsets64 = _ListOffsetArray.broadcast_tooffsets64
    toListOffsetArray64 = _ListOffsetArray.toListOffsetArray64
    toRegularArray = _ListOffsetArray.toRegularArray


class _IndexedArray(Content):
    _index = None

    def __init__(self, index, content, identities=None, parameters=None):
        p = _params_in(parameters)
        self._h = _make(type(self).__name__, [len(p) // 2], p, [_unbox(content)],
                        [_as_index(self._index, index)._arg()])

    index = property(lambda self: _index_out(self._describe().x[0]))
    content = property(lambda self: _box1(self._describe()))
    isoption = property(lambda self: bool(self._call(b"isoption").i[0]))

    def project(self, mask=None):
        if mask is None:
            return _box1(self._call(b"project"))
        return _box1(self._call(b"project", indexes=[_as_index(Index8, mask)._arg()]))

    def bytemask(self):
        return _index_out(self._call(b"bytemask").x[0])


class IndexedArray32(_IndexedArray):
    _index = Index32


class IndexedArrayU32(_IndexedArray):
    _index = IndexU32


class IndexedArray64(_IndexedArray):
    _index = Index64


class IndexedOptionArray32(_IndexedArray):
    _index = Index32


class IndexedOptionArray64(_IndexedArray):
    _index = Index64


class ByteMaskedArray(Content):
    def __init__(self, mask, content, valid_when, identities=None, parameters=None):
        p = _params_in(parameters)
        self._h = _make("ByteMaskedArray", [len(p) // 2, int(bool(valid_when))], p, [_unbox(content)],
                        [_as_index(Index8, mask)._arg()])

    mask = property(lambda self: _index_out(self._describe().x[0]))
    content = property(lambda self: _box1(self._describe()))

    @property
    def valid_when(self):
        return bool(self._describe().i[2])

    project = _IndexedArray.project
    bytemask = _IndexedArray.bytemask

    def toIndexedOptionArray64(self):
        return _box1(self._call(b"toIndexedOptionArray64"))


class BitMaskedArray(Content):
    def __init__(self, mask, content, valid_when, length, lsb_order, identities=None, parameters=None):
        p = _params_in(parameters)
        self._h = _make("BitMaskedArray", [len(p) // 2, int(bool(valid_when)), int(length), int(bool(lsb_order))],
                        p, [_unbox(content)], [_as_index(IndexU8, mask)._arg()])

    mask = property(lambda self: _index_out(self._describe().x[0]))
    content = property(lambda self: _box1(self._describe()))

    @property
    def valid_when(self):
        return bool(self._describe().i[2])

    @property
    def lsb_order(self):
        return bool(self._describe().i[3])

    project = _IndexedArray.project
    bytemask = _IndexedArray.bytemask
    toIndexedOptionArray64 = ByteMaskedArray.toIndexedOptionArray64

    def toByteMaskedArray(self):
        return _box1(self._call(b"toByteMaskedArray"))


class UnmaskedArray(Content):
    def __init__(self, content, identities=None, parameters=None):
        p = _params_in(parameters)
        self._h = _make("UnmaskedArray", [len(p) // 2], p, [_unbox(content)])

    content = property(lambda self: _box1(self._describe()))
    project = _IndexedArray.project
    bytemask = _IndexedArray.bytemask
    toIndexedOptionArray64 = ByteMaskedArray.toIndexedOptionArray64
    toByteMaskedArray = BitMaskedArray.toByteMaskedArray


class _UnionArray(Content):
    _index = None

    def __init__(self, tags, index, contents, identities=None, parameters=None):
        p = _params_in(parameters)
        self._h = _make(type(self).__name__, [len(p) // 2], p, [_unbox(x) for x in contents],
                        [_as_index(Index8, tags)._arg(), _as_index(self._index, index)._arg()])

    tags = property(lambda self: _index_out(self._describe().x[0]))
    index = property(lambda self: _index_out(self._describe().x[1]))

    @property
    def contents(self):
        res = self._describe()
        return [_box(h, c) for h, c in zip(res.h, res.hc)]

    numcontents = property(lambda self: self._call(b"numcontents").i[0])

    def content(self, i):
        return _box1(self._call(b"content", ints=[i]))

    def project(self, i):
        return _box1(self._call(b"project", ints=[i]))

    def simplify(self, merge=True, mergebool=False):
        return _box1(self._call(b"simplify", ints=[int(merge), int(mergebool)]))

    @staticmethod
    def sparse_index(length):
        return Index64(np.arange(length, dtype=np.int64))

    _which = 2

    @classmethod
    def nested_tags_index(cls, offsets, counts):
        """the real static UnionArrayOf<T, I>::nested_tags_index (kernel UnionArray_nestedfill_tags_index_64)"""
        import ctypes
        L = akb.lib()
        if not getattr(L, "_akv_nested_ready", False):
            L.akb_union_nested_tags_index.argtypes = [ctypes.POINTER(akb.AkbArgs)]
            L.akb_union_nested_tags_index.restype = ctypes.c_int
            L._akv_nested_ready = True
        idx = [_as_index(Index64, offsets)._arg()] + [_as_index(Index64, c)._arg() for c in counts]
        a, keep = akb.pack([cls._which], (), (), (), idx)
        if L.akb_union_nested_tags_index(ctypes.byref(a)) != 0:
            try:
                akb._raise()
            except akb.BridgeError as err:
                raise _translate(err) from None
        res = akb._collect()
        return (_index_out(res.x[0]), _index_out(res.x[1]))

    @staticmethod
    def regular_index(tags):
        t = np.asarray(tags)
        out = np.empty(len(t), dtype=np.int64)
        counts = {}
        for k, tag in enumerate(t.tolist()):
            out[k] = counts.get(tag, 0)
            counts[tag] = out[k] + 1
        return out


class UnionArray8_32(_UnionArray):
    _index = Index32
    _which = 0

    @staticmethod
    def regular_index(tags):
        return Index32(_UnionArray.regular_index(tags).astype(np.int32))

    @staticmethod
    def sparse_index(length):
        return Index32(np.arange(length, dtype=np.int32))


class UnionArray8_U32(_UnionArray):
    _index = IndexU32
    _which = 1

    @staticmethod
    def regular_index(tags):
        return IndexU32(_UnionArray.regular_index(tags).astype(np.uint32))

    @staticmethod
    def sparse_index(length):
        return IndexU32(np.arange(length, dtype=np.uint32))


class UnionArray8_64(_UnionArray):
    _index = Index64

    @staticmethod
    def regular_index(tags):
        return Index64(_UnionArray.regular_index(tags))


class RecordArray(Content):
    def __init__(self, contents, keys=None, length=None, identities=None, parameters=None):
        if isinstance(contents, dict):
            # first overload: (dict contents, length, identities, parameters)
            if keys is not None and length is None and not _is_iterable(keys):
                length = keys
            keys = list(contents.keys())
            contents = list(contents.values())
        else:
            contents = list(contents)
            if keys is not None:
                keys = [str(k) for k in keys]
                if len(keys) != len(contents):
                    raise ValueError("if provided, 'keys' must have the same length as 'types'")
        p = _params_in(parameters)
        ints = [len(p) // 2, 0 if length is None else 1, 0 if length is None else int(length),
                0 if keys is None else 1]
        self._h = _make("RecordArray", ints, p + (keys or []), [_unbox(x) for x in contents])

    @property
    def recordlookup(self):
        res = self._describe()
        P = res.i[0]
        if res.i[2]:
            return None
        return [s.decode("utf-8", "surrogateescape") for s in res.s[1 + 2 * P:]]

    istuple = property(lambda self: bool(self._describe().i[2]))

    @property
    def contents(self):
        res = self._describe()
        return [_box(h, c) for h, c in zip(res.h, res.hc)]

    def setitem_field(self, where, what):
        h = [_unbox(what)]
        if where is None:
            return _box1(self._call(b"setitem_field", ints=[0], handles=h))
        if isinstance(where, str):
            return _box1(self._call(b"setitem_field", ints=[1], strs=[where], handles=h))
        if _is_int(where):
            return _box1(self._call(b"setitem_field", ints=[2, int(where)], handles=h))
        raise ValueError("where must be None, int, or str")

    def field(self, where):
        if isinstance(where, str):
            return _box1(self._call(b"field", strs=[where]))
        return _box1(self._call(b"field", ints=[int(where)]))

    def fields(self):
        return self.contents

    def fielditems(self):
        return list(zip(self.keys(), self.contents))

    @property
    def astuple(self):
        return _box1(self._call(b"astuple"))


class Record(object):
    """A single record (scalar). As in the pybind11 bindings this is NOT a subclass of Content."""

    def __init__(self, array, at):
        if not isinstance(array, RecordArray):
            raise TypeError("Record requires a RecordArray")
        self._h = _make("Record", [0, int(at)], (), [_unbox(array)])

    _wrap = classmethod(Content._wrap.__func__)
    __del__ = Content.__del__
    _call = Content._call
    _describe = Content._describe
    identities = Content.identities
    parameters = Content.parameters
    setparameters = Content.setparameters
    setparameter = Content.setparameter
    parameter = Content.parameter
    purelist_parameter = Content.purelist_parameter
    type = Content.type
    _typestr = Content._typestr
    kernels = Content.kernels
    caches = Content.caches
    tojson = Content.tojson
    numfields = Content.numfields
    fieldindex = Content.fieldindex
    key = Content.key
    haskey = Content.haskey
    keys = Content.keys
    validityerror = Content.validityerror
    __getitem__ = Content.__getitem__

    def __repr__(self):
        return self._call(b"tostring").s[0].decode("utf-8", "surrogateescape")

    @property
    def array(self):
        return _box1(self._describe())

    @property
    def at(self):
        return self._describe().i[2]

    istuple = property(lambda self: bool(self._call(b"istuple").i[0]))

    def field(self, where):
        if isinstance(where, str):
            return _box1(self._call(b"field", strs=[where]))
        return _box1(self._call(b"field", ints=[int(where)]))

    def fields(self):
        res = self._call(b"fields")
        return [_box(h, c) for h, c in zip(res.h, res.hc)]

    def fielditems(self):
        return list(zip(self.keys(), self.fields()))

    @property
    def astuple(self):
        return _box1(self._call(b"astuple"))


class Iterator(object):
    def __init__(self, content):
        self._content = content
        self._at = 0
        self._len = len(content)

    def __iter__(self):
        return self

    def __next__(self):
        if self._at >= self._len:
            raise StopIteration
        out = _box1(self._content._call(b"getitem_at_nowrap", ints=[self._at]))
        self._at += 1
        return out

    next = __next__


class PersistentSharedPtr(object):
    def __init__(self, layout):
        self._layout = layout

    def layout(self):
        return self._layout

    def ptr(self):
        return id(self._layout)


# placeholders replaced by later parts of the mirror (forms/types/builder/virtual)
class VirtualArray(Content):
    pass


class ArrayBuilder(object):
    pass


def _caches_of(layout):
    return []


def _type_wrap(h):
    raise NotImplementedError


def _form_wrap(h):
    raise NotImplementedError


for _c in [EmptyArray, NumpyArray, ListOffsetArray32, ListOffsetArrayU32, ListOffsetArray64, ListArray32,
           ListArrayU32, ListArray64, RegularArray, IndexedArray32, IndexedArrayU32, IndexedArray64,
           IndexedOptionArray32, IndexedOptionArray64, ByteMaskedArray, BitMaskedArray, UnmaskedArray,
           UnionArray8_32, UnionArray8_U32, UnionArray8_64, RecordArray, Record]:
    _CLASSES[_c.__name__] = _c


###################################################################### physical description

def describe(layout):
    """The physical layout description of DESIGN.md 11b, read back from the C++ object."""
    if layout is None:
        return None
    res = layout._describe()
    cls = res.s[0].decode()
    P = res.i[0]
    out = {"class": cls, "parameters": _params_out(res.s[1:1 + 2 * P]), "length": res.i[1]}
    rest_i = res.i[2:]
    rest_s = res.s[1 + 2 * P:]
    kids = [_box(h, c) for h, c in zip(res.h, res.hc)]
    if cls == "NumpyArray":
        ndim = rest_i[0]
        info = dict(shape=tuple(rest_i[1:1 + ndim]), strides=tuple(rest_i[1 + ndim:1 + 2 * ndim]),
                    byteoffset=rest_i[1 + 2 * ndim], itemsize=rest_i[2 + 2 * ndim],
                    isscalar=bool(rest_i[3 + 2 * ndim]), format=rest_s[0].decode(), dtype=rest_s[1].decode(),
                    data=res.x[0])
        out.update(shape=info["shape"], strides=info["strides"], format=info["format"], dtype=info["dtype"],
                   array=_numpy_from_info(info))
    elif cls == "EmptyArray":
        pass
    elif cls.startswith("ListOffsetArray"):
        out.update(offsets=res.x[0], content=describe(kids[0]))
    elif cls.startswith("ListArray"):
        out.update(starts=res.x[0], stops=res.x[1], content=describe(kids[0]))
    elif cls == "RegularArray":
        out.update(size=rest_i[0], content=describe(kids[0]))
    elif cls.startswith("Indexed"):
        out.update(index=res.x[0], content=describe(kids[0]))
    elif cls == "ByteMaskedArray":
        out.update(valid_when=bool(rest_i[0]), mask=res.x[0], content=describe(kids[0]))
    elif cls == "BitMaskedArray":
        out.update(valid_when=bool(rest_i[0]), lsb_order=bool(rest_i[1]), mask=res.x[0],
                   content=describe(kids[0]))
    elif cls == "UnmaskedArray":
        out.update(content=describe(kids[0]))
    elif cls.startswith("UnionArray"):
        out.update(tags=res.x[0], index=res.x[1], contents=[describe(k) for k in kids])
    elif cls == "RecordArray":
        istuple = bool(rest_i[0])
        out.update(keys=None if istuple else [s.decode("utf-8", "surrogateescape") for s in rest_s],
                   contents=[describe(k) for k in kids])
    elif cls == "Record":
        out.update(at=rest_i[0], array=describe(kids[0]))
    elif cls == "VirtualArray":
        return describe(layout.array)
    else:
        raise NotImplementedError(cls)
    return out
