"""Mirror of the Form and Type classes of awkward._ext (src/python/forms.cpp, types.cpp are uncompilable here).

Forms: every object holds a handle to the real C++ Form; Python-side constructors assemble the Form's JSON
and go through the real ``Form::fromjson``; structural properties are read from the real ``Form::tojson``
(verbose).  Types: every object holds a handle to the real C++ Type built with the real constructors;
structure is read back with one ``describe`` call.  Printing, equality, type-of-form, depth queries are all
the library's own code.
"""
import ctypes
import json

import numpy as np

import akb
import ext
from ext import _translate, _params_in, _params_out, _dumps

_setup_done = False


def _lib():
    global _setup_done
    L = akb.lib()
    if not _setup_done:
        L.akb_type_make.argtypes = [ctypes.c_char_p, ctypes.POINTER(akb.AkbArgs)]
        L.akb_type_make.restype = ctypes.c_int
        L.akb_type_call.argtypes = [ctypes.c_void_p, ctypes.c_char_p, ctypes.POINTER(akb.AkbArgs)]
        L.akb_type_call.restype = ctypes.c_int
        L.akb_form_fromjson.argtypes = [ctypes.c_char_p, ctypes.c_int64]
        L.akb_form_fromjson.restype = ctypes.c_int
        L.akb_form_call.argtypes = [ctypes.c_void_p, ctypes.c_char_p, ctypes.POINTER(akb.AkbArgs)]
        L.akb_form_call.restype = ctypes.c_int
        _setup_done = True
    return L


def _call(fn, h, method, ints=(), strs=(), handles=()):
    L = _lib()
    a, keep = akb.pack(ints, (), strs, handles, ())
    rc = getattr(L, fn)(h, method, ctypes.byref(a))
    if rc != 0:
        try:
            akb._raise()
        except akb.BridgeError as err:
            raise _translate(err) from None
    return akb._collect()


###################################################################### Types

class Type(object):
    _kind = None

    @classmethod
    def _wrap(cls, h):
        """Wrap a C++ Type handle in the right Python class (reads the structure once)."""
        res = _call("akb_type_call", h, b"describe")
        P = res.i[0]
        kind = res.s[2 * P + 1].decode()
        self = object.__new__(_TYPE_CLASSES[kind])
        self._h = h
        self._parameters = _params_out(res.s[:2 * P])
        ts = res.s[2 * P].decode("utf-8", "surrogateescape")
        self._typestr = ts if ts != "" else None
        kids = [Type._wrap(k) for k in res.h]
        rest_i = res.i[1:]
        rest_s = res.s[2 * P + 2:]
        self._init_fields(kids, rest_i, rest_s)
        return self

    def _init_fields(self, kids, ints, strs):
        pass

    def __del__(self):
        h = getattr(self, "_h", None)
        if h is not None and akb is not None and akb._lib is not None:
            try:
                akb._lib.akb_release_type(h)
            except Exception:
                pass
            self._h = None

    def _make(self, ints=(), strs=(), handles=(), parameters=None, typestr=None):
        p = _params_in(parameters)
        L = _lib()
        allints = [len(p) // 2, 0 if typestr is None else 1] + list(ints)
        allstrs = p + ["" if typestr is None else typestr] + list(strs)
        a, keep = akb.pack(allints, (), allstrs, handles, ())
        if L.akb_type_make(type(self).__name__.encode(), ctypes.byref(a)) != 0:
            try:
                akb._raise()
            except akb.BridgeError as err:
                raise _translate(err) from None
        res = akb._collect()
        self._h = res.h[0]
        self._parameters = dict(parameters) if parameters else {}
        self._typestr = typestr

    def __repr__(self):
        return _call("akb_type_call", self._h, b"tostring").s[0].decode("utf-8", "surrogateescape")

    def __eq__(self, other):
        if not isinstance(other, Type):
            return False
        return bool(_call("akb_type_call", self._h, b"equal", ints=[1], handles=[other._h]).i[0])

    def __ne__(self, other):
        return not self.__eq__(other)

    __hash__ = None

    @property
    def parameters(self):
        return dict(self._parameters)

    @parameters.setter
    def parameters(self, value):
        self._rebuild(parameters=value)

    def setparameter(self, key, value):
        p = dict(self._parameters)
        p[key] = value
        self._rebuild(parameters=p)

    def _rebuild(self, parameters):
        raise NotImplementedError

    @property
    def typestr(self):
        return self._typestr

    @property
    def numfields(self):
        return _call("akb_type_call", self._h, b"numfields").i[0]

    def fieldindex(self, key):
        return _call("akb_type_call", self._h, b"fieldindex", strs=[key]).i[0]

    def key(self, fieldindex):
        return _call("akb_type_call", self._h, b"key", ints=[fieldindex]).s[0].decode("utf-8", "surrogateescape")

    def haskey(self, key):
        return bool(_call("akb_type_call", self._h, b"haskey", strs=[key]).i[0])

    def keys(self):
        return [s.decode("utf-8", "surrogateescape") for s in _call("akb_type_call", self._h, b"keys").s]

    def empty(self):
        return ext._box1(_call("akb_type_call", self._h, b"empty"))

    def __reduce__(self):
        # stands in for the py::pickle definitions of src/python/types.cpp (constructor arguments)
        return (_type_from_state, (self._state(),))

    def _state(self):
        d = {"kind": type(self).__name__, "parameters": self._parameters, "typestr": self._typestr}
        for k in ("_type", "_types"):
            if hasattr(self, k):
                v = getattr(self, k)
                d[k] = v._state() if isinstance(v, Type) else [x._state() for x in v]
        for k in ("_length", "_size", "_dtype", "_keys"):
            if hasattr(self, k):
                d[k] = getattr(self, k)
        return d


def _type_from_state(d):
    kind = d["kind"]
    p, ts = d["parameters"] or None, d["typestr"]
    if kind == "ArrayType":
        return ArrayType(_type_from_state(d["_type"]), d["_length"], p, ts)
    if kind in ("ListType", "OptionType"):
        return _TYPE_CLASSES[kind](_type_from_state(d["_type"]), p, ts)
    if kind == "RegularType":
        return RegularType(_type_from_state(d["_type"]), d["_size"], p, ts)
    if kind == "UnknownType":
        return UnknownType(p, ts)
    if kind == "PrimitiveType":
        return PrimitiveType(d["_dtype"], p, ts)
    if kind == "UnionType":
        return UnionType([_type_from_state(x) for x in d["_types"]], p, ts)
    return RecordType([_type_from_state(x) for x in d["_types"]], d["_keys"], p, ts)


def _check_type(t):
    if not isinstance(t, Type):
        raise TypeError("expected an awkward Type, got %s" % type(t).__name__)
    return t


class ArrayType(Type):
    def __init__(self, type, length, parameters=None, typestr=None):
        self._type = _check_type(type)
        self._length = int(length)
        self._make([self._length], (), [type._h], parameters, typestr)

    def _init_fields(self, kids, ints, strs):
        self._type = kids[0]
        self._length = ints[0]

    type = property(lambda self: self._type)
    length = property(lambda self: self._length)

    def _rebuild(self, parameters):
        self.__init__(self._type, self._length, parameters, self._typestr)


class ListType(Type):
    def __init__(self, type, parameters=None, typestr=None):
        self._type = _check_type(type)
        self._make((), (), [type._h], parameters, typestr)

    def _init_fields(self, kids, ints, strs):
        self._type = kids[0]

    type = property(lambda self: self._type)

    def _rebuild(self, parameters):
        self.__init__(self._type, parameters, self._typestr)


class OptionType(Type):
    def __init__(self, type, parameters=None, typestr=None):
        self._type = _check_type(type)
        self._make((), (), [type._h], parameters, typestr)

    def _init_fields(self, kids, ints, strs):
        self._type = kids[0]

    type = property(lambda self: self._type)

    def _rebuild(self, parameters):
        self.__init__(self._type, parameters, self._typestr)


class RegularType(Type):
    def __init__(self, type, size, parameters=None, typestr=None):
        self._type = _check_type(type)
        self._size = int(size)
        self._make([self._size], (), [type._h], parameters, typestr)

    def _init_fields(self, kids, ints, strs):
        self._type = kids[0]
        self._size = ints[0]

    type = property(lambda self: self._type)
    size = property(lambda self: self._size)

    def _rebuild(self, parameters):
        self.__init__(self._type, self._size, parameters, self._typestr)


class UnknownType(Type):
    def __init__(self, parameters=None, typestr=None):
        self._make((), (), (), parameters, typestr)

    def _rebuild(self, parameters):
        self.__init__(parameters, self._typestr)


class PrimitiveType(Type):
    def __init__(self, dtype, parameters=None, typestr=None):
        self._dtype = str(dtype)
        self._make((), [self._dtype], (), parameters, typestr)

    def _init_fields(self, kids, ints, strs):
        self._dtype = strs[0].decode()

    dtype = property(lambda self: self._dtype)

    def _rebuild(self, parameters):
        self.__init__(self._dtype, parameters, self._typestr)


class UnionType(Type):
    def __init__(self, types, parameters=None, typestr=None):
        self._types = [_check_type(t) for t in types]
        self._make((), (), [t._h for t in self._types], parameters, typestr)

    def _init_fields(self, kids, ints, strs):
        self._types = kids

    numtypes = property(lambda self: len(self._types))
    types = property(lambda self: list(self._types))

    def type(self, i):
        return self._types[i]

    def _rebuild(self, parameters):
        self.__init__(self._types, parameters, self._typestr)


class RecordType(Type):
    def __init__(self, types, keys=None, parameters=None, typestr=None):
        if isinstance(types, dict):
            # first overload: (dict types, parameters, typestr)
            if keys is not None and parameters is None and isinstance(keys, dict):
                parameters, keys = keys, None
            self._keys = [str(k) for k in types.keys()]
            self._types = [_check_type(t) for t in types.values()]
        else:
            self._types = [_check_type(t) for t in types]
            self._keys = None if keys is None else [str(k) for k in keys]
            if self._keys is not None and len(self._keys) != len(self._types):
                raise ValueError("if provided, 'keys' must have the same length as 'types'")
        self._make([0 if self._keys is None else 1], self._keys or [], [t._h for t in self._types], parameters, typestr)

    def _init_fields(self, kids, ints, strs):
        self._types = kids
        self._keys = None if ints[0] else [s.decode("utf-8", "surrogateescape") for s in strs]

    istuple = property(lambda self: self._keys is None)
    types = property(lambda self: tuple(self._types))

    def __getitem__(self, where):
        return self.field(where)

    def field(self, where):
        if isinstance(where, str):
            return self._types[self.fieldindex(where)]
        return self._types[int(where)]

    def fields(self):
        return list(self._types)

    def fielditems(self):
        return list(zip(self.keys(), self._types))

    def _rebuild(self, parameters):
        self.__init__(self._types, self._keys, parameters, self._typestr)


_TYPE_CLASSES = {c.__name__: c for c in (ArrayType, ListType, OptionType, RegularType, UnknownType, PrimitiveType,
                                         UnionType, RecordType)}


###################################################################### Forms

class Form(object):
    """All Form classes share this implementation; the class is chosen from the JSON's "class"."""

    @classmethod
    def _wrap(cls, h):
        res = _call("akb_form_call", h, b"tojson", ints=[0, 1])
        j = json.loads(res.s[0].decode("utf-8", "surrogateescape"))
        self = object.__new__(_form_class_of(j))
        self._h = h
        self._j = j
        return self

    def __del__(self):
        h = getattr(self, "_h", None)
        if h is not None and akb is not None and akb._lib is not None:
            try:
                akb._lib.akb_release_form(h)
            except Exception:
                pass
            self._h = None

    @staticmethod
    def fromjson(text):
        L = _lib()
        b = text.encode("utf-8", "surrogateescape") if isinstance(text, str) else bytes(text)
        if L.akb_form_fromjson(b, len(b)) != 0:
            try:
                akb._raise()
            except akb.BridgeError as err:
                raise _translate(err) from None
        res = akb._collect()
        return Form._wrap(res.h[0])

    @staticmethod
    def from_numpy(dtype):
        if not isinstance(dtype, np.dtype):
            raise ValueError("Form.from_numpy requires a numpy.dtype")
        inner_shape = list(dtype.shape)
        base = dtype if not inner_shape else dtype.subdtype[0]
        # Form::fromnumpy(kind, itemsize, inner_shape): primitive name from kind and itemsize
        name = {"b": "bool", "i": "int%d", "u": "uint%d", "f": "float%d", "c": "complex%d"}.get(base.kind)
        if name is None:
            if base.kind in "mM":
                name = str(base)
            else:
                raise ValueError("numpy kind %r not supported" % base.kind)
        elif "%d" in name:
            name = name % (base.itemsize * 8)
        j = {"class": "NumpyArray", "primitive": name, "inner_shape": inner_shape}
        return Form.fromjson(json.dumps(j))

    def _fromdict(self, j):
        f = Form.fromjson(json.dumps(j))
        self._h, f._h = f._h, None
        self._j = f._j

    def __repr__(self):
        return _call("akb_form_call", self._h, b"tostring").s[0].decode("utf-8", "surrogateescape")

    def __eq__(self, other):
        if not isinstance(other, Form):
            return False
        return bool(_call("akb_form_call", self._h, b"equal", ints=[1, 1, 1, 0], handles=[other._h]).i[0])

    def __ne__(self, other):
        return not self.__eq__(other)

    __hash__ = None

    has_identities = property(lambda self: bool(self._j.get("has_identities", False)))
    parameters = property(lambda self: dict(self._j.get("parameters") or {}))
    form_key = property(lambda self: self._j.get("form_key"))

    def parameter(self, key):
        return (self._j.get("parameters") or {}).get(key)

    def type(self, typestrs=None):
        flat = []
        for k, v in (typestrs or {}).items():
            flat.extend((k, v))
        return Type._wrap(_call("akb_form_call", self._h, b"type", strs=flat).h[0])

    def tojson(self, pretty=False, verbose=True):
        return _call("akb_form_call", self._h, b"tojson", ints=[int(pretty), int(verbose)]).s[0].decode("utf-8", "surrogateescape")

    purelist_depth = property(lambda self: _call("akb_form_call", self._h, b"purelist_depth").i[0])
    purelist_isregular = property(lambda self: bool(_call("akb_form_call", self._h, b"purelist_isregular").i[0]))

    @property
    def minmax_depth(self):
        r = _call("akb_form_call", self._h, b"minmax_depth").i
        return (r[0], r[1])

    @property
    def branch_depth(self):
        r = _call("akb_form_call", self._h, b"branch_depth").i
        return (bool(r[0]), r[1])

    def purelist_parameter(self, key):
        return json.loads(_call("akb_form_call", self._h, b"purelist_parameter", strs=[key]).s[0].decode())

    def with_form_key(self, form_key):
        j = json.loads(json.dumps(self._j))
        j["form_key"] = form_key
        return Form.fromjson(json.dumps(j))

    def _common(self, has_identities, parameters, form_key):
        return {"has_identities": bool(has_identities), "parameters": dict(parameters) if parameters else {},
                "form_key": form_key}

    def _child(self, name):
        return Form.fromjson(json.dumps(self._j[name]))

    def __reduce__(self):
        # stands in for the py::pickle definitions of src/python/forms.cpp
        return (Form.fromjson, (self.tojson(False, True),))


def _idx(s):
    """index type names as the bindings print them (i8, u8, i32, u32, i64)"""
    return s


def _formjson(f):
    if not isinstance(f, Form):
        raise TypeError("expected a Form, got %s" % type(f).__name__)
    return f._j


class NumpyForm(Form):
    def __init__(self, inner_shape, itemsize, format, has_identities=False, parameters=None, form_key=None):
        j = {"class": "NumpyArray", "inner_shape": [int(x) for x in inner_shape], "itemsize": int(itemsize), "format": format}
        j.update(self._common(has_identities, parameters, form_key))
        self._fromdict(j)

    inner_shape = property(lambda self: list(self._j.get("inner_shape", [])))
    itemsize = property(lambda self: self._j["itemsize"])
    format = property(lambda self: self._j["format"])
    primitive = property(lambda self: self._j["primitive"])

    def to_numpy(self):
        prim = self._j["primitive"]
        dt = np.dtype(prim if prim != "bool" else np.bool_)
        shape = tuple(self.inner_shape)
        return np.dtype((dt, shape)) if shape else dt


class EmptyForm(Form):
    def __init__(self, has_identities=False, parameters=None, form_key=None):
        j = {"class": "EmptyArray"}
        j.update(self._common(has_identities, parameters, form_key))
        self._fromdict(j)


_W = {"i8": "8", "u8": "U8", "i32": "32", "u32": "U32", "i64": "64"}


class ListOffsetForm(Form):
    def __init__(self, offsets, content, has_identities=False, parameters=None, form_key=None):
        j = {"class": "ListOffsetArray" + _W[offsets], "offsets": offsets, "content": _formjson(content)}
        j.update(self._common(has_identities, parameters, form_key))
        self._fromdict(j)

    offsets = property(lambda self: self._j["offsets"])
    content = property(lambda self: self._child("content"))


class ListForm(Form):
    def __init__(self, starts, stops, content, has_identities=False, parameters=None, form_key=None):
        j = {"class": "ListArray" + _W[starts], "starts": starts, "stops": stops, "content": _formjson(content)}
        j.update(self._common(has_identities, parameters, form_key))
        self._fromdict(j)

    starts = property(lambda self: self._j["starts"])
    stops = property(lambda self: self._j["stops"])
    content = property(lambda self: self._child("content"))


class RegularForm(Form):
    def __init__(self, content, size, has_identities=False, parameters=None, form_key=None):
        j = {"class": "RegularArray", "content": _formjson(content), "size": int(size)}
        j.update(self._common(has_identities, parameters, form_key))
        self._fromdict(j)

    content = property(lambda self: self._child("content"))
    size = property(lambda self: self._j["size"])


class IndexedForm(Form):
    def __init__(self, index, content, has_identities=False, parameters=None, form_key=None):
        j = {"class": "IndexedArray" + _W[index], "index": index, "content": _formjson(content)}
        j.update(self._common(has_identities, parameters, form_key))
        self._fromdict(j)

    index = property(lambda self: self._j["index"])
    content = property(lambda self: self._child("content"))


class IndexedOptionForm(Form):
    def __init__(self, index, content, has_identities=False, parameters=None, form_key=None):
        j = {"class": "IndexedOptionArray" + _W[index], "index": index, "content": _formjson(content)}
        j.update(self._common(has_identities, parameters, form_key))
        self._fromdict(j)

    index = property(lambda self: self._j["index"])
    content = property(lambda self: self._child("content"))


class ByteMaskedForm(Form):
    def __init__(self, mask, content, valid_when, has_identities=False, parameters=None, form_key=None):
        j = {"class": "ByteMaskedArray", "mask": mask, "content": _formjson(content), "valid_when": bool(valid_when)}
        j.update(self._common(has_identities, parameters, form_key))
        self._fromdict(j)

    mask = property(lambda self: self._j["mask"])
    content = property(lambda self: self._child("content"))
    valid_when = property(lambda self: self._j["valid_when"])


class BitMaskedForm(Form):
    def __init__(self, mask, content, valid_when, lsb_order, has_identities=False, parameters=None, form_key=None):
        j = {"class": "BitMaskedArray", "mask": mask, "content": _formjson(content), "valid_when": bool(valid_when),
             "lsb_order": bool(lsb_order)}
        j.update(self._common(has_identities, parameters, form_key))
        self._fromdict(j)

    mask = property(lambda self: self._j["mask"])
    content = property(lambda self: self._child("content"))
    valid_when = property(lambda self: self._j["valid_when"])
    lsb_order = property(lambda self: self._j["lsb_order"])


class UnmaskedForm(Form):
    def __init__(self, content, has_identities=False, parameters=None, form_key=None):
        j = {"class": "UnmaskedArray", "content": _formjson(content)}
        j.update(self._common(has_identities, parameters, form_key))
        self._fromdict(j)

    content = property(lambda self: self._child("content"))


class UnionForm(Form):
    def __init__(self, tags, index, contents, has_identities=False, parameters=None, form_key=None):
        j = {"class": "UnionArray8_" + _W[index], "tags": tags, "index": index, "contents": [_formjson(c) for c in contents]}
        j.update(self._common(has_identities, parameters, form_key))
        self._fromdict(j)

    tags = property(lambda self: self._j["tags"])
    index = property(lambda self: self._j["index"])
    contents = property(lambda self: [Form.fromjson(json.dumps(c)) for c in self._j["contents"]])
    numcontents = property(lambda self: len(self._j["contents"]))

    def content(self, i):
        return Form.fromjson(json.dumps(self._j["contents"][i]))


class RecordForm(Form):
    def __init__(self, contents, keys=None, has_identities=False, parameters=None, form_key=None):
        if isinstance(contents, dict):
            cj = {str(k): _formjson(v) for k, v in contents.items()}
        elif keys is not None:
            keys = [str(k) for k in keys]
            contents = list(contents)
            if len(keys) != len(contents):
                raise ValueError("if provided, 'keys' must have the same length as 'types'")
            cj = {k: _formjson(v) for k, v in zip(keys, contents)}
        else:
            cj = [_formjson(v) for v in contents]
        j = {"class": "RecordArray", "contents": cj}
        j.update(self._common(has_identities, parameters, form_key))
        self._fromdict(j)

    @property
    def contents(self):
        # as the binding: always a dict; tuples get the keys "0", "1", ...
        c = self._j["contents"]
        if isinstance(c, dict):
            items = list(c.items())
        else:
            items = [(str(i), v) for i, v in enumerate(c)]
        # the binding returns a std::map<std::string, FormPtr>: iteration order is by key bytes
        items.sort(key=lambda kv: kv[0].encode("utf-8", "surrogateescape"))
        return {k: Form.fromjson(json.dumps(v)) for k, v in items}

    istuple = property(lambda self: isinstance(self._j["contents"], list))
    numfields = property(lambda self: len(self._j["contents"]))

    def fieldindex(self, key):
        return _call("akb_form_call", self._h, b"fieldindex", strs=[key]).i[0]

    def key(self, fieldindex):
        return _call("akb_form_call", self._h, b"key", ints=[fieldindex]).s[0].decode("utf-8", "surrogateescape")

    def haskey(self, key):
        return bool(_call("akb_form_call", self._h, b"haskey", strs=[key]).i[0])

    def keys(self):
        return [s.decode("utf-8", "surrogateescape") for s in _call("akb_form_call", self._h, b"keys").s]

    def content(self, where):
        c = self._j["contents"]
        if isinstance(where, str):
            if isinstance(c, dict):
                return Form.fromjson(json.dumps(c[where]))
            return Form.fromjson(json.dumps(c[int(where)]))
        vals = list(c.values()) if isinstance(c, dict) else c
        return Form.fromjson(json.dumps(vals[int(where)]))

    def items(self):
        return list(zip(self.keys(), self.values()))

    def values(self):
        c = self._j["contents"]
        vals = list(c.values()) if isinstance(c, dict) else c
        return [Form.fromjson(json.dumps(v)) for v in vals]


class VirtualForm(Form):
    def __init__(self, form, has_length, has_identities=False, parameters=None, form_key=None):
        j = {"class": "VirtualArray", "form": None if form is None else _formjson(form), "has_length": bool(has_length)}
        j.update(self._common(has_identities, parameters, form_key))
        self._fromdict(j)

    has_form = property(lambda self: self._j.get("form") is not None)
    form = property(lambda self: None if self._j.get("form") is None else Form.fromjson(json.dumps(self._j["form"])))
    has_length = property(lambda self: self._j["has_length"])


def _form_class_of(j):
    c = j["class"]
    if c == "NumpyArray":
        return NumpyForm
    if c == "EmptyArray":
        return EmptyForm
    if c.startswith("ListOffsetArray"):
        return ListOffsetForm
    if c.startswith("ListArray"):
        return ListForm
    if c == "RegularArray":
        return RegularForm
    if c.startswith("IndexedOptionArray"):
        return IndexedOptionForm
    if c.startswith("IndexedArray"):
        return IndexedForm
    if c == "ByteMaskedArray":
        return ByteMaskedForm
    if c == "BitMaskedArray":
        return BitMaskedForm
    if c == "UnmaskedArray":
        return UnmaskedForm
    if c.startswith("UnionArray"):
        return UnionForm
    if c == "RecordArray":
        return RecordForm
    if c == "VirtualArray":
        return VirtualForm
    raise ValueError("unknown form class %r" % c)


# hook into ext
ext._type_wrap = Type._wrap
ext._form_wrap = Form._wrap
