"""ctypes mirror of ak.forth.ForthMachine32/64 over bridge/akb_forth.cpp (the pybind11 module cannot be built).

The class follows src/python/forth.cpp: same constructor arguments, run = begin + resume is available as
``run_py`` next to the C++ ``run(inputs)``, errors come back as the util::ForthError enum value (the
non-throwing C++ API), ``maybe_throw`` reproduces the message the Python binding would raise.
"""
import ctypes
import struct

import numpy as np

import akb

ERRORS = ["none", "not_ready", "is_done", "user_halt", "recursion_depth_exceeded", "stack_underflow",
          "stack_overflow", "read_beyond", "seek_beyond", "skip_beyond", "rewind_beyond", "division_by_zero",
          "varint_too_big"]
ERR = {name: k for k, name in enumerate(ERRORS)}

DTYPES = ["bool", "int8", "int16", "int32", "int64", "uint8", "uint16", "uint32", "uint64", "float32", "float64"]
DTYPE_CODE = {name: k for k, name in enumerate(DTYPES)}
ITEMSIZE = [1, 1, 2, 4, 8, 1, 2, 4, 8, 4, 8]

_L = None


def _lib():
    global _L
    if _L is None:
        L = akb.lib()
        vp, i64, dbl, cp = ctypes.c_void_p, ctypes.c_int64, ctypes.c_double, ctypes.c_char_p
        pi64 = ctypes.POINTER(ctypes.c_int64)
        L.akb_forth_new.argtypes = [i64, cp, i64, i64, i64, i64, dbl, ctypes.POINTER(vp)]
        L.akb_forth_new.restype = ctypes.c_int
        L.akb_forth_free.argtypes = [vp]
        L.akb_forth_free.restype = None
        L.akb_forth_set_inputs.argtypes = [vp, i64, ctypes.POINTER(cp), ctypes.POINTER(cp), pi64]
        L.akb_forth_set_inputs.restype = ctypes.c_int
        for name in ("akb_forth_begin", "akb_forth_reset", "akb_forth_variables", "akb_forth_variable_index",
                     "akb_forth_outputs", "akb_forth_output_index", "akb_forth_decompiled", "akb_forth_source",
                     "akb_forth_bytecodes", "akb_forth_dictionary", "akb_forth_current_instruction",
                     "akb_forth_config", "akb_forth_input_bytes"):
            getattr(L, name).argtypes = [vp]
            getattr(L, name).restype = ctypes.c_int
        for name in ("akb_forth_run", "akb_forth_step", "akb_forth_resume"):
            getattr(L, name).argtypes = [vp, pi64]
            getattr(L, name).restype = ctypes.c_int
        L.akb_forth_call.argtypes = [vp, cp, pi64]
        L.akb_forth_call.restype = ctypes.c_int
        L.akb_forth_maybe_throw.argtypes = [vp, i64]
        L.akb_forth_maybe_throw.restype = ctypes.c_int
        L.akb_forth_status.argtypes = [vp, pi64]
        L.akb_forth_status.restype = None
        L.akb_forth_count_reset.argtypes = [vp]
        L.akb_forth_count_reset.restype = None
        L.akb_forth_stack.argtypes = [vp, pi64, i64]
        L.akb_forth_stack.restype = i64
        L.akb_forth_input_position.argtypes = [vp, cp, pi64]
        L.akb_forth_input_position.restype = ctypes.c_int
        L.akb_forth_input_must_be_writable.argtypes = [vp, cp, pi64]
        L.akb_forth_input_must_be_writable.restype = ctypes.c_int
        L.akb_forth_string_at.argtypes = [vp, i64]
        L.akb_forth_string_at.restype = ctypes.c_int
        L.akb_forth_snapshot.argtypes = [vp, pi64, i64]
        L.akb_forth_snapshot.restype = i64
        _L = L
    return _L


class ForthMachine(object):
    """One ForthMachine32 (bits=32) or ForthMachine64 (bits=64)."""

    def __init__(self, source, bits=64, stack_size=1024, recursion_depth=1024, output_initial_size=1024,
                 output_resize_factor=1.5):
        L = _lib()
        self._L = L
        self._h = None
        self.bits = bits
        src = source if isinstance(source, bytes) else source.encode("utf-8", "surrogateescape")
        h = ctypes.c_void_p()
        if L.akb_forth_new(1 if bits == 64 else 0, src, len(src), stack_size, recursion_depth,
                           output_initial_size, output_resize_factor, ctypes.byref(h)) != 0:
            akb._raise()
        self._h = h
        self._err = ctypes.c_int64(0)
        self._status = (ctypes.c_int64 * 8)()
        self._snapcap = 256
        self._snap = (ctypes.c_int64 * self._snapcap)()
        self._stk = None
        self.input_names = []

    def close(self):
        if self._h is not None:
            self._L.akb_forth_free(self._h)
            self._h = None

    def __del__(self):
        try:
            self.close()
        except Exception:
            pass

    # ---------------------------------------------------------------- execution
    def set_inputs(self, inputs):
        """inputs: dict or list of (name, bytes); copied into the facade, re-copied at every begin/run."""
        items = list(inputs.items()) if isinstance(inputs, dict) else list(inputs)
        n = len(items)
        names = (ctypes.c_char_p * max(n, 1))(*[k.encode() for k, _ in items])
        bufs = (ctypes.c_char_p * max(n, 1))(*[bytes(b) for _, b in items])
        lens = (ctypes.c_int64 * max(n, 1))(*[len(b) for _, b in items])
        if self._L.akb_forth_set_inputs(self._h, n, names, bufs, lens) != 0:
            akb._raise()
        self.input_names = [k for k, _ in items]

    def begin(self, inputs=None):
        if inputs is not None:
            self.set_inputs(inputs)
        if self._L.akb_forth_begin(self._h) != 0:
            akb._raise()

    def reset(self):
        if self._L.akb_forth_reset(self._h) != 0:
            akb._raise()

    def run(self, inputs=None):
        """C++ run(inputs) = begin + internal_run; returns the error code."""
        if inputs is not None:
            self.set_inputs(inputs)
        if self._L.akb_forth_run(self._h, ctypes.byref(self._err)) != 0:
            akb._raise()
        return self._err.value

    def run_py(self, inputs=None):
        """What the Python binding's run does: begin(inputs) then resume()."""
        self.begin(inputs)
        return self.resume()

    def step(self):
        if self._L.akb_forth_step(self._h, ctypes.byref(self._err)) != 0:
            akb._raise()
        return self._err.value

    def resume(self):
        if self._L.akb_forth_resume(self._h, ctypes.byref(self._err)) != 0:
            akb._raise()
        return self._err.value

    def call(self, word):
        if self._L.akb_forth_call(self._h, word.encode(), ctypes.byref(self._err)) != 0:
            akb._raise()
        return self._err.value

    def maybe_throw(self, err):
        """Raises BridgeError(ValueError, message) for an error state, like the Python binding with all
        raise_* flags on."""
        if self._L.akb_forth_maybe_throw(self._h, err) != 0:
            akb._raise()

    # ---------------------------------------------------------------- observation
    def status(self):
        self._L.akb_forth_status(self._h, self._status)
        s = self._status
        return {"is_ready": bool(s[0]), "is_done": bool(s[1]), "current_bytecode_position": s[2],
                "current_recursion_depth": s[3], "count_instructions": s[4], "count_reads": s[5],
                "count_writes": s[6], "stack_depth": s[7]}

    def status_raw(self):
        self._L.akb_forth_status(self._h, self._status)
        return tuple(self._status)

    @property
    def is_ready(self):
        return bool(self.status_raw()[0])

    @property
    def is_done(self):
        return bool(self.status_raw()[1])

    @property
    def count_instructions(self):
        return self.status_raw()[4]

    def count_reset(self):
        self._L.akb_forth_count_reset(self._h)

    @property
    def stack(self):
        cap = 64
        while True:
            buf = (ctypes.c_int64 * cap)()
            n = self._L.akb_forth_stack(self._h, buf, cap)
            if n <= cap:
                return list(buf[:n])
            cap = n

    def _res(self, rc):
        if rc != 0:
            akb._raise()
        return akb._collect()

    @property
    def variables(self):
        r = self._res(self._L.akb_forth_variables(self._h))
        return {k.decode(): v for k, v in zip(r.s, r.i)}

    @property
    def variable_index(self):
        return [s.decode() for s in self._res(self._L.akb_forth_variable_index(self._h)).s]

    def input_position(self, name):
        out = ctypes.c_int64(0)
        if self._L.akb_forth_input_position(self._h, name.encode(), ctypes.byref(out)) != 0:
            akb._raise()
        return out.value

    def input_must_be_writable(self, name):
        out = ctypes.c_int64(0)
        if self._L.akb_forth_input_must_be_writable(self._h, name.encode(), ctypes.byref(out)) != 0:
            akb._raise()
        return bool(out.value)

    def input_bytes(self):
        r = self._res(self._L.akb_forth_input_bytes(self._h))
        return dict(zip(self.input_names, r.s))

    @property
    def outputs(self):
        """name -> (dtype name, numpy array copy)"""
        r = self._res(self._L.akb_forth_outputs(self._h))
        out = {}
        for k in range(len(r.s) // 2):
            name = r.s[2 * k].decode()
            code, length, blen = r.i[3 * k: 3 * k + 3]
            if length != blen:
                raise AssertionError("toNumpyArray length %d != ForthOutputBuffer::len %d" % (length, blen))
            out[name] = (DTYPES[code], np.frombuffer(r.s[2 * k + 1], dtype=np.dtype(DTYPES[code])).copy())
        return out

    @property
    def output_index(self):
        return [s.decode() for s in self._res(self._L.akb_forth_output_index(self._h)).s]

    @property
    def decompiled(self):
        return self._res(self._L.akb_forth_decompiled(self._h)).s[0].decode("utf-8", "surrogateescape")

    @property
    def source(self):
        return self._res(self._L.akb_forth_source(self._h)).s[0].decode("utf-8", "surrogateescape")

    @property
    def bytecodes(self):
        """list of segments (lists of int)"""
        r = self._res(self._L.akb_forth_bytecodes(self._h))
        offsets, content = r.x[0].tolist(), r.x[1].tolist()
        return [content[offsets[k]:offsets[k + 1]] for k in range(len(offsets) - 1)]

    @property
    def dictionary(self):
        return [s.decode() for s in self._res(self._L.akb_forth_dictionary(self._h)).s]

    @property
    def current_instruction(self):
        return self._res(self._L.akb_forth_current_instruction(self._h)).s[0].decode()

    def string_at(self, index):
        return self._res(self._L.akb_forth_string_at(self._h, index)).s[0].decode("utf-8", "surrogateescape")

    @property
    def config(self):
        r = self._res(self._L.akb_forth_config(self._h))
        return {"stack_max_depth": r.i[0], "recursion_max_depth": r.i[1], "output_initial_size": r.i[2],
                "output_resize_factor": r.d[0]}

    def snapshot(self):
        """The observable state as a tuple of int64 words (see akb_forth_snapshot)."""
        n = self._L.akb_forth_snapshot(self._h, self._snap, self._snapcap)
        if n < 0:
            akb._raise()
        if n > self._snapcap:
            self._snapcap = 2 * n
            self._snap = (ctypes.c_int64 * self._snapcap)()
            n = self._L.akb_forth_snapshot(self._h, self._snap, self._snapcap)
        return tuple(self._snap[:n])


def decode_snapshot(words):
    """Inverse of akb_forth_snapshot, for messages."""
    w = list(words)
    p = 0
    out = {"is_ready": bool(w[0]), "is_done": bool(w[1])}
    n = w[2]
    out["stack"] = w[3:3 + n]
    p = 3 + n
    n = w[p]
    out["variables"] = w[p + 1:p + 1 + n]
    p += 1 + n
    n = w[p]
    out["input_positions"] = w[p + 1:p + 1 + n]
    p += 1 + n
    nout = w[p]
    p += 1
    outs = []
    for _ in range(nout):
        code, length = w[p], w[p + 1]
        p += 2
        nbytes = length * ITEMSIZE[code]
        nwords = (nbytes + 7) // 8
        raw = struct.pack("<%dq" % nwords, *w[p:p + nwords])[:nbytes]
        p += nwords
        outs.append((DTYPES[code], np.frombuffer(raw, dtype=np.dtype(DTYPES[code])).tolist()))
    out["outputs"] = outs
    return out
