"""Makes ``import awkward`` load the repository's own Python layer (/repo/src/awkward, or $AKV_REPO) on
top of the mirror of ``awkward._ext`` and the freshly built shared libraries.

Harness-side environment adapters (nothing in /repo is touched), see DESIGN.md section 2 "Trusted base":
 * a meta-path finder that serves ``awkward._ext`` from the mirror;
 * a ``pkg_resources.resource_filename`` stand-in (removed from current setuptools) that points
   ``_cpu_kernels.py`` / ``_libawkward.py`` at the libraries built by tools/build.py.
"""
import importlib.abc
import importlib.machinery
import os
import sys
import types
import warnings

HERE = os.path.dirname(os.path.abspath(__file__))
VERIF = os.path.dirname(HERE)
for sub in ("mirror", "bridge", "tools"):
    p = os.path.join(VERIF, sub)
    if p not in sys.path:
        sys.path.insert(0, p)

_installed = False


def _stub(name):
    def init(self, *a, **k):
        raise NotImplementedError("awkward._ext.%s is not available in the verification mirror" % name)
    return type(name, (object,), {"__init__": init})


def build_ext_module():
    import akb
    import ext
    import formtypes
    import builder
    m = types.ModuleType("awkward._ext")
    m.__version__ = "1.4.0"
    m.startup = lambda: None
    for name in ("Index8", "IndexU8", "Index32", "IndexU32", "Index64", "Content", "EmptyArray", "NumpyArray",
                 "ListOffsetArray32", "ListOffsetArrayU32", "ListOffsetArray64", "ListArray32", "ListArrayU32", "ListArray64",
                 "RegularArray", "IndexedArray32", "IndexedArrayU32", "IndexedArray64", "IndexedOptionArray32",
                 "IndexedOptionArray64", "ByteMaskedArray", "BitMaskedArray", "UnmaskedArray", "UnionArray8_32",
                 "UnionArray8_U32", "UnionArray8_64", "RecordArray", "Record", "Iterator"):
        setattr(m, name, getattr(ext, name))
    m._PersistentSharedPtr = ext.PersistentSharedPtr
    m.ArrayBuilder = builder.ArrayBuilder
    for name in ("Type", "ArrayType", "PrimitiveType", "RegularType", "UnknownType", "ListType", "OptionType", "UnionType",
                 "RecordType", "Form", "BitMaskedForm", "ByteMaskedForm", "EmptyForm", "IndexedForm", "IndexedOptionForm",
                 "ListForm", "ListOffsetForm", "NumpyForm", "RecordForm", "RegularForm", "UnionForm", "UnmaskedForm",
                 "VirtualForm"):
        setattr(m, name, getattr(formtypes, name))
    for name in ("Identities32", "Identities64", "LayoutBuilder"):
        setattr(m, name, _stub(name))

    class kernel_lib(object):
        cpu = "cpu"
        cuda = "cuda"
    m.kernel_lib = kernel_lib
    try:
        import virtual
        for name in ("VirtualArray", "ArrayGenerator", "SliceGenerator", "ArrayCache", "IrregularlyPartitionedArray"):
            setattr(m, name, getattr(virtual, name))
    except ImportError:
        m.VirtualArray = ext.VirtualArray
        for name in ("ArrayGenerator", "SliceGenerator", "ArrayCache", "IrregularlyPartitionedArray"):
            setattr(m, name, _stub(name))
    try:
        import forth
        m.ForthMachine32 = forth.ForthMachine32
        m.ForthMachine64 = forth.ForthMachine64
    except Exception:
        m.ForthMachine32 = _stub("ForthMachine32")
        m.ForthMachine64 = _stub("ForthMachine64")
    try:
        import jsonio
        m.fromjson = jsonio.fromjson
        m.fromjsonfile = jsonio.fromjsonfile
    except ImportError:
        m.fromjson = _stub("fromjson")
        m.fromjsonfile = _stub("fromjsonfile")
    return m


class _Loader(importlib.abc.Loader):
    def create_module(self, spec):
        return build_ext_module()

    def exec_module(self, module):
        pass


class _Finder(importlib.abc.MetaPathFinder):
    def find_spec(self, name, path, target=None):
        if name == "awkward._ext":
            return importlib.machinery.ModuleSpec(name, _Loader())
        return None


def install():
    """Idempotent. After this, ``import awkward`` gives awkward 1.4.0 from the repository sources."""
    global _installed
    if _installed:
        return sys.modules.get("awkward")
    import akb
    import build
    info = akb.info()
    root = build.repo_root()
    if "awkward" in sys.modules:
        raise RuntimeError("another awkward is already imported")
    # pkg_resources stand-in
    pr = sys.modules.get("pkg_resources")
    if pr is None:
        pr = types.ModuleType("pkg_resources")
        sys.modules["pkg_resources"] = pr

    def resource_filename(pkg, name):
        base = os.path.basename(name)
        if base.startswith("libawkward-cpu-kernels"):
            return info["libkernels"]
        if base.startswith("libawkward"):
            return info["libawkward"]
        return os.path.join(root, "src", pkg.replace(".", os.sep), name)
    pr.resource_filename = resource_filename
    sys.meta_path.insert(0, _Finder())
    src = os.path.join(root, "src")
    if src not in sys.path:
        sys.path.insert(0, src)
    warnings.filterwarnings("ignore", category=DeprecationWarning)
    warnings.filterwarnings("ignore", category=FutureWarning)
    import awkward
    _installed = True
    return awkward
