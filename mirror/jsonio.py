"""Mirror of awkward._ext.fromjson / fromjsonfile (src/python/io.cpp)."""
import ctypes

import akb
import ext
from ext import _translate

_ready = False


def _lib():
    global _ready
    L = akb.lib()
    if not _ready:
        L.akb_fromjson.argtypes = [ctypes.POINTER(akb.AkbArgs)]
        L.akb_fromjson.restype = ctypes.c_int
        _ready = True
    return L


def _call(source, nan_string, infinity_string, minus_infinity_string, initial, resize, buffersize, usefile):
    L = _lib()
    if isinstance(source, str):
        source = source.encode("utf-8", "surrogateescape")
    strs = [source, nan_string or "", infinity_string or "", minus_infinity_string or ""]
    ints = [int(initial), int(buffersize), int(nan_string is not None), int(infinity_string is not None),
            int(minus_infinity_string is not None), int(usefile)]
    a, keep = akb.pack(ints, [float(resize)], strs, (), ())
    if L.akb_fromjson(ctypes.byref(a)) != 0:
        try:
            akb._raise()
        except akb.BridgeError as err:
            raise _translate(err) from None
    return ext._box1(akb._collect())


def fromjson(source, nan_string=None, infinity_string=None, minus_infinity_string=None, initial=1024, resize=1.5,
             buffersize=65536):
    return _call(source, nan_string, infinity_string, minus_infinity_string, initial, resize, buffersize, False)


def fromjsonfile(source, nan_string=None, infinity_string=None, minus_infinity_string=None, initial=1024, resize=1.5,
                 buffersize=65536):
    with open(source, "rb") as f:
        text = f.read()
    return _call(text, nan_string, infinity_string, minus_infinity_string, initial, resize, buffersize, True)


def fromjson_filelike(text, buffersize, **kw):
    """FromJsonFile over an in-memory FILE* (used by C15 to enumerate read-buffer sizes)."""
    return _call(text, kw.get("nan_string"), kw.get("infinity_string"), kw.get("minus_infinity_string"),
                 kw.get("initial", 1024), kw.get("resize", 1.5), buffersize, True)
