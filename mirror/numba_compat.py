"""Harness-side compatibility for the numba/llvmlite installed here (0.67 / 0.49) with awkward 1.4.0's lowering, which
was written for numba 0.5x:

* ``numba.core.cgutils.pointer_add`` used to be ptrtoint/add/inttoptr and therefore accepted an *integer* address
  (awkward stores array addresses as intp); the current one bitcasts, which only works on pointers.  The legacy
  definition is restored.
* ``llvmlite.llvmpy.core.Type`` (removed from llvmlite) is used by awkward's builder lowering for
  ``Type.pointer(Type.int(8))``; a three-line stand-in over llvmlite.ir is installed.

* numba >= 0.52 hands *non-literal* argument types to a typing template first unless the template declares
  ``prefer_literal = True``; awkward 1.4.0 (numba 0.50) relied on literals coming first for ``array["field"]`` /
  ``record["field"]``.  ``after_register()`` sets that attribute on awkward's three getitem templates.

Nothing in /repo is changed; these are the only adaptations, and they are listed in C20's assumptions."""
import sys
import types


def apply():
    import numba.core.cgutils as cgutils
    import llvmlite.ir as ir

    intp_t = cgutils.intp_t

    def pointer_add(builder, ptr, offset, return_type=None):
        intptr = builder.ptrtoint(ptr, intp_t) if isinstance(ptr.type, ir.PointerType) else ptr
        if isinstance(offset, int):
            offset = intp_t(offset)
        intptr = builder.add(intptr, offset)
        return builder.inttoptr(intptr, return_type or ptr.type)

    cgutils.pointer_add = pointer_add

    if "llvmlite.llvmpy.core" not in sys.modules:
        import llvmlite

        class Type(object):
            @staticmethod
            def int(bits=32):
                return ir.IntType(bits)

            @staticmethod
            def pointer(pointee, addrspace=0):
                return ir.PointerType(pointee, addrspace)

        llvmpy = types.ModuleType("llvmlite.llvmpy")
        core = types.ModuleType("llvmlite.llvmpy.core")
        core.Type = Type
        llvmpy.core = core
        sys.modules["llvmlite.llvmpy"] = llvmpy
        sys.modules["llvmlite.llvmpy.core"] = core
        llvmlite.llvmpy = llvmpy


def after_register(ak):
    """call once awkward's numba extension is registered (ak._connect._numba.register())"""
    ak._connect._numba.register_and_check()
    av = ak._connect._numba.arrayview
    for name in ("type_getitem", "type_getitem_record", "type_getitem_partitioned"):
        cls = getattr(av, name, None)
        if cls is not None:
            cls.prefer_literal = True
