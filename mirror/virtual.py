"""Mirror of VirtualArray / ArrayGenerator / SliceGenerator / ArrayCache / IrregularlyPartitionedArray
(src/python/virtual.cpp and partition.cpp are uncompilable here).

The C++ VirtualArray, ArrayGenerator::generate_and_check, SliceGenerator and IrregularlyPartitionedArray are the
real ones; only the two Python-facing subclasses (PyArrayGenerator, PyArrayCache) are replaced by callback-driven
C++ subclasses in bridge/akb_virtual.cpp, whose answers come from the Python objects below -- or from an
explorer's script (C18)."""
import ctypes
import json
import weakref

import numpy as np

import akb
import ext
import formtypes
from ext import _translate, _params_in, _box, _box1

_ready = False
_GENERATORS = {}      # id -> ArrayGenerator (strong: C++ objects may call back at any time)
_CACHES = {}          # id -> ArrayCache
_KEEP = {}            # handle value -> layout object handed to C++ by a callback (keeps the handle alive)
_pending = [None]     # exception raised inside a callback, re-raised by the outer call
_next_id = [0]

_GEN_CB = ctypes.CFUNCTYPE(ctypes.c_void_p, ctypes.c_int64)
_GET_CB = ctypes.CFUNCTYPE(ctypes.c_void_p, ctypes.c_int64, ctypes.c_char_p)
_SET_CB = ctypes.CFUNCTYPE(ctypes.c_int, ctypes.c_int64, ctypes.c_char_p, ctypes.c_void_p)
_BRK_CB = ctypes.CFUNCTYPE(ctypes.c_int, ctypes.c_int64)


def _generate_cb(gid):
    try:
        gen = _GENERATORS[gid]
        layout = gen._generate_layout()
        _KEEP[layout._h] = layout
        return layout._h
    except BaseException as err:  # noqa: B902 - must not propagate through C++
        _pending[0] = err
        return None


def _cache_get_cb(cid, key):
    try:
        cache = _CACHES[cid]
        try:
            out = cache._get(key.decode("utf-8", "surrogateescape"))
        except CacheBroken as err:
            # PyArrayCache::get catches only Python errors; the std::runtime_error of a dead weak reference propagates
            _pending[0] = err
            return 1
        if out is None:
            return None
        _KEEP[out._h] = out
        return out._h
    except BaseException:  # noqa: B902 - PyArrayCache::get swallows every Python error as a miss
        return None


def _cache_set_cb(cid, key, newhandle):
    try:
        cache = _CACHES[cid]
        res_cls = akb.lib().akb_call  # noqa: F841
        layout = _wrap_new_handle(newhandle)
        cache._set(key.decode("utf-8", "surrogateescape"), layout)
        return 0
    except BaseException as err:  # noqa: B902
        _pending[0] = err
        return 1


def _cache_broken_cb(cid):
    try:
        return 1 if _CACHES[cid].is_broken else 0
    except BaseException:  # noqa: B902
        return 1


_cbs = (_GEN_CB(_generate_cb), _GET_CB(_cache_get_cb), _SET_CB(_cache_set_cb), _BRK_CB(_cache_broken_cb))


def _wrap_new_handle(h):
    """Wrap a fresh AkbContent* (ownership passes to Python) in the right mirror class."""
    a, keep = akb.pack()
    L = _lib()
    if L.akb_call(h, b"classname", ctypes.byref(a)) != 0:
        akb._raise()
    cls = akb._collect().s[0].decode()
    return _box(h, cls)


def _lib():
    global _ready
    L = akb.lib()
    if not _ready:
        L.akb_set_callbacks.argtypes = [_GEN_CB, _GET_CB, _SET_CB, _BRK_CB]
        L.akb_set_callbacks.restype = None
        L.akb_set_callbacks(*_cbs)
        for name in ("akb_virtual_new", "akb_partitioned_new"):
            getattr(L, name).argtypes = [ctypes.POINTER(akb.AkbArgs)]
            getattr(L, name).restype = ctypes.c_int
        for name in ("akb_virtual_call", "akb_partitioned_call"):
            getattr(L, name).argtypes = [ctypes.c_void_p, ctypes.c_char_p, ctypes.POINTER(akb.AkbArgs)]
            getattr(L, name).restype = ctypes.c_int
        L.akb_partitioned_free.argtypes = [ctypes.c_void_p]
        L.akb_partitioned_free.restype = None
        _ready = True
    return L


def _invoke(fn, *args):
    rc = fn(*args)
    if rc != 0:
        err = _pending[0]
        _pending[0] = None
        if err is not None:
            raise err
        try:
            akb._raise()
        except akb.BridgeError as e:
            raise _translate(e) from None
    _pending[0] = None
    return akb._collect()


def _translate_with_pending(err):
    pend = _pending[0]
    if pend is not None and "python callback raised" in err.msg:
        _pending[0] = None
        return pend
    return _translate_plain(err)


_translate_plain = ext._translate


def _patched_translate(err):
    return _translate_with_pending(err)


ext._translate = _patched_translate


def reset():
    """Forget all generators/caches/kept handles (between explorer executions)."""
    _KEEP.clear()
    _pending[0] = None


###################################################################### generators and caches

class CacheBroken(RuntimeError):
    """std::runtime_error thrown by PyArrayCache::mutablemapping() when the weak reference is dead."""


class ArrayGenerator(object):
    def __init__(self, callable, args=(), kwargs=None, form=None, length=None):
        if not hasattr(callable, "__call__"):
            raise TypeError("callable must be callable")
        self._callable = callable
        self._args = tuple(args)
        self._kwargs = dict(kwargs or {})
        if form is not None and not isinstance(form, formtypes.Form):
            raise TypeError("form must be a Form or None")
        self._form = form
        if length is not None:
            length = int(length)
            if length < 0:
                raise ValueError("ArrayGenerator 'length' must be a non-negative int or None")
        self._length = length
        _next_id[0] += 1
        self._id = _next_id[0]
        _GENERATORS[self._id] = self

    callable = property(lambda self: self._callable)
    args = property(lambda self: self._args)
    kwargs = property(lambda self: self._kwargs)
    form = property(lambda self: self._form)
    length = property(lambda self: self._length)

    @property
    def caches(self):
        out = []
        for a in self._args:
            if isinstance(a, ArrayCache) and not any(a is x for x in out):
                out.append(a)
        return out

    def _generate_layout(self):
        # PORT of PyArrayGenerator::generate: callable(*args, **kwargs) -> ak.to_layout(out, False, False)
        import sys
        out = self._callable(*self._args, **self._kwargs)
        ak = sys.modules.get("awkward")
        if ak is not None:
            out = ak.to_layout(out, False, False)
        if not isinstance(out, ext.Content):
            raise TypeError("generator must return a layout")
        return out

    def __call__(self):
        # generate_and_check through a throw-away VirtualArray without cache
        v = VirtualArray(self, None)
        return v.array

    def __repr__(self):
        return "<ArrayGenerator f=%r args=%r kwargs=%r/>" % (self._callable, self._args, self._kwargs)

    def with_form(self, form):
        return ArrayGenerator(self._callable, self._args, self._kwargs, form, self._length)

    def with_length(self, length):
        return ArrayGenerator(self._callable, self._args, self._kwargs, self._form, length)

    def with_callable(self, callable):
        return ArrayGenerator(callable, self._args, self._kwargs, self._form, self._length)

    def with_args(self, args):
        return ArrayGenerator(self._callable, args, self._kwargs, self._form, self._length)

    def with_kwargs(self, kwargs):
        return ArrayGenerator(self._callable, self._args, kwargs, self._form, self._length)


class SliceGenerator(object):
    def __init__(self, content, slice, form=None, length=None):
        if not isinstance(content, ext.Content):
            raise TypeError("content must be a layout")
        self._content = content
        self._slice = slice
        self._form = form
        self._length = None if length is None else int(length)

    content = property(lambda self: self._content)
    form = property(lambda self: self._form)
    length = property(lambda self: self._length)
    caches = property(lambda self: [])

    def __call__(self):
        return VirtualArray(self, None).array

    def __repr__(self):
        return "<SliceGenerator slice=%r/>" % (self._slice,)

    def with_form(self, form):
        return SliceGenerator(self._content, self._slice, form, self._length)

    def with_length(self, length):
        return SliceGenerator(self._content, self._slice, self._form, length)


class ArrayCache(object):
    """PORT of PyArrayCache: holds the mapping by weak reference; a dead reference means 'broken'."""

    def __init__(self, mutablemapping):
        if mutablemapping is None:
            self._ref = None
        else:
            try:
                self._ref = weakref.ref(mutablemapping)
            except TypeError:
                # plain dict cannot be weakly referenced (pybind11 raises here as well)
                raise TypeError("cannot create weak reference to %r object" % type(mutablemapping).__name__)
        _next_id[0] += 1
        self._id = _next_id[0]
        _CACHES[self._id] = self

    @property
    def is_broken(self):
        if self._ref is None:
            return False
        return self._ref() is None

    @property
    def mutablemapping(self):
        if self._ref is None:
            return None
        out = self._ref()
        if out is None:
            raise CacheBroken("PyArrayCache has lost its weak reference to mapping")
        return out

    def _get(self, key):
        m = self.mutablemapping        # raises when the weak reference is dead (not swallowed by PyArrayCache::get)
        try:
            return m[key]
        except Exception:
            return None

    def _set(self, key, value):
        m = self.mutablemapping
        if m is not None:
            m[key] = value

    def __repr__(self):
        if self.is_broken:
            return "<ArrayCache is_broken=\"true\"/>"
        r = repr(self.mutablemapping)
        if len(r) > 50:
            r = r[:47] + "..."
        return "<ArrayCache mapping=\"%s\"/>" % r

    def __getitem__(self, key):
        return self.mutablemapping[key]

    def __setitem__(self, key, value):
        self.mutablemapping[key] = value

    def __delitem__(self, key):
        del self.mutablemapping[key]

    def __iter__(self):
        return iter(self.mutablemapping)

    def __len__(self):
        return len(self.mutablemapping)


###################################################################### VirtualArray

class VirtualArray(ext.Content):
    def __init__(self, generator, cache=None, cache_key=None, identities=None, parameters=None):
        if not isinstance(generator, (ArrayGenerator, SliceGenerator)):
            raise ValueError("VirtualArray 'generator' must be an ArrayGenerator or a SliceGenerator")
        if cache is not None and not isinstance(cache, ArrayCache):
            raise ValueError("VirtualArray 'cache' must be an ArrayCache or None")
        if cache_key is not None and not isinstance(cache_key, str):
            raise ValueError("VirtualArray 'cache_key' must be a string or None")
        p = _params_in(parameters)
        handles = []
        if generator.form is not None:
            handles.append(generator.form._h)
        strs = list(p)
        indexes = []
        if isinstance(generator, ArrayGenerator):
            ints = [len(p) // 2, generator._id, -1 if generator.length is None else generator.length,
                    0 if generator.form is None else 1, -1 if cache is None else cache._id, 0 if cache_key is None else 1, 0]
            if cache_key is not None:
                strs.append(cache_key)
        else:
            handles.append(generator.content._h)
            enc = ext._SliceEncoder()
            enc.toslice(generator._slice)
            if enc.handles or enc.strs:
                raise NotImplementedError("SliceGenerator with field or layout slices in the mirror")
            ints = [len(p) // 2, -1, -1 if generator.length is None else generator.length,
                    0 if generator.form is None else 1, -1 if cache is None else cache._id, 0 if cache_key is None else 1, 7]
            ints = ints + enc.ints
            indexes = enc.indexes
            if cache_key is not None:
                strs.append(cache_key)
        L = _lib()
        a, keep = akb.pack(ints, (), strs, handles, indexes)
        res = _invoke(L.akb_virtual_new, ctypes.byref(a))
        self._h = res.h[0]
        self._generator = generator
        self._cache = cache

    def _vcall(self, method):
        L = _lib()
        a, keep = akb.pack()
        return _invoke(L.akb_virtual_call, self._h, method, ctypes.byref(a))

    @property
    def generator(self):
        g = getattr(self, "_generator", None)
        if g is not None:
            return g
        res = self._vcall(b"generator")
        kind = res.s[0].decode()
        length = res.i[1]
        hasform = res.i[2]
        if kind == "ArrayGenerator":
            base = _GENERATORS[res.i[0]]
            form = formtypes.Form._wrap(res.h[0]) if hasform else None
            g = ArrayGenerator(base._callable, base._args, base._kwargs, form, None if length < 0 else length)
        else:
            content = _box(res.h[0], res.hc[0])
            form = formtypes.Form._wrap(res.h[1]) if hasform else None
            g = SliceGenerator.__new__(SliceGenerator)
            g._content, g._slice, g._form, g._length = content, res.s[1].decode(), form, None if length < 0 else length
        self._generator = g
        return g

    @property
    def cache(self):
        c = getattr(self, "_cache", None)
        if c is not None:
            return c
        cid = self._vcall(b"cache").i[0]
        return _CACHES.get(cid) if cid >= 0 else None

    @property
    def peek_array(self):
        res = self._vcall(b"peek_array")
        if res.hc[0] == "nullptr":
            return None
        return _box1(res)

    @property
    def array(self):
        return _box1(self._vcall(b"array"))

    @property
    def cache_key(self):
        return self._vcall(b"cache_key").s[0].decode("utf-8", "surrogateescape")

    ptr_lib = property(lambda self: "cpu")


ext.VirtualArray = VirtualArray
ext._CLASSES["VirtualArray"] = VirtualArray


def _caches_of(layout):
    """Content.caches: the ArrayCache objects of every VirtualArray in the tree (best effort, Python side)."""
    out = []

    def walk(node):
        if isinstance(node, VirtualArray):
            c = node.cache
            if c is not None and not any(c is x for x in out):
                out.append(c)
            for c2 in node.generator.caches:
                if not any(c2 is x for x in out):
                    out.append(c2)
            return
        for attr in ("content",):
            try:
                child = getattr(node, attr)
            except Exception:
                child = None
            if isinstance(child, ext.Content):
                walk(child)
        if isinstance(node, (ext.RecordArray, ext._UnionArray)):
            for child in node.contents:
                walk(child)
    walk(layout)
    return out


ext._caches_of = _caches_of


###################################################################### partitions

class IrregularlyPartitionedArray(object):
    def __init__(self, partitions, stops=None):
        partitions = list(partitions)
        for p in partitions:
            if not isinstance(p, ext.Content):
                raise TypeError("partitions must be layouts")
        ints = [0] if stops is None else [1] + [int(x) for x in stops]
        L = _lib()
        a, keep = akb.pack(ints, (), (), [p._h for p in partitions], ())
        res = _invoke(L.akb_partitioned_new, ctypes.byref(a))
        self._h = res.h[0]

    @classmethod
    def _wrap(cls, h):
        self = object.__new__(cls)
        self._h = h
        return self

    def __del__(self):
        h = getattr(self, "_h", None)
        if h is not None and akb is not None and akb._lib is not None:
            try:
                akb._lib.akb_partitioned_free(h)
            except Exception:
                pass
            self._h = None

    def _call(self, method, ints=()):
        L = _lib()
        a, keep = akb.pack(ints)
        return _invoke(L.akb_partitioned_call, self._h, method, ctypes.byref(a))

    def __repr__(self):
        return self._call(b"tostring").s[0].decode("utf-8", "surrogateescape")

    def __len__(self):
        return self._call(b"length").i[0]

    @property
    def partitions(self):
        res = self._call(b"partitions")
        return [_box(h, c) for h, c in zip(res.h, res.hc)]

    numpartitions = property(lambda self: self._call(b"numpartitions").i[0])
    stops = property(lambda self: list(self._call(b"stops").i))

    def partition(self, i):
        return _box1(self._call(b"partition", [i]))

    def start(self, i):
        return self._call(b"start", [i]).i[0]

    def stop(self, i):
        return self._call(b"stop", [i]).i[0]

    def partitionid_index_at(self, at):
        r = self._call(b"partitionid_index_at", [at]).i
        return (r[0], r[1])

    def repartition(self, stops):
        return IrregularlyPartitionedArray._wrap(self._call(b"repartition", [int(x) for x in stops]).h[0])

    def tojson(self, *args, **kwargs):
        names = ["pretty", "maxdecimals"]
        tofile = (len(args) > 0 and isinstance(args[0], str)) or "destination" in kwargs
        if tofile:
            names = ["destination", "pretty", "maxdecimals", "buffersize"]
        opts = {"pretty": False, "maxdecimals": None, "buffersize": 65536}
        for n, v in zip(names, args):
            opts[n] = v
        opts.update(kwargs)
        md = -1 if opts["maxdecimals"] is None else int(opts["maxdecimals"])
        if tofile:
            res = self._call(b"tojson_file", [int(bool(opts["pretty"])), md, int(opts["buffersize"])])
            with open(opts["destination"], "wb") as f:
                f.write(res.s[0])
            return None
        return self._call(b"tojson", [int(bool(opts["pretty"])), md]).s[0].decode("utf-8", "surrogateescape")

    def getitem_at(self, at):
        return _box1(self._call(b"getitem_at", [int(at)]))

    def getitem_range(self, start, stop, step):
        ints = [0 if start is None else 1, 0 if start is None else int(start), 0 if stop is None else 1,
                0 if stop is None else int(stop), 0 if step is None else 1, 0 if step is None else int(step)]
        return IrregularlyPartitionedArray._wrap(self._call(b"getitem_range", ints).h[0])

    def copy_to(self, ptr_lib):
        return self
