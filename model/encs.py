"""Physical encodings of typed values (DESIGN.md sections 3.1 and 4).

``canon(T, tvs)`` gives the canonical layout description of the array (T, tvs);
``encodings(T, tvs, k)`` yields every description with at most k non-canonical nodes.
Every encoding of one array must have the same logical value (checked by the self-test through
``layoutsem`` and used by C02 as the equivalence relation).
"""
import itertools

import numpy as np

from values import U, junk, can_junk

NP_LEAF = {"int": np.int64, "float": np.float64, "bool": np.bool_}


class Alt(object):
    __slots__ = ("name", "cost", "children", "make")

    def __init__(self, name, cost, children, make):
        self.name = name
        self.cost = cost
        self.children = children  # list of (T, tvs)
        self.make = make          # list of child descriptions -> description


def _offsets(lists):
    off = [0]
    for x in lists:
        off.append(off[-1] + len(x))
    return off


def _concat(lists):
    out = []
    for x in lists:
        out.extend(x)
    return out


def _str_bytes(v):
    return v.encode("utf-8", "surrogateescape") if isinstance(v, str) else bytes(v)


def alternatives(T, tvs, exotic=True):
    """All node-level encodings of the array (T, tvs); the first is canonical."""
    k = T[0]
    n = len(tvs)
    jc = [0]
    alts = []
    if k in NP_LEAF:
        dt = NP_LEAF[k]
        arr = np.array(tvs, dtype=dt)

        alts.append(Alt("numpy", 0, [], lambda ch, arr=arr: {"class": "NumpyArray", "array": arr}))
        if n > 0:
            def strided(ch, arr=arr, dt=dt):
                base = np.empty(2 * len(arr) + 1, dtype=dt)
                base[...] = np.array(977, dtype=np.int64).astype(dt)
                base[1::2] = arr
                return {"class": "NumpyArray", "array": base[1::2]}
            alts.append(Alt("numpy-strided", 1, [], strided))

            def reversed_(ch, arr=arr):
                base = np.array(arr[::-1])
                return {"class": "NumpyArray", "array": base[::-1]}
            alts.append(Alt("numpy-negstride", 1, [], reversed_))

            def offset(ch, arr=arr):
                return {"class": "NumpyArray", "array": arr, "_pad": {"byte": (arr.itemsize * 2, 3, 0xA5)}}
            alts.append(Alt("numpy-byteoffset", 1, [], offset))
        return alts
    if k in ("str", "bytes"):
        raw = [_str_bytes(v) for v in tvs]
        off = _offsets(raw)
        chars = np.frombuffer(b"".join(raw), dtype=np.uint8)
        lp = {"__array__": "string" if k == "str" else "bytestring"}
        cp = {"__array__": "char" if k == "str" else "byte"}

        def mk(cls, pre=b"", post=b""):
            def f(ch):
                c = np.frombuffer(pre + b"".join(raw) + post, dtype=np.uint8)
                o = np.array(off, dtype=np.int64) + len(pre)
                return {"class": cls, "offsets": o.astype(_W[cls[len("ListOffsetArray"):]]), "parameters": dict(lp),
                        "content": {"class": "NumpyArray", "array": c, "parameters": dict(cp)}}
            return f
        alts.append(Alt("string64", 0, [], mk("ListOffsetArray64")))
        alts.append(Alt("string32", 1, [], mk("ListOffsetArray32")))
        alts.append(Alt("stringU32-shift", 1, [], mk("ListOffsetArrayU32", b"ZZ", b"Z")))

        def as_listarray(ch):
            # storage order reversed, one junk byte between strings
            pieces, starts, stops = [], [0] * n, [0] * n
            pos = 0
            for i in reversed(range(n)):
                starts[i] = pos
                pieces.append(raw[i])
                pos += len(raw[i])
                stops[i] = pos
                pieces.append(b"#")
                pos += 1
            c = np.frombuffer(b"".join(pieces), dtype=np.uint8)
            return {"class": "ListArray64", "starts": np.array(starts, np.int64), "stops": np.array(stops, np.int64),
                    "parameters": dict(lp),
                    "content": {"class": "NumpyArray", "array": c, "parameters": dict(cp)}}
        alts.append(Alt("string-listarray", 1, [], as_listarray))
        return alts
    if k == "unknown":
        alts.append(Alt("empty", 0, [], lambda ch: {"class": "EmptyArray"}))
        return alts
    if k == "var":
        Tc = T[1]
        off = _offsets(tvs)
        flat = _concat(tvs)
        for cls, cost in (("ListOffsetArray64", 0), ("ListOffsetArray32", 1), ("ListOffsetArrayU32", 1)):
            alts.append(Alt(cls, cost, [(Tc, flat)],
                            lambda ch, cls=cls: {"class": cls, "offsets": np.array(off, _W[cls[len("ListOffsetArray"):]]),
                                                 "content": ch[0]}))
        for cls in ("ListArray64", "ListArray32", "ListArrayU32"):
            w = _W[cls[len("ListArray"):]]
            alts.append(Alt(cls + "-plain", 1, [(Tc, flat)],
                            lambda ch, cls=cls, w=w: {"class": cls, "starts": np.array(off[:-1], w),
                                                      "stops": np.array(off[1:], w), "content": ch[0]}))
        if can_junk(Tc):
            # shifted origin: one junk item before and after, offsets[0] != 0, and the offsets buffer itself
            # is a window of a longer buffer (Index::offset != 0)
            j1, j2 = junk(Tc, jc), junk(Tc, jc)
            alts.append(Alt("ListOffsetArray64-shift", 1, [(Tc, [j1] + flat + [j2])],
                            lambda ch: {"class": "ListOffsetArray64", "offsets": np.array(off, np.int64) + 1,
                                        "content": ch[0], "_pad": {"offsets": (2, 1, 0)}}))
            alts.append(Alt("ListOffsetArray32-shift", 1, [(Tc, [j1] + flat + [j2])],
                            lambda ch: {"class": "ListOffsetArray32", "offsets": np.array(off, np.int32) + 1,
                                        "content": ch[0]}))
            # ListArray with storage order reversed and a junk item between lists
            order = list(reversed(range(n)))
            content, starts, stops = [], [0] * n, [0] * n
            for i in order:
                starts[i] = len(content)
                content.extend(tvs[i])
                stops[i] = len(content)
                content.append(junk(Tc, jc))
            alts.append(Alt("ListArray64-permuted-gaps", 1, [(Tc, content)],
                            lambda ch, starts=starts, stops=stops: {
                                "class": "ListArray64", "starts": np.array(starts, np.int64),
                                "stops": np.array(stops, np.int64), "content": ch[0]}))
            alts.append(Alt("ListArrayU32-permuted-gaps", 1, [(Tc, content)],
                            lambda ch, starts=starts, stops=stops: {
                                "class": "ListArrayU32", "starts": np.array(starts, np.uint32),
                                "stops": np.array(stops, np.uint32), "content": ch[0],
                                "_pad": {"starts": (1, 0, 7), "stops": (0, 2, 7)}}))
        if exotic and any(len(x) == 0 for x in tvs):
            # documented as valid: an empty list may have any start == stop, even outside the content
            starts = [off[i] if len(tvs[i]) else len(flat) + 2 for i in range(n)]
            stops = [off[i + 1] if len(tvs[i]) else len(flat) + 2 for i in range(n)]
            alts.append(Alt("ListArray64-empty-anywhere", 1, [(Tc, flat)],
                            lambda ch, starts=starts, stops=stops: {
                                "class": "ListArray64", "starts": np.array(starts, np.int64),
                                "stops": np.array(stops, np.int64), "content": ch[0]}))
        # (a RegularArray is NOT an encoding of a var-type value: it changes the type, and out-of-range is
        # decided by the type for regular dimensions)
        _add_indexed(alts, T, tvs, jc)
        return alts
    if k == "reg":
        size, Tc = T[1], T[2]
        flat = _concat(tvs)
        alts.append(Alt("RegularArray", 0, [(Tc, flat)],
                        lambda ch: {"class": "RegularArray", "size": size, "zeros_length": n, "content": ch[0]}))
        if Tc[0] in NP_LEAF and size > 0:
            arr = np.array(tvs, dtype=NP_LEAF[Tc[0]]).reshape(n, size)
            alts.append(Alt("numpy-2d", 1, [], lambda ch, arr=arr: {"class": "NumpyArray", "array": arr}))
            if n > 0:
                alts.append(Alt("numpy-2d-fortran", 1, [],
                                lambda ch, arr=arr: {"class": "NumpyArray", "array": np.asfortranarray(arr)}))
        if size > 0 and can_junk(Tc):
            # content not a multiple of size: unreachable tail
            alts.append(Alt("RegularArray-tail", 1, [(Tc, flat + [junk(Tc, jc)] * (size - 1 if size > 1 else 0))],
                            lambda ch: {"class": "RegularArray", "size": size, "zeros_length": 0, "content": ch[0]}))
        _add_indexed(alts, T, tvs, jc)
        return alts
    if k == "opt":
        Tc = T[1]
        present = [v for v in tvs if v is not None]
        index, pos = [], 0
        for v in tvs:
            if v is None:
                index.append(-1)
            else:
                index.append(pos)
                pos += 1
        alts.append(Alt("IndexedOptionArray64", 0, [(Tc, present)],
                        lambda ch: {"class": "IndexedOptionArray64", "index": np.array(index, np.int64),
                                    "content": ch[0]}))
        alts.append(Alt("IndexedOptionArray32", 1, [(Tc, present)],
                        lambda ch: {"class": "IndexedOptionArray32", "index": np.array(index, np.int32),
                                    "content": ch[0]}))
        if can_junk(Tc):
            # reversed content, varied negative markers
            rindex = [(len(present) - 1 - i) if i >= 0 else -(2 + j % 3) for j, i in enumerate(index)]
            alts.append(Alt("IndexedOptionArray64-permuted", 1, [(Tc, list(reversed(present)) + [junk(Tc, jc)])],
                            lambda ch: {"class": "IndexedOptionArray64", "index": np.array(rindex, np.int64),
                                        "content": ch[0], "_pad": {"index": (1, 1, 0)}}))
            full = [v if v is not None else junk(Tc, jc) for v in tvs]
            for vw in (True, False):
                # the C++ layer reads a mask byte as "!= 0": non-zero bytes cycle through 1, 2, -1, 127
                mask, nz = [], 0
                for v in tvs:
                    if (v is not None) == vw:
                        mask.append((1, 2, -1, 127)[nz % 4])
                        nz += 1
                    else:
                        mask.append(0)
                alts.append(Alt("ByteMaskedArray-%s" % vw, 1, [(Tc, full + [junk(Tc, jc)])],
                                lambda ch, mask=mask, vw=vw: {"class": "ByteMaskedArray", "mask": np.array(mask, np.int8),
                                                              "valid_when": vw, "content": ch[0]}))
            for vw in (True, False):
                for lsb in (True, False):
                    bits = [(v is not None) == vw for v in tvs]
                    nbytes = (n + 7) // 8
                    # padding bits are garbage (ones for the first byte pattern, zeros otherwise)
                    padded = bits + [True] * (nbytes * 8 - n)
                    mask = []
                    for b in range(nbytes):
                        byte = 0
                        for j in range(8):
                            if padded[b * 8 + j]:
                                byte |= (1 << j) if lsb else (128 >> j)
                        mask.append(byte)
                    mask.append(0x5A)  # an extra unreachable mask byte
                    alts.append(Alt("BitMaskedArray-%s-%s" % (vw, "lsb" if lsb else "msb"), 1, [(Tc, full)],
                                    lambda ch, mask=mask, vw=vw, lsb=lsb: {
                                        "class": "BitMaskedArray", "mask": np.array(mask, np.uint8), "valid_when": vw,
                                        "lsb_order": lsb, "length": n, "content": ch[0]}))
        if all(v is not None for v in tvs):
            alts.append(Alt("UnmaskedArray", 1, [(Tc, list(tvs))],
                            lambda ch: {"class": "UnmaskedArray", "content": ch[0]}))
        return alts
    if k in ("rec", "tup"):
        if k == "rec":
            keys = [key for key, _ in T[1]]
            ts = [t for _, t in T[1]]
            cols = [[v[key] for v in tvs] for key in keys]
            name = T[2] if len(T) > 2 else None
        else:
            keys = None
            ts = list(T[1])
            cols = [[v[i] for v in tvs] for i in range(len(ts))]
            name = None
        par = {"__record__": name} if name else None

        def mkrec(ch, length=n):
            d = {"class": "RecordArray", "contents": list(ch), "keys": keys, "length": length}
            if par:
                d["parameters"] = dict(par)
            return d
        alts.append(Alt("RecordArray", 0, list(zip(ts, cols)), mkrec))
        if ts and all(can_junk(t) for t in ts):
            longer = [col + [junk(t, jc)] * (i + 1) for i, (t, col) in enumerate(zip(ts, cols))]
            alts.append(Alt("RecordArray-long-contents", 1, list(zip(ts, longer)), mkrec))
        _add_indexed(alts, T, tvs, jc)
        return alts
    if k == "union":
        ts = list(T[1])
        tags = [v.tag for v in tvs]
        buckets = [[] for _ in ts]
        index = []
        for v in tvs:
            index.append(len(buckets[v.tag]))
            buckets[v.tag].append(v.v)
        for cls, cost in (("UnionArray8_64", 0), ("UnionArray8_32", 1), ("UnionArray8_U32", 1)):
            w = _W[cls[len("UnionArray8_"):]]
            alts.append(Alt(cls, cost, list(zip(ts, buckets)),
                            lambda ch, cls=cls, w=w: {"class": cls, "tags": np.array(tags, np.int8),
                                                      "index": np.array(index, w), "contents": list(ch)}))
        if all(can_junk(t) for t in ts):
            # contents stored in reverse with a leading junk element: index = len - 1 - i + 1
            rb = [[junk(t, jc)] + list(reversed(b)) for t, b in zip(ts, buckets)]
            rindex = [len(buckets[t]) - 1 - i + 1 for t, i in zip(tags, index)]
            alts.append(Alt("UnionArray8_64-permuted", 1, list(zip(ts, rb)),
                            lambda ch: {"class": "UnionArray8_64", "tags": np.array(tags, np.int8),
                                        "index": np.array(rindex, np.int64), "contents": list(ch),
                                        "_pad": {"tags": (1, 1, 1), "index": (0, 1, 0)}}))
        return alts
    raise ValueError(T)


_W = {"32": np.int32, "U32": np.uint32, "64": np.int64}


def _add_indexed(alts, T, tvs, jc):
    """IndexedArray wrappers (a lazily applied carry): identity, and permuted with duplicates removed."""
    n = len(tvs)
    for cls in ("IndexedArray64", "IndexedArray32", "IndexedArrayU32"):
        w = _W[cls[len("IndexedArray"):]]
        if cls == "IndexedArray64" and can_junk(T):
            rev = list(reversed(tvs)) + [junk(T, jc)]
            idx = [n - 1 - i for i in range(n)]
            alts.append(Alt(cls + "-permuted", 1, [(T, rev)],
                            lambda ch, cls=cls, w=w, idx=idx: {"class": cls, "index": np.array(idx, w), "content": ch[0]},
                            ))
            alts[-1].children = [(T, rev)]
            alts[-1].name = cls + "-permuted"
            # the child of an IndexedArray must not itself be indexed/option (validity rule): child uses
            # only non-indexed alternatives; enforced in ``encodings`` through the name check
        else:
            alts.append(Alt(cls + "-identity", 1, [(T, list(tvs))],
                            lambda ch, cls=cls, w=w: {"class": cls, "index": np.arange(n).astype(w), "content": ch[0]}))


def _is_indexed_or_option(d):
    c = d["class"]
    return c.startswith("Indexed") or c in ("ByteMaskedArray", "BitMaskedArray", "UnmaskedArray")


def _ok_nesting(d):
    """Reject encodings that violate a validity rule (indexed/option directly inside indexed/option,
    union directly inside union)."""
    c = d["class"]
    if _is_indexed_or_option(d) and _is_indexed_or_option(d["content"]):
        return False
    if c.startswith("UnionArray") and any(x["class"].startswith("UnionArray") for x in d["contents"]):
        return False
    return True


def encodings(T, tvs, k, exotic=True):
    """Yield (description, names) for every encoding with at most k non-canonical nodes, canonical first."""
    for d, used, names in _enc(T, tvs, k, exotic):
        yield d, names


def _enc(T, tvs, budget, exotic):
    for alt in alternatives(T, tvs, exotic):
        if alt.cost > budget:
            continue
        rest = budget - alt.cost
        for ch, used, names in _enc_children(alt.children, rest, exotic):
            d = alt.make(ch)
            if not _ok_nesting(d):
                continue
            yield d, used + alt.cost, ([alt.name] if alt.cost else []) + names


def _enc_children(specs, budget, exotic):
    if not specs:
        yield [], 0, []
        return
    (T0, tv0), rest = specs[0], specs[1:]
    for d0, u0, n0 in _enc(T0, tv0, budget, exotic):
        for ds, us, ns in _enc_children(rest, budget - u0, exotic):
            yield [d0] + ds, u0 + us, n0 + ns


def canon(T, tvs):
    for d, names in encodings(T, tvs, 0):
        return d
    raise RuntimeError("no canonical encoding")
