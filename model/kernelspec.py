"""kernel-specification.yml as a model: kernels, specialisations, classes A/B/C, argument kinds and domains.

The YAML `role` strings only select one of the repository's fixed test data sets (dev/generate-tests.py) and are
reused loosely (`fromcarry` carries the role ListOffsetArray-offsets), so the *meaning* of an array argument is
taken from its name first and its role second.  Each kind has a value domain whose members satisfy the documented
validity rules of that kind (DESIGN.md 3.2 (iii)) plus `relaxed` members that break exactly one rule; a candidate
that used a relaxed member counts only if the definition itself answered it with ValueError (3.2 (iv)).
"""
import os
import sys

import yaml

VERIF = os.path.dirname(os.path.dirname(os.path.abspath(__file__)))
sys.path.insert(0, os.path.join(VERIF, "mc"))
sys.path.insert(0, os.path.join(VERIF, "tools"))
sys.path.insert(0, os.path.join(VERIF, "model"))
import e2  # noqa: E402
import build  # noqa: E402
import kernelspec_extra as kx  # noqa: E402

_spec_cache = {}


def spec_path():
    return os.path.join(build.repo_root(), "kernel-specification.yml")


def load():
    p = spec_path()
    if p not in _spec_cache:
        with open(p) as f:
            loader = getattr(yaml, "CSafeLoader", yaml.SafeLoader)
            doc = yaml.load(f, Loader=loader)
        kernels = doc["kernels"]
        for k in kernels:
            df = k.get("definition") or ""
            has = "def " in df
            k["class"] = "C" if not has else ("A" if k.get("automatic-tests") else "B")
            k["options"] = {}
            if not has and k["name"] in kx.DEFINITIONS:
                # class H: the YAML carries no executable definition, the harness supplies one (kernelspec_extra.py)
                k["definition"] = df = kx.DEFINITIONS[k["name"]]
                k["class"] = "H"
                k["options"] = kx.OPTIONS.get(k["name"], {})
            k["relax"] = relax_flags(df)
            for s in k["specializations"]:
                for a in s["args"]:
                    a["base"], a["depth"], a["const"] = e2.parse_type(a["type"])
                    a["role"] = a.get("role") or "default"
                    a["kind"] = k["options"].get("kinds", {}).get(a["name"]) or kind_of(a)
                for a in s["args"]:
                    a["extent_of"] = extent_scalar(a, s) if a["depth"] == 1 and a["dir"] == "in" else None
                    if a["name"] in k["options"].get("extent", {}):
                        a["extent_of"] = k["options"]["extent"][a["name"]]
        _spec_cache[p] = kernels
    return _spec_cache[p]


# ----------------------------------------------------------------------------------------------------------
# kinds

LENGTH_WORDS = ("length", "len", "size", "width", "ndim", "count", "levels", "repetitions", "numcontents")
SIGNED_SCALARS = ("at", "start", "stop", "step", "regular_start")


def kind_of(a):
    n = a["name"].lower()
    if a["depth"] == 0:
        if a["base"] == "bool":
            return "flag"
        if a["base"] in ("float", "double"):
            return "real"
        if n == "identity":
            return "identity"
        if n == "step":
            return "step"
        if n in SIGNED_SCALARS:
            return "position"
        if n in ("which", "towhich", "fromwhich", "innerwhich", "outerwhich", "tag"):
            return "which"
        for w in LENGTH_WORDS:
            if w in n:
                return "length"
        return "extent"      # base, skip, stride, target, offsets into outputs: non-negative small
    if a["base"] == "bool":
        return "bools"
    if a["base"] in ("float", "double"):
        return "reals"
    if "offsets" in n:
        return "offsets"
    if "starts" in n:
        return "starts"
    if "stops" in n:
        return "stops"
    if "tags" in n:
        return "tags"
    if "parents" in n:
        return "parents"
    if "mask" in n:
        return "mask"
    if "carry" in n:
        return "carry"
    if "index" in n or n in ("missing",):
        return "index"
    if a["role"] in ("NumpyArray-ptr", "NumpyArray2-ptr", "reducer-fromptr", "Identities-array"):
        return "data"
    return "data"


def relax_flags(source):
    """Which validity rules the definition itself tests (it raises the corresponding ValueError): only those are
    relaxed, so that the error branch is enumerated (DESIGN.md 3.2 (iv))."""
    f = set()
    if "stops[i] < starts[i]" in source or "start[i] > stop[i]" in source:
        f.add("order")
    if "monotonically increasing" in source:
        f.add("monotone")
    if "start[i] < 0" in source:
        f.add("negstart")
    if "tags[i] < 0" in source:
        f.add("negtag")
    if "index out of range" in source:
        f.add("negcarry")
    return f


def extent_scalar(a, spec):
    """Name of the scalar argument that declares the extent of input array `a` (lenarray for fromarray, lencarry for
    fromcarry, offsetslength for fromoffsets ...), or None when the signature does not say."""
    scal = {}
    for b in spec["args"]:
        if b["depth"] == 0 and b["base"] == "int64_t":
            scal[b["name"].lower()] = b["name"]
    n = a["name"].lower()
    stems = [n]
    for pre in ("from", "to"):
        if n.startswith(pre) and len(n) > len(pre):
            stems.append(n[len(pre):])
    for st in list(stems):
        if st.endswith("ptr") and st[:-3] not in ("", "from", "to"):
            stems.append(st[:-3])
    for st in list(stems):
        if "stops" in st:
            stems.append(st.replace("stops", "starts"))
    for st in stems:
        for cand in ("len" + st, st + "length", st + "len"):
            if cand in scal:
                return scal[cand]
    return None


def scalar_domain(a, tier, shrink=0):
    """Values of a scalar argument; `shrink` lowers the length bound for kernels with many scalars."""
    base, kind = a["base"], a["kind"]
    n = (3 if tier == "quick" else 4) - shrink
    n = max(n, 1)
    if kind == "flag":
        return [False, True]
    if kind == "real":
        return [0.0, 1.0, -1.5, 2.5] if tier == "quick" else [0.0, 1.0, -1.5, 2.5, float("inf"), float("-inf")]
    if kind == "identity":
        lo, hi = e2.INT_RANGE[base]
        return [0, hi, lo] if lo < 0 else [0, hi, 1]
    if kind == "length":
        return list(range(0, n + 1))
    if kind == "step":
        # a slice step is never 0 and never kSliceNone when it reaches a kernel
        # negative steps below -1 round differently from positive ones (ceil vs floor of the span): both signs at size 2
        return [1, -1, 2, -2] if tier == "quick" or shrink else [1, -1, 2, -2, 3, -3]
    if kind == "position":
        d = [0, 1, -1, 2]
        if tier != "quick" and shrink == 0:
            d += [-2, 3, e2.kSliceNone]
        return d
    if kind == "which":
        return [0, 1] if tier == "quick" or shrink else [0, 1, 2]
    return list(range(0, n + 1))


# a domain is a list of (value, relaxed?) ordered with the default first


HUGE64 = (1 << 32) + 1     # beyond every extent and not representable in 32 bits
TWO53 = 1 << 53            # 2**53 and 2**53 + 1 are the smallest neighbours that are equal as doubles


def _ints(base, vals, relaxed=()):
    lo, hi = e2.INT_RANGE[base]
    out = []
    for v in vals:
        if v == "huge":
            v = hi if hi < HUGE64 else HUGE64
        if v == "max":
            v = hi
        elif v == "max-1":
            v = hi - 1
        elif v == "min":
            v = lo
        elif v == "min+1":
            v = lo + 1
        if lo <= v <= hi and (v, False) not in out:
            out.append((v, False))
    for v in relaxed:
        if v == "min":
            v = lo
        if lo <= v <= hi and (v, False) not in out and (v, True) not in out:
            out.append((v, True))
    return out


def static_domain(a, tier, relax=(), opts=None):
    """Domain of one element that does not depend on other elements.  Index-like kinds take `huge` (the largest value
    of a narrow type, 2**32+1 for 64-bit types: arithmetic on INT64_MAX overflows in the compiled kernel and in the C
    reading of the definition alike); data kinds take the true extremes of the C type."""
    base, kind = a["base"], a["kind"]
    t = tier != "quick"
    if kind == "bools":
        return [(False, False), (True, False)]
    if kind == "reals":
        d = [0.0, 1.0, -1.5, 2.5]
        if not t and opts and opts.get("nan"):
            d = [0.0, 1.0, -1.5, float("nan")]
        if t:
            d += [float("inf"), float("-inf"), float("nan")]
        return [(v, False) for v in d]
    signed = e2.INT_RANGE[base][0] < 0
    if kind == "index":
        return _ints(base, [0, 1, -1, 2, 3, "huge"] + ([-2] if t else []))
    if kind == "tags":
        return _ints(base, [0, 1, 2] + (["max"] if t else []), relaxed=[-1] if "negtag" in relax else [])
    if kind in ("parents",):
        return _ints(base, [0, 1, 2, 3])
    if kind == "carry":
        return _ints(base, [0, 1, 2, 3, "huge"], relaxed=[-1] if "negcarry" in relax else [])
    if kind == "starts":
        return _ints(base, [0, 1, 2, 3, "huge"], relaxed=[-1] if "negstart" in relax else [])
    if kind in ("stops", "offsets"):
        return _ints(base, [0, 1, 2, 3, "huge"])
    if kind == "mask":
        return _ints(base, [0, 1, -1, 2, "max", "min"]) if signed else _ints(base, [0, 1, 2, 128, "max"])
    # data: the true extremes; 64-bit data additionally the neighbours of the signed extremes and the pair 2**53,
    # 2**53 + 1 (distinct integers that collide when converted to double); _ints drops what the type cannot hold
    wide = [TWO53, TWO53 + 1] if base in ("int64_t", "uint64_t") else []
    if signed:
        return _ints(base, [0, 1, -1, 2, 3, "max", "min"] + (["max-1", "min+1"] if base == "int64_t" else []) + wide)
    return _ints(base, [0, 1, 2, 3, "max", "max-1"] + ([128] if base == "uint8_t" else []) + wide)


def partner(name, kind):
    """Name of the array a starts/stops argument is paired with."""
    if kind == "starts":
        return name.replace("starts", "stops")
    if kind == "stops":
        return name.replace("stops", "starts")
    return None
