"""Harness-side reference definitions for kernels whose kernel-specification.yml entry has no executable definition.

DEFINITIONS maps a kernel name to Python source in the style of the YAML definitions: one function with the kernel's
name and parameters, operating on Python lists, returning nothing, raising ValueError where the kernel must fail.
They are written from the *meaning* of the kernel as its callers in src/libawkward use it (sorting by an insertion
sort on exact Python numbers, never by transcribing std::sort / the quick-sort of the C++), so that a disagreement is
either a wrong kernel or a wrong definition; the loader (kernelspec.load) uses them only where the YAML has none and
files the kernel under class "H" (harness-defined), which is compared exactly like classes A and B.

OPTIONS (all optional, per kernel):
  scalars  {argument: [values]}     domain of a scalar argument instead of the generic one
  require  function(scalars)->bool  calling contract between the scalar arguments (tuples outside are not enumerated)
  extent   {array: scalar}          work arrays: extent given by a scalar argument, content after the call unspecified
  kinds    {argument: kind}         argument kind (model/kernelspec.py) where the name-based inference does not apply
  nan      True                     floating-point data include NaN in the quick tier as well
  check    {output: checker}        outputs whose value is not unique: compared through a checker (below)
  per_root True                     explore every scalar tuple on its own budget share, smallest tuples first
  facet    function(scalars, ins)   names the documented peculiarities of the kernel that an input exercises; added to
                                    the signature of a mismatch so that known findings stay narrow
  budget   fraction                 share of the tier's per-specialisation case cap (kernels of lesser importance)
  huge     False                    offsets/starts/stops without the member 2**32+1 (the kernel dereferences its data at
                                    every offset, so such a candidate is always outside the contract)

A checker gets (scalars, ins, expected, got): ins maps every input array to {position: value read by the definition},
expected is {position: value} as the definition wrote it (the answer of a *stable* sort), got the list the compiled
kernel produced; it returns None or a description of the disagreement.
"""

DEFINITIONS = {}
OPTIONS = {}

# ----------------------------------------------------------------------------------------------------------
# the order of sorting kernels: NaN before every number (ascending or not), otherwise < / >.  Spelled out inside
# every definition because a definition is one self-contained function.

def _ind(text, n):
    return "".join((" " * n + line if line.strip() else line) for line in text.splitlines(True))


_BEFORE = """\
l = {l}
r = {r}
if r != r:
    before = False
elif l != l:
    before = True
elif ascending:
    before = l < r
else:
    before = l > r
"""


def _before(l, r, n=16):
    return _ind(_BEFORE.format(l=l, r=r), n)


DEFINITIONS["awkward_sort"] = """
def awkward_sort(toptr, fromptr, length, offsets, offsetslength, parentslength, ascending, stable):
    # every range offsets[i]:offsets[i + 1] of fromptr[0:length] is sorted (insertion sort on the positions, stable);
    # NaN sorts before every number whether ascending or not; equal keys are indistinguishable in the output, so
    # `stable` has no observable effect; positions outside every range are copied
    index = [0] * length
    for i in range(length):
        index[i] = i
    for i in range(offsetslength - 1):
        for j in range(offsets[i] + 1, offsets[i + 1]):
            k = j
            while k > offsets[i]:
""" + _before("fromptr[index[k]]", "fromptr[index[k - 1]]") + """
                if not before:
                    break
                tmp = index[k]
                index[k] = index[k - 1]
                index[k - 1] = tmp
                k = k - 1
    for i in range(parentslength):
        toptr[i] = fromptr[index[i]]
"""

DEFINITIONS["awkward_argsort"] = """
def awkward_argsort(toptr, fromptr, length, offsets, offsetslength, ascending, stable):
    # toptr[offsets[i] + j] = position, relative to offsets[i], of the j-th smallest (largest) element of the range
    # offsets[i]:offsets[i + 1]; NaN first; equal keys in their original order (the answer of a stable sort: when
    # `stable` is false any order of equal keys is correct, see the checker); positions outside every range keep i
    result = [0] * length
    for i in range(length):
        result[i] = i
    for i in range(offsetslength - 1):
        for j in range(offsets[i] + 1, offsets[i + 1]):
            k = j
            while k > offsets[i]:
""" + _before("fromptr[result[k]]", "fromptr[result[k - 1]]") + """
                if not before:
                    break
                tmp = result[k]
                result[k] = result[k - 1]
                result[k - 1] = tmp
                k = k - 1
        for j in range(offsets[i], offsets[i + 1]):
            result[j] = result[j] - offsets[i]
    for i in range(length):
        toptr[i] = result[i]
"""

DEFINITIONS["awkward_quick_sort"] = """
def awkward_quick_sort(tmpptr, tmpbeg, tmpend, fromstarts, fromstops, ascending, length, maxlevels):
    # every range fromstarts[i]:fromstops[i] of tmpptr is sorted in place, NaN first whether ascending or not.
    # tmpbeg/tmpend are work space for a stack of maxlevels sub-ranges: a stack of one cannot split a range of two
    # or more elements (the kernel must fail), a stack of 8 suffices for every range the bounds of the check allow;
    # every element of a range counts as rewritten
    for i in range(length):
        for j in range(fromstarts[i], fromstops[i]):
            tmpptr[j] = tmpptr[j]
        if fromstops[i] - fromstarts[i] > 1 and maxlevels == 1:
            raise ValueError("failed to sort an array")
        for j in range(fromstarts[i] + 1, fromstops[i]):
            k = j
            while k > fromstarts[i]:
""" + _before("tmpptr[k]", "tmpptr[k - 1]") + """
                if not before:
                    break
                tmp = tmpptr[k]
                tmpptr[k] = tmpptr[k - 1]
                tmpptr[k - 1] = tmp
                k = k - 1
"""

DEFINITIONS["awkward_quick_argsort"] = """
def awkward_quick_argsort(toptr, fromptr, length, tmpbeg, tmpend, offsets, offsetslength, ascending, stable, maxlevels):
    # as awkward_argsort, but only the positions inside the ranges are written, the sort is never stable (checker)
    # and tmpbeg/tmpend are a stack of maxlevels sub-ranges (see awkward_quick_sort)
    for i in range(offsetslength - 1):
        for j in range(offsets[i], offsets[i + 1]):
            toptr[j] = j - offsets[i]
    for i in range(offsetslength - 1):
        if offsets[i + 1] - offsets[i] > 1 and maxlevels == 1:
            raise ValueError("failed to sort an array")
        for j in range(offsets[i] + 1, offsets[i + 1]):
            k = j
            while k > offsets[i]:
""" + _before("fromptr[offsets[i] + toptr[k]]", "fromptr[offsets[i] + toptr[k - 1]]") + """
                if not before:
                    break
                tmp = toptr[k]
                toptr[k] = toptr[k - 1]
                toptr[k - 1] = tmp
                k = k - 1
"""

DEFINITIONS["awkward_sorting_ranges_length"] = """
def awkward_sorting_ranges_length(tolength, parents, parentslength):
    # number of offsets delimiting the runs of equal neighbours in parents: one per run start plus the final one
    # (an empty parents counts as one empty run, offsets [0, 0])
    length = 2
    for i in range(1, parentslength):
        if parents[i - 1] != parents[i]:
            length = length + 1
    tolength[0] = length
"""

DEFINITIONS["awkward_sorting_ranges"] = """
def awkward_sorting_ranges(toindex, tolength, parents, parentslength):
    # offsets of the runs of equal neighbours in parents; tolength is the result of awkward_sorting_ranges_length
    toindex[0] = 0
    j = 1
    for i in range(1, parentslength):
        if parents[i - 1] != parents[i]:
            toindex[j] = i
            j = j + 1
    toindex[tolength - 1] = parentslength
"""

DEFINITIONS["awkward_unique"] = """
def awkward_unique(toptr, length, tolength):
    # toptr[0:length] is sorted: the first element of every run of equal values is kept (moved to the front),
    # tolength[0] = number of runs (0 for an empty array)
    j = 0
    for i in range(length):
        if i == 0 or toptr[j - 1] != toptr[i]:
            toptr[j] = toptr[i]
            j = j + 1
    tolength[0] = j
"""

DEFINITIONS["awkward_NumpyArray_subrange_equal"] = """
def awkward_NumpyArray_subrange_equal(tmpptr, fromstarts, fromstops, length, toequal):
    # toequal[0] = some two of the `length` subranges tmpptr[fromstarts[i]:fromstops[i]] are equal element by element
    # (NumpyArray::subranges_equal sorts every subrange first and answers "is unique" with the negation)
    equal = False
    for i in range(length):
        for ii in range(i + 1, length):
            if fromstops[i] - fromstarts[i] == fromstops[ii] - fromstarts[ii]:
                same = True
                for j in range(fromstops[i] - fromstarts[i]):
                    if tmpptr[fromstarts[i] + j] != tmpptr[fromstarts[ii] + j]:
                        same = False
                if same:
                    equal = True
    toequal[0] = equal
"""

_STRCMP = """\
na = {ea} - {sa}
nb = {eb} - {sb}
cmp = 0
m = 0
while cmp == 0 and m < na and m < nb:
    ca = {data}[{sa} + m]
    cb = {data}[{sb} + m]
    if ca < cb:
        cmp = -1
    elif ca > cb:
        cmp = 1
    m = m + 1
if cmp == 0 and na < nb:
    cmp = -1
elif cmp == 0 and na > nb:
    cmp = 1
"""

DEFINITIONS["awkward_ListOffsetArray_argsort_strings"] = """
def awkward_ListOffsetArray_argsort_strings(tocarry, fromparents, length, stringdata, stringstarts, stringstops, is_stable, is_ascending, is_local):
    # string i is stringdata[stringstarts[i]:stringstops[i]]; the strings of every run of equal fromparents are
    # sorted: bytes compare as unsigned numbers, a proper prefix sorts first, equal strings keep their order (when
    # is_stable is false any order of equal strings is correct, see the checker); tocarry gets the positions of the
    # sorted strings, relative to the start of the run if is_local
    first = 0
    while first < length:
        last = first + 1
        while last < length and fromparents[last] == fromparents[first]:
            last = last + 1
        index = [0] * (last - first)
        for j in range(last - first):
            index[j] = first + j
        for j in range(1, last - first):
            k = j
            while k > 0:
                a = index[k]
                b = index[k - 1]
""" + _ind(_STRCMP.format(data="stringdata", sa="stringstarts[a]", ea="stringstops[a]", sb="stringstarts[b]",
                             eb="stringstops[b]"), 16) + """
                if is_ascending:
                    before = cmp < 0
                else:
                    before = cmp > 0
                if not before:
                    break
                index[k] = b
                index[k - 1] = a
                k = k - 1
        for j in range(last - first):
            if is_local:
                tocarry[first + j] = index[j] - first
            else:
                tocarry[first + j] = index[j]
        first = last
"""

DEFINITIONS["awkward_NumpyArray_sort_asstrings_uint8"] = """
def awkward_NumpyArray_sort_asstrings_uint8(toptr, fromptr, offsets, offsetslength, outoffsets, ascending, stable):
    # the strings fromptr[offsets[i]:offsets[i + 1]] are sorted (bytes as unsigned numbers, a proper prefix first) and
    # written one after the other to toptr, outoffsets delimits them; equal strings are indistinguishable
    nwords = max(offsetslength - 1, 0)
    index = [0] * nwords
    for j in range(nwords):
        index[j] = j
    for j in range(1, nwords):
        k = j
        while k > 0:
            a = index[k]
            b = index[k - 1]
""" + _ind(_STRCMP.format(data="fromptr", sa="offsets[a]", ea="offsets[a + 1]", sb="offsets[b]", eb="offsets[b + 1]"), 12) + """
            if ascending:
                before = cmp < 0
            else:
                before = cmp > 0
            if not before:
                break
            index[k] = b
            index[k - 1] = a
            k = k - 1
    outoffsets[0] = 0
    k = 0
    for j in range(nwords):
        for m in range(offsets[index[j]], offsets[index[j] + 1]):
            toptr[k] = fromptr[m]
            k = k + 1
        outoffsets[j + 1] = k
"""

DEFINITIONS["awkward_ListOffsetArray_local_preparenext_64"] = """
def awkward_ListOffsetArray_local_preparenext_64(tocarry, fromindex, length):
    # tocarry = the positions 0..length-1 ordered by fromindex (any order of equal keys is correct, see the checker)
    result = [0] * length
    for i in range(length):
        result[i] = i
    for j in range(1, length):
        k = j
        while k > 0 and fromindex[result[k]] < fromindex[result[k - 1]]:
            tmp = result[k]
            result[k] = result[k - 1]
            result[k - 1] = tmp
            k = k - 1
    for i in range(length):
        tocarry[i] = result[i]
"""

DEFINITIONS["awkward_IndexedArray_local_preparenext_64"] = """
def awkward_IndexedArray_local_preparenext_64(tocarry, starts, parents, parentslength, nextparents, nextlen):
    # nextparents is parents without the entries of missing values: tocarry[i] = position in nextparents of entry i,
    # or -1 where entry i has no counterpart (starts is not used)
    j = 0
    for i in range(parentslength):
        if j < nextlen and parents[i] == nextparents[j]:
            tocarry[i] = j
            j = j + 1
        else:
            tocarry[i] = -1
"""

DEFINITIONS["awkward_NumpyArray_copy"] = """
def awkward_NumpyArray_copy(toptr, fromptr, len):
    for i in range(len):
        toptr[i] = fromptr[i]
"""

DEFINITIONS["awkward_NumpyArray_contiguous_copy"] = """
def awkward_NumpyArray_contiguous_copy(toptr, fromptr, len, stride, pos):
    # item i of `stride` bytes is taken from byte position pos[i]
    for i in range(len):
        for j in range(stride):
            toptr[i * stride + j] = fromptr[pos[i] + j]
"""

DEFINITIONS["awkward_NumpyArray_getitem_next_null"] = """
def awkward_NumpyArray_getitem_next_null(toptr, fromptr, len, stride, pos):
    # item i of `stride` bytes is item pos[i] of fromptr
    for i in range(len):
        for j in range(stride):
            toptr[i * stride + j] = fromptr[pos[i] * stride + j]
"""

DEFINITIONS["awkward_NumpyArray_fill_tocomplex"] = """
def awkward_NumpyArray_fill_tocomplex(toptr, tooffset, fromptr, length):
    # toptr holds (real, imaginary) pairs; tooffset counts its real-valued elements
    for i in range(length):
        toptr[tooffset + 2 * i] = float(fromptr[i])
        toptr[tooffset + 2 * i + 1] = 0.0
"""


# ----------------------------------------------------------------------------------------------------------
# checkers for results that are not unique


def _same(a, b):
    return a == b or (a != a and b != b)


def _exact(name, expected, got):
    for p, v in sorted(expected.items()):
        if not _same(v, got[p]):
            return "%s[%d]: definition %r, compiled kernel %r" % (name, p, v, got[p])
    return None


def _ranges_check(name, ranges, key, expected, got, local):
    """Every range (a, b) of the output must hold a permutation of the positions of the range whose key sequence is
    the one of the stable answer; outside the ranges the output must be what the definition wrote."""
    inside = set()
    for a, b in ranges:
        base = a if local else 0
        g = [got[p] + base for p in range(a, b)]
        if sorted(g) != list(range(a, b)):
            return "%s[%d:%d] = %r is not a permutation of the positions of its range" % (name, a, b, got[a:b])
        for p in range(a, b):
            inside.add(p)
            kg, ke = key(g[p - a]), key(expected[p] + base)
            if not (len(kg) == len(ke) and all(_same(x, y) for x, y in zip(kg, ke))):
                return ("%s[%d]: compiled kernel puts position %d (key %r) where a sorted order has key %r"
                        % (name, p, got[p], kg, ke))
    return _exact(name, {p: v for p, v in expected.items() if p not in inside}, got)


def check_argsort(scalars, ins, expected, got):
    if scalars.get("stable") and "maxlevels" not in scalars:
        return _exact("toptr", expected, got)
    off, data = ins["offsets"], ins["fromptr"]
    ranges = [(off[i], off[i + 1]) for i in range(scalars["offsetslength"] - 1)]
    return _ranges_check("toptr", ranges, lambda p: (data.get(p),), expected, got, True)


def check_argsort_strings(scalars, ins, expected, got):
    if scalars["is_stable"]:
        return _exact("tocarry", expected, got)
    par, data, starts, stops = ins["fromparents"], ins["stringdata"], ins["stringstarts"], ins["stringstops"]
    n = scalars["length"]
    ranges, first = [], 0
    for i in range(1, n + 1):
        if i == n or par[i] != par[first]:
            ranges.append((first, i))
            first = i

    def key(p):
        # a run of one string is never compared: the definition did not read it
        return tuple(data.get(q) for q in range(starts[p], stops[p])) if p in starts and p in stops else ()
    return _ranges_check("tocarry", ranges, key, expected, got, scalars["is_local"])


def check_local_preparenext(scalars, ins, expected, got):
    data = ins["fromindex"]
    return _ranges_check("tocarry", [(0, scalars["length"])], lambda p: (data.get(p),), expected, got, False)


def facet_argsort_strings(scalars, ins):
    """descending-ties: a run holds two equal strings and the order is stable and descending (the kernel negates `less`, which is
    not a strict order); nul-byte: a compared string holds a zero byte (the kernel compares with strncmp)."""
    par, data, starts, stops = ins["fromparents"], ins["stringdata"], ins["stringstarts"], ins["stringstops"]
    n = scalars["length"]
    out = set()
    words = {}
    for i in range(n):
        if i in starts and i in stops:
            words[i] = tuple(data.get(q) for q in range(starts[i], stops[i]))
    for i in words:
        for j in words:
            if i < j and par.get(i) == par.get(j) and all(par.get(m) == par.get(i) for m in range(i, j)):
                if words[i] == words[j] and scalars["is_stable"] and not scalars["is_ascending"]:
                    out.add("descending-ties")
                if 0 in words[i] or 0 in words[j]:
                    out.add("nul-byte")
    return "+".join(sorted(out))


def _sort_contract(s):
    # NumpyArray::array_sort / array_unique: `length` elements, one parent per element
    return s["parentslength"] == s["length"]


_STACK = {"tmpbeg": "maxlevels", "tmpend": "maxlevels"}
_SORT = {"nan": True, "per_root": True, "huge": False}

OPTIONS["awkward_sort"] = dict(_SORT, require=_sort_contract)
OPTIONS["awkward_argsort"] = dict(_SORT, check={"toptr": check_argsort})
OPTIONS["awkward_quick_sort"] = dict(_SORT, scalars={"maxlevels": [8, 1]}, extent=_STACK)
# no array class calls awkward_quick_argsort
OPTIONS["awkward_quick_argsort"] = dict(_SORT, scalars={"maxlevels": [8, 1]}, extent=_STACK, check={"toptr": check_argsort},
                                        budget=0.25)
OPTIONS["awkward_unique"] = {"nan": True}
OPTIONS["awkward_NumpyArray_subrange_equal"] = {"nan": True, "huge": False, "budget": 0.25}
OPTIONS["awkward_ListOffsetArray_argsort_strings"] = {"per_root": True, "huge": False, "check": {"tocarry": check_argsort_strings},
                                                      "facet": facet_argsort_strings}
OPTIONS["awkward_NumpyArray_sort_asstrings_uint8"] = {"per_root": True, "huge": False}
OPTIONS["awkward_ListOffsetArray_local_preparenext_64"] = {"check": {"tocarry": check_local_preparenext}}
OPTIONS["awkward_NumpyArray_contiguous_copy"] = {"kinds": {"pos": "carry"}}
OPTIONS["awkward_NumpyArray_getitem_next_null"] = {"kinds": {"pos": "carry"}}
