"""Reference semantics of physical layouts (DESIGN.md section 4): description -> logical value, type
skeleton, and the documented validity rules.  Written from the pure-Python reference constructors in
/repo/docs-sphinx/ak.layout.*.rst; it never calls the library.

A *description* is a dict with "class" and class-specific entries (numpy arrays for buffers):

  NumpyArray{array}                          (array: numpy array, any shape/strides)
  EmptyArray{}
  ListOffsetArray{32,U32,64}{offsets, content}
  ListArray{32,U32,64}{starts, stops, content}
  RegularArray{content, size, zeros_length}   (or "length" when read back from the library)
  IndexedArray{32,U32,64}{index, content} / IndexedOptionArray{32,64}{index, content}
  ByteMaskedArray{mask, content, valid_when}
  BitMaskedArray{mask, content, valid_when, length, lsb_order}
  UnmaskedArray{content}
  UnionArray8_{32,U32,64}{tags, index, contents}
  RecordArray{contents, keys|None, length|None}
  Record{array, at}
every node may carry "parameters" (dict of JSON values).

Logical values: nested lists; None; dict (named record) / tuple (unnamed); Python scalars
(numpy datetime64/timedelta64 kept as such); str / bytes for string / bytestring lists.
"""
import math

import numpy as np


class Invalid(Exception):
    """Raised when the logical value of an invalid layout is requested."""


def length(d):
    c = d["class"]
    if c == "NumpyArray":
        a = d["array"]
        return a.shape[0] if a.ndim > 0 else 1
    if c == "EmptyArray":
        return 0
    if c.startswith("ListOffsetArray"):
        return len(d["offsets"]) - 1
    if c.startswith("ListArray"):
        return len(d["starts"])
    if c == "RegularArray":
        if "zeros_length" not in d and "length" in d:
            return d["length"]
        if d["size"] != 0:
            return length(d["content"]) // d["size"]
        return d.get("zeros_length", 0)
    if c.startswith("Indexed"):
        return len(d["index"])
    if c == "ByteMaskedArray":
        return len(d["mask"])
    if c == "BitMaskedArray":
        return d["length"]
    if c == "UnmaskedArray":
        return length(d["content"])
    if c.startswith("UnionArray"):
        return len(d["tags"])
    if c == "RecordArray":
        if d.get("length") is not None:
            return d["length"]
        if len(d["contents"]) == 0:
            return 0
        return min(length(x) for x in d["contents"])
    raise ValueError(c)


def _param(d, key):
    p = d.get("parameters")
    if not p:
        return None
    return p.get(key)


def _leaf(x):
    if isinstance(x, (np.datetime64, np.timedelta64)):
        return x
    if isinstance(x, np.generic):
        return x.item()
    return x


def _numpy_tolist(a):
    if a.dtype.kind in "mM":
        if a.ndim == 1:
            return [x for x in a]
        return [_numpy_tolist(x) for x in a]
    return a.tolist()


def bitmask_valid(mask, valid_when, lsb_order, j):
    byte = int(mask[j // 8])
    if lsb_order:
        bit = bool(byte & (1 << (j % 8)))
    else:
        bit = bool(byte & (128 >> (j % 8)))
    return bit == valid_when


def items(d, start=None, stop=None):
    """Logical values of positions start..stop (default: all) of the array described by d."""
    n = length(d)
    if start is None:
        start, stop = 0, n
    if start < 0 or stop > n or start > stop:
        raise Invalid("range %d:%d outside length %d of %s" % (start, stop, n, d["class"]))
    c = d["class"]
    if c == "NumpyArray":
        a = d["array"]
        arr = _param(d, "__array__")
        if arr in ("char", "byte") and a.ndim == 1:
            return _numpy_tolist(a[start:stop])
        return _numpy_tolist(a[start:stop])
    if c == "EmptyArray":
        return []
    if c.startswith("ListOffsetArray") or c.startswith("ListArray") or c == "RegularArray":
        out = []
        arrpar = _param(d, "__array__")
        content = d["content"]
        clen = length(content)
        for i in range(start, stop):
            if c.startswith("ListOffsetArray"):
                lo, hi = int(d["offsets"][i]), int(d["offsets"][i + 1])
            elif c.startswith("ListArray"):
                lo, hi = int(d["starts"][i]), int(d["stops"][i])
            else:
                lo, hi = i * d["size"], (i + 1) * d["size"]
            if lo == hi:
                sub = []
            else:
                if lo < 0 or hi < lo or hi > clen:
                    raise Invalid("list %d:%d outside content of length %d" % (lo, hi, clen))
                sub = items(content, lo, hi)
            if arrpar == "string":
                sub = bytes(bytearray(int(x) & 0xFF for x in sub)).decode("utf-8", "surrogateescape")
            elif arrpar == "bytestring":
                sub = bytes(bytearray(int(x) & 0xFF for x in sub))
            out.append(sub)
        return out
    if c.startswith("IndexedOption"):
        content = d["content"]
        clen = length(content)
        out = []
        for i in range(start, stop):
            j = int(d["index"][i])
            if j < 0:
                out.append(None)
            else:
                if j >= clen:
                    raise Invalid("index %d beyond content %d" % (j, clen))
                out.append(items(content, j, j + 1)[0])
        return out
    if c.startswith("IndexedArray"):
        content = d["content"]
        clen = length(content)
        out = []
        for i in range(start, stop):
            j = int(d["index"][i])
            if j < 0 or j >= clen:
                raise Invalid("index %d outside content %d" % (j, clen))
            out.append(items(content, j, j + 1)[0])
        return out
    if c == "ByteMaskedArray":
        content = d["content"]
        if stop > length(content):
            raise Invalid("mask longer than content")
        vals = items(content, start, stop)
        return [v if bool(d["mask"][start + k]) == d["valid_when"] else None for k, v in enumerate(vals)]
    if c == "BitMaskedArray":
        content = d["content"]
        if stop > length(content) or (stop + 7) // 8 > len(d["mask"]):
            raise Invalid("mask or content shorter than length")
        vals = items(content, start, stop)
        return [v if bitmask_valid(d["mask"], d["valid_when"], d["lsb_order"], start + k) else None
                for k, v in enumerate(vals)]
    if c == "UnmaskedArray":
        return items(d["content"], start, stop)
    if c.startswith("UnionArray"):
        out = []
        for i in range(start, stop):
            t = int(d["tags"][i])
            if t < 0 or t >= len(d["contents"]):
                raise Invalid("tag out of range")
            j = int(d["index"][i])
            if j < 0 or j >= length(d["contents"][t]):
                raise Invalid("union index out of range")
            out.append(items(d["contents"][t], j, j + 1)[0])
        return out
    if c == "RecordArray":
        cols = []
        for x in d["contents"]:
            if stop > length(x):
                raise Invalid("record content shorter than length")
            cols.append(items(x, start, stop))
        keys = d.get("keys")
        out = []
        for k in range(stop - start):
            if keys is None:
                out.append(tuple(col[k] for col in cols))
            else:
                out.append({key: col[k] for key, col in zip(keys, cols)})
        return out
    if c == "Record":
        raise ValueError("Record is a scalar; use record_value")
    raise ValueError(c)


def to_list(d):
    if d is None:
        return None
    if d["class"] == "Record":
        return items(d["array"], d["at"], d["at"] + 1)[0]
    if d["class"] == "NumpyArray" and d["array"].ndim == 0:
        return _leaf(d["array"][()])
    if d["class"] == "NumpyArray" and d["array"].ndim == 1 and _param(d, "__array__") in ("char", "byte"):
        # a string taken out of an array of strings: the characters alone, still marked char/byte
        raw = bytes(bytearray(int(x) & 0xFF for x in d["array"].tolist()))
        return raw.decode("utf-8", "surrogateescape") if _param(d, "__array__") == "char" else raw
    return items(d)


###################################################################### value comparison

def same(a, b, float_exact=True):
    """Deep equality of logical values: NaN equals NaN; bool is not int; tuple is not list; dict key order
    matters (declaration order of record fields); -0.0 equals 0.0 unless float_exact asks for signs."""
    if a is None or b is None:
        return a is None and b is None
    if isinstance(a, bool) or isinstance(b, bool):
        return isinstance(a, bool) and isinstance(b, bool) and a == b
    if isinstance(a, (list,)):
        return isinstance(b, list) and len(a) == len(b) and all(same(x, y, float_exact) for x, y in zip(a, b))
    if isinstance(a, tuple):
        return isinstance(b, tuple) and len(a) == len(b) and all(same(x, y, float_exact) for x, y in zip(a, b))
    if isinstance(a, dict):
        return (isinstance(b, dict) and list(a.keys()) == list(b.keys())
                and all(same(a[k], b[k], float_exact) for k in a))
    if isinstance(a, (str, bytes)):
        return type(a) is type(b) and a == b
    if isinstance(a, (np.datetime64, np.timedelta64)) or isinstance(b, (np.datetime64, np.timedelta64)):
        if type(a) is not type(b):
            return False
        if np.isnat(a) or np.isnat(b):
            return bool(np.isnat(a) and np.isnat(b))
        return bool(a == b)
    if isinstance(a, complex) or isinstance(b, complex):
        a, b = complex(a), complex(b)
        return same(a.real, b.real, float_exact) and same(a.imag, b.imag, float_exact)
    if isinstance(a, float) or isinstance(b, float):
        if isinstance(b, (list, tuple, dict, str, bytes)):
            return False
        fa, fb = float(a), float(b)
        if math.isnan(fa) or math.isnan(fb):
            return math.isnan(fa) and math.isnan(fb)
        return fa == fb
    if isinstance(a, int):
        return isinstance(b, int) and a == b
    return a == b


###################################################################### types

def type_of(d):
    """Type skeleton of a layout: nested tuples
    ("prim", dtype-name) ("unknown",) ("var", T) ("reg", size, T) ("opt", T)
    ("rec", ((key, T), ...)) ("tup", (T, ...)) ("union", (T, ...)) ; string-ness is a parameter wrapper
    ("param", {"__array__": "string"}, T) only for __array__/__record__ (what type strings show)."""
    c = d["class"]
    if c == "NumpyArray":
        a = d["array"]
        t = ("prim", _dtype_name(a.dtype))
        for size in reversed(a.shape[1:]):
            t = ("reg", int(size), t)
    elif c == "EmptyArray":
        t = ("unknown",)
    elif c.startswith("ListOffsetArray") or c.startswith("ListArray"):
        t = ("var", type_of(d["content"]))
    elif c == "RegularArray":
        t = ("reg", d["size"], type_of(d["content"]))
    elif c.startswith("IndexedOption") or c in ("ByteMaskedArray", "BitMaskedArray", "UnmaskedArray"):
        t = ("opt", type_of(d["content"]))
    elif c.startswith("IndexedArray"):
        t = type_of(d["content"])
        return _with_params(d, t, merge=True)
    elif c.startswith("UnionArray"):
        t = ("union", tuple(type_of(x) for x in d["contents"]))
    elif c == "RecordArray":
        if d.get("keys") is None:
            t = ("tup", tuple(type_of(x) for x in d["contents"]))
        else:
            t = ("rec", tuple((k, type_of(x)) for k, x in zip(d["keys"], d["contents"])))
    elif c == "Record":
        return type_of(d["array"])
    else:
        raise ValueError(c)
    return _with_params(d, t)


def _with_params(d, t, merge=False):
    p = d.get("parameters") or {}
    shown = {k: v for k, v in p.items() if k in ("__array__", "__record__")}
    if shown:
        return ("param", tuple(sorted(shown.items())), t)
    return t


def _dtype_name(dt):
    if dt.kind == "b":
        return "bool"
    if dt.kind in "mM":
        return str(dt)
    return dt.name


def strip_params(t):
    if t[0] == "param":
        return strip_params(t[2])
    if t[0] in ("var", "opt"):
        return (t[0], strip_params(t[1]))
    if t[0] == "reg":
        return ("reg", t[1], strip_params(t[2]))
    if t[0] == "rec":
        return ("rec", tuple((k, strip_params(x)) for k, x in t[1]))
    if t[0] in ("tup", "union"):
        return (t[0], tuple(strip_params(x) for x in t[1]))
    return t


def is_string_node(d):
    return _param(d, "__array__") in ("string", "bytestring")


def purelist_depth(d):
    """Number of list levels counting from the array itself (1 for a flat array); strings are leaves...
    in awkward 1.x a string *list* counts as a list level: purelist_depth of an array of strings is 2."""
    c = d["class"]
    if c == "NumpyArray":
        return d["array"].ndim
    if c == "EmptyArray":
        return 1
    if c.startswith("List") or c == "RegularArray":
        return 1 + purelist_depth(d["content"])
    if c.startswith("Indexed") or c in ("ByteMaskedArray", "BitMaskedArray", "UnmaskedArray"):
        return purelist_depth(d["content"])
    if c.startswith("UnionArray"):
        ds = [purelist_depth(x) for x in d["contents"]]
        return ds[0] if all(x == ds[0] for x in ds) else -1
    if c in ("RecordArray",):
        return 1
    if c == "Record":
        return 0
    raise ValueError(c)


def minmax_depth(d):
    c = d["class"]
    if is_string_node(d):
        return (1, 1)      # strings are leaves for depth counting
    if c == "NumpyArray":
        return (d["array"].ndim, d["array"].ndim)
    if c == "EmptyArray":
        return (1, 1)
    if c.startswith("List") or c == "RegularArray":
        a, b = minmax_depth(d["content"])
        return (a + 1, b + 1)
    if c.startswith("Indexed") or c in ("ByteMaskedArray", "BitMaskedArray", "UnmaskedArray"):
        return minmax_depth(d["content"])
    if c.startswith("UnionArray") or c == "RecordArray":
        if len(d["contents"]) == 0:
            return (1, 1)
        mm = [minmax_depth(x) for x in d["contents"]]
        return (min(x[0] for x in mm), max(x[1] for x in mm))
    if c == "Record":
        return minmax_depth(d["array"])
    raise ValueError(c)


###################################################################### validity (C11 oracle)

OPTION_CLASSES = ("IndexedOptionArray32", "IndexedOptionArray64", "ByteMaskedArray", "BitMaskedArray",
                  "UnmaskedArray")
INDEXED_CLASSES = ("IndexedArray32", "IndexedArrayU32", "IndexedArray64")


def validity_error(d, _inside=None):
    """See _validity; additionally applies the parameter rules for "char"/"byte"/"string"/"bytestring"/
    "categorical" markers (malformed string/categorical parameters)."""
    arr = _param(d, "__array__")
    c = d["class"]
    if arr in ("char", "byte"):
        want = "string" if arr == "char" else "bytestring"
        if _inside != want:
            return "%s outside %s" % (arr, want)
    if arr in ("string", "bytestring") and not (c.startswith("List") or c == "RegularArray"):
        return "%s on a non-list node" % arr
    if arr == "categorical":
        if not c.startswith("Indexed"):
            return "categorical on a non-indexed node"
        try:
            vals = items(d["content"])
        except Invalid:
            vals = None
        if vals is not None:
            seen = []
            for v in vals:
                if any(same(v, w) for w in seen):
                    return "categorical content not unique"
                seen.append(v)
    return _validity(d)


def _validity(d):
    """None if the layout obeys every documented structural rule, else a short reason (first found,
    top-down).  Rule families (C11): offsets decreasing or beyond content; index or tag out of range;
    mask or content shorter than the declared length; directly nested option-in-option /
    union-in-union (and indexed-in-option, which simplify would merge); malformed string/categorical
    parameters."""
    c = d["class"]
    par = d.get("parameters") or {}
    if c == "NumpyArray":
        a = d["array"]
        if a.ndim == 0:
            return "scalar NumpyArray"
        return None
    if c == "EmptyArray":
        return None
    if c.startswith("ListOffsetArray"):
        off = d["offsets"]
        if len(off) < 1:
            return "offsets length < 1"
        clen = length(d["content"])
        for i in range(len(off) - 1):
            lo, hi = int(off[i]), int(off[i + 1])
            if lo != hi:
                if lo > hi:
                    return "start > stop"
                if lo < 0:
                    return "start < 0"
                if hi > clen:
                    return "stop > len(content)"
        e = _string_params_error(d)
        if e:
            return e
        return validity_error(d["content"], _param(d, "__array__"))
    if c.startswith("ListArray"):
        st, sp = d["starts"], d["stops"]
        if len(sp) < len(st):
            return "len(stops) < len(starts)"
        clen = length(d["content"])
        for i in range(len(st)):
            lo, hi = int(st[i]), int(sp[i])
            if lo != hi:
                if lo > hi:
                    return "start > stop"
                if lo < 0:
                    return "start < 0"
                if hi > clen:
                    return "stop > len(content)"
        e = _string_params_error(d)
        if e:
            return e
        return validity_error(d["content"], _param(d, "__array__"))
    if c == "RegularArray":
        if d["size"] < 0:
            return "size < 0"
        if d["size"] == 0 and d.get("zeros_length", d.get("length", 0)) < 0:
            return "zeros_length < 0"
        e = _string_params_error(d)
        if e:
            return e
        return validity_error(d["content"], _param(d, "__array__"))
    if c in INDEXED_CLASSES or c.startswith("IndexedOption"):
        clen = length(d["content"])
        isopt = c.startswith("IndexedOption")
        for x in d["index"]:
            x = int(x)
            if x >= clen:
                return "index >= len(content)"
            if not isopt and x < 0:
                return "index < 0"
        inner = d["content"]["class"]
        if isopt and (inner in OPTION_CLASSES or inner in INDEXED_CLASSES):
            return "option contains " + inner
        if not isopt and (inner in OPTION_CLASSES or inner in INDEXED_CLASSES):
            return "indexed contains " + inner
        if par.get("__array__") == "categorical":
            pass  # uniqueness of categories is checked by the library as well; see categorical_error
        return validity_error(d["content"])
    if c == "ByteMaskedArray":
        if length(d["content"]) < len(d["mask"]):
            return "len(content) < len(mask)"
        inner = d["content"]["class"]
        if inner in OPTION_CLASSES or inner in INDEXED_CLASSES:
            return "option contains " + inner
        return validity_error(d["content"])
    if c == "BitMaskedArray":
        if d["length"] < 0:
            return "length < 0"
        if len(d["mask"]) * 8 < d["length"]:
            return "len(mask)*8 < length"
        if length(d["content"]) < d["length"]:
            return "len(content) < length"
        inner = d["content"]["class"]
        if inner in OPTION_CLASSES or inner in INDEXED_CLASSES:
            return "option contains " + inner
        return validity_error(d["content"])
    if c == "UnmaskedArray":
        inner = d["content"]["class"]
        if inner in OPTION_CLASSES or inner in INDEXED_CLASSES:
            return "option contains " + inner
        return validity_error(d["content"])
    if c.startswith("UnionArray"):
        tags, index = d["tags"], d["index"]
        if len(index) < len(tags):
            return "len(index) < len(tags)"
        lens = [length(x) for x in d["contents"]]
        for i in range(len(tags)):
            t = int(tags[i])
            if t < 0 or t >= len(lens):
                return "tag out of range"
            j = int(index[i])
            if j < 0 or j >= lens[t]:
                return "index out of range"
        for x in d["contents"]:
            if x["class"].startswith("UnionArray"):
                return "union contains union"
        for x in d["contents"]:
            e = validity_error(x)
            if e:
                return e
        return None
    if c == "RecordArray":
        n = length(d)
        for x in d["contents"]:
            if length(x) < n:
                return "len(content) < length"
        for x in d["contents"]:
            e = validity_error(x)
            if e:
                return e
        return None
    if c == "Record":
        return validity_error(d["array"])
    raise ValueError(c)


def _string_params_error(d):
    """Malformed string parameters: a list marked "string"/"bytestring" must directly contain a
    one-dimensional uint8 NumpyArray marked "char"/"byte" respectively."""
    arr = _param(d, "__array__")
    if arr not in ("string", "bytestring"):
        return None
    want = "char" if arr == "string" else "byte"
    c = d["content"]
    if c["class"] != "NumpyArray":
        return "%s content is not a NumpyArray" % arr
    if _param(c, "__array__") != want:
        return "%s content is not marked %s" % (arr, want)
    a = c["array"]
    if a.ndim != 1 or a.dtype != np.uint8:
        return "%s content must be 1-d uint8" % arr
    return None
