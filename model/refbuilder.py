"""Reference model of ArrayBuilder (DESIGN.md 11c "Builders"): a boring interpreter of the command alphabet that
builds plain Python values, plus the documented unification that is visible in to_list -- records reached at the
same position with the same name (or both unnamed) share one record type, absent fields are None, keys in order
of first appearance; tuples of the same arity share slots; everything else (int/float promotion, unions, options)
leaves to_list unchanged."""
import copy


class BuilderError(Exception):
    """The command sequence is malformed: the implementation must raise at this command."""


class _Rec(object):
    def __init__(self, name):
        self.name = name
        self.fields = {}     # key -> list of values placed (more than one = error at endrecord)
        self.order = []
        self.cur = None


class _Tup(object):
    def __init__(self, n):
        self.n = n
        self.slots = {i: [] for i in range(n)}
        self.cur = None


class _Lst(object):
    def __init__(self):
        self.items = []


class RefBuilder(object):
    def __init__(self):
        self.items = []
        self.stack = []

    def copy(self):
        return copy.deepcopy(self)

    def key(self):
        return repr((_dump(self.items), [_dump_frame(f) for f in self.stack]))

    # ---- placing values
    def _place(self, v):
        if not self.stack:
            self.items.append(v)
            return
        top = self.stack[-1]
        if isinstance(top, _Lst):
            top.items.append(v)
        elif isinstance(top, _Tup):
            if top.cur is None:
                raise BuilderError("value immediately after begintuple: needs index")
            top.slots[top.cur].append(v)
        else:
            if top.cur is None:
                raise BuilderError("value immediately after beginrecord: needs field")
            top.fields[top.cur].append(v)

    def _can_place(self):
        if not self.stack:
            return
        top = self.stack[-1]
        if isinstance(top, _Tup) and top.cur is None:
            raise BuilderError("needs index")
        if isinstance(top, _Rec) and top.cur is None:
            raise BuilderError("needs field")

    def apply(self, cmd):
        name, args = cmd[0], cmd[1:]
        if name == "null":
            self._place(None)
        elif name in ("boolean", "integer", "real", "complex", "string", "bytestring", "datetime", "timedelta"):
            self._place(args[0])
        elif name == "beginlist":
            self._can_place()
            self.stack.append(_Lst())
        elif name == "endlist":
            if not self.stack or not isinstance(self.stack[-1], _Lst):
                raise BuilderError("endlist without beginlist at this level")
            top = self.stack.pop()
            self._place(top)
        elif name == "begintuple":
            self._can_place()
            self.stack.append(_Tup(args[0]))
        elif name == "index":
            if not self.stack or not isinstance(self.stack[-1], _Tup):
                raise BuilderError("index without begintuple at this level")
            top = self.stack[-1]
            if not 0 <= args[0] < top.n:
                raise BuilderError("tuple index out of range")
            top.cur = args[0]
        elif name == "endtuple":
            if not self.stack or not isinstance(self.stack[-1], _Tup):
                raise BuilderError("endtuple without begintuple at this level")
            top = self.stack[-1]
            if any(len(v) > 1 for v in top.slots.values()):
                raise BuilderError("tuple index filled more than once")
            self.stack.pop()
            self._place(top)
        elif name == "beginrecord":
            self._can_place()
            self.stack.append(_Rec(args[0] if args else None))
        elif name == "field":
            if not self.stack or not isinstance(self.stack[-1], _Rec):
                raise BuilderError("field without beginrecord at this level")
            top = self.stack[-1]
            if args[0] not in top.fields:
                top.fields[args[0]] = []
                top.order.append(args[0])
            top.cur = args[0]
        elif name == "endrecord":
            if not self.stack or not isinstance(self.stack[-1], _Rec):
                raise BuilderError("endrecord without beginrecord at this level")
            top = self.stack[-1]
            if any(len(v) > 1 for v in top.fields.values()):
                raise BuilderError("record field filled more than once")
            self.stack.pop()
            self._place(top)
        elif name == "append":
            self._place(_Raw(args[0]))
        elif name == "extend":
            for v in args[0]:
                self._place(_Raw(v))
        elif name == "clear":
            self.items = []
            self.stack = []
        else:
            raise ValueError(name)

    # ---- snapshot value
    def snapshot(self):
        items = copy.deepcopy(self.items)
        _complete(items)
        return [_render(v) for v in items]

    def length(self):
        return len(self.items)


class _Raw(object):
    """An element appended by reference from an existing array: an opaque finished value."""
    def __init__(self, v):
        self.v = v


def _complete(values):
    """Unify the values found at one position (see module docstring); mutates the wrappers."""
    recs = {}
    tups = {}
    lists = []
    for v in values:
        if isinstance(v, _Rec):
            recs.setdefault(v.name, []).append(v)
        elif isinstance(v, _Tup):
            tups.setdefault(v.n, []).append(v)
        elif isinstance(v, _Lst):
            lists.append(v)
    for name, rs in recs.items():
        keys = []
        for r in rs:
            for k in r.order:
                if k not in keys:
                    keys.append(k)
        for k in keys:
            _complete([r.fields[k][0] for r in rs if k in r.fields and r.fields[k]])
        for r in rs:
            r.allkeys = keys
    for n, ts in tups.items():
        for i in range(n):
            _complete([t.slots[i][0] for t in ts if t.slots[i]])
    if lists:
        allitems = []
        for lst in lists:
            allitems.extend(lst.items)
        _complete(allitems)


def _render(v):
    if isinstance(v, _Raw):
        return v.v
    if isinstance(v, _Lst):
        return [_render(x) for x in v.items]
    if isinstance(v, _Tup):
        return tuple(_render(v.slots[i][0]) if v.slots[i] else None for i in range(v.n))
    if isinstance(v, _Rec):
        keys = getattr(v, "allkeys", v.order)
        return {k: (_render(v.fields[k][0]) if k in v.fields and v.fields[k] else None) for k in keys}
    return v


def _dump(vals):
    out = []
    for v in vals:
        if isinstance(v, _Raw):
            out.append(("raw", repr(v.v)))
        elif isinstance(v, _Lst):
            out.append(("L", _dump(v.items)))
        elif isinstance(v, _Tup):
            out.append(("T", v.n, tuple((i, _dump(v.slots[i])) for i in range(v.n))))
        elif isinstance(v, _Rec):
            out.append(("R", v.name, tuple((k, _dump(v.fields[k])) for k in v.order)))
        else:
            out.append((type(v).__name__, repr(v)))
    return tuple(out)


def _dump_frame(f):
    if isinstance(f, _Lst):
        return ("L", _dump(f.items))
    if isinstance(f, _Tup):
        return ("T", f.n, f.cur, tuple((i, _dump(f.slots[i])) for i in range(f.n)))
    return ("R", f.name, f.cur, tuple((k, _dump(f.fields[k])) for k in f.order))
