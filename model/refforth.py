"""Reference interpreter for AwkwardForth (property C19).  Never calls the library.

It is an AST interpreter with an explicit frame stack, written from standard Forth for the shared words
(floor division and modulo, two's-complement wrap at the machine width, flags -1/0) and from the word list
and error enum in ForthMachine.{h,cpp} for everything AwkwardForth-specific.  AwkwardForth's prose
documentation is not in this snapshot, so every place where the C++ makes a choice that standard Forth
leaves open is followed here and marked "CHOICE:" with the source line that makes it
(line numbers refer to /repo/src/libawkward/forth/ForthMachine.cpp unless another file is named).

Observable state = (is_ready, is_done, stack, variables, input positions, outputs) in exactly the word
layout of akb_forth_snapshot, so states are compared as tuples.
"""
import re
import struct

import numpy as np

ERRORS = ["none", "not_ready", "is_done", "user_halt", "recursion_depth_exceeded", "stack_underflow",
          "stack_overflow", "read_beyond", "seek_beyond", "skip_beyond", "rewind_beyond", "division_by_zero",
          "varint_too_big"]
E = {name: k for k, name in enumerate(ERRORS)}

DTYPES = ["bool", "int8", "int16", "int32", "int64", "uint8", "uint16", "uint32", "uint64", "float32", "float64"]
DTYPE_CODE = {n: k for k, n in enumerate(DTYPES)}
NPDT = {n: np.dtype(n) for n in DTYPES}

# typed read formats: letter -> (numpy dtype string little-endian, size)
FORMATS = {"?": ("?", 1), "b": ("i1", 1), "h": ("i2", 2), "i": ("i4", 4), "q": ("i8", 8), "n": ("i8", 8),
           "B": ("u1", 1), "H": ("u2", 2), "I": ("u4", 4), "Q": ("u8", 8), "N": ("u8", 8),
           "f": ("f4", 4), "d": ("f8", 8)}
NO_BIGENDIAN = set("?bB")   # no '!' variant in input_parser_words_ (lines 137-150)

RESERVED = {"(", ")", "\\", "\n", "", ":", ";", "recurse", "variable", "input", "output", "halt", "pause",
            "if", "then", "else", "do", "loop", "+loop", "begin", "again", "until", "while", "repeat", "exit",
            "!", "+!", "@", "len", "pos", "end", "seek", "skip", "<-", "+<-", "stack", "rewind", ".\"", "s\""}

BUILTINS = [".", "cr", ".s", "i", "j", "k", "dup", "drop", "swap", "over", "rot", "nip", "tuck",
            "+", "-", "*", "/", "mod", "/mod", "negate", "1+", "1-", "abs", "min", "max",
            "=", "<>", ">", ">=", "<", "<=", "0=", "invert", "and", "or", "xor", "lshift", "rshift",
            "false", "true"]
BUILTIN_SET = set(BUILTINS)

_INT_RE = re.compile(r"^-?[0-9]+$")
_HEX_RE = re.compile(r"^0x[0-9a-fA-F]+$")
_NBIT_RE = re.compile(r"^(#?)(!?)([0-9]+)bit->$")


class CompileError(Exception):
    pass


class Fault(Exception):
    def __init__(self, code):
        Exception.__init__(self, ERRORS[code])
        self.code = code


class Budget(Exception):
    """The program did not finish within the event budget (probably an endless loop)."""


class Unspecified(Exception):
    """The program reached a situation for which neither standard Forth nor AwkwardForth's word list defines
    a result (e.g. converting NaN to an integer); the case is not compared beyond this point."""


# ------------------------------------------------------------------------------------------ compiling

def tokenize(source):
    """Whitespace-separated words; a newline is its own token (it ends a backslash comment); after the
    words ." and s" the rest up to the next double quote is one string token (lines 1606-1707)."""
    toks = []
    n = len(source)
    p = 0
    while p < n:
        c = source[p]
        if c == "\n":
            toks.append("\n")
            p += 1
            continue
        if c in " \r\t\v\f":
            p += 1
            continue
        q = p
        while q < n and source[q] not in " \r\t\v\f\n":
            q += 1
        word = source[p:q]
        toks.append(word)
        p = q
        if word in (".\"", "s\""):
            if p < n and source[p] == "\n":
                # CHOICE: a newline directly after the word does not start a string (the newline token follows
                # the word, line 1634, so the test of line 1653 fails); only seen inside comments here
                continue
            # exactly one separator character is consumed with the word, then leading whitespace is skipped
            if p < n:
                p += 1
            while p < n and source[p] in " \r\t\v\f\n":
                p += 1
            q = source.find("\"", p)
            if q < 0 or p >= n:
                raise CompileError("unclosed string")
            if "\\" in source[p:q]:
                # CHOICE: line 1679 stops a string early after a backslash; backslashes in strings are left
                # undefined here
                raise Unspecified("backslash in string")
            toks.append(("str", source[p:q]))
            p = q + 1
    return toks


def parse_int(word):
    """Strict literal syntax: -?digits or 0x hexdigits.  Returns None if the word is not a number."""
    if _INT_RE.match(word):
        return int(word, 10)
    if _HEX_RE.match(word):
        return int(word[2:], 16)
    return None


def parse_reader(word):
    """'#!h->' etc. -> (repeated, bigendian, fmt, nbits) or None."""
    m = _NBIT_RE.match(word)
    if m:
        nbits = int(m.group(3))
        if 0 < nbits <= 64:             # line 1468
            return (m.group(1) == "#", m.group(2) == "!", "nbit", nbits)
        return None
    if not word.endswith("->"):
        return None
    w = word[:-2]
    rep = w.startswith("#")
    if rep:
        w = w[1:]
    big = w.startswith("!")
    if big:
        w = w[1:]
    if w in ("varint", "zigzag"):
        if big:
            return None                 # not in input_parser_words_
        return (rep, False, w, 0)
    if w in FORMATS:
        if big and w in NO_BIGENDIAN:
            return None
        return (rep, big, w, 0)
    return None


class Program(object):
    def __init__(self):
        self.variables = []
        self.inputs = []
        self.outputs = []      # (name, dtype name)
        self.strings = []
        self.defs = {}         # name -> body (list of nodes)
        self.def_order = []
        self.main = []
        self.nested = False    # a definition inside a definition / control structure

    def names(self):
        return set(self.variables) | set(self.inputs) | set(n for n, _ in self.outputs) | set(self.defs)


class _Parser(object):
    def __init__(self, toks, bits):
        self.t = toks
        self.bits = bits
        self.prog = Program()

    def is_reserved(self, w):
        return (w in RESERVED or w in BUILTIN_SET or w in DTYPE_CODE or parse_reader(w) is not None)

    def check_new_name(self, w):
        if not isinstance(w, str):
            raise CompileError("name expected")
        if w in self.prog.names() or self.is_reserved(w) or parse_int(w) is not None:
            raise CompileError("names must be unique and not reserved words or integers: %r" % (w,))

    def parse(self):
        self.prog.main = self.body(0, len(self.t), None, 0, True)
        return self.prog

    def find_close(self, pos, stop, opens, closes, what):
        """Index of the token closing the structure opened at pos (nesting counted on opens/closes)."""
        nesting = 1
        p = pos
        while True:
            p += 1
            if p >= stop:
                raise CompileError("%s is missing its closing word" % what)
            w = self.t[p]
            if w in opens:
                nesting += 1
            elif w in closes:
                nesting -= 1
                if nesting == 0:
                    return p

    def body(self, start, stop, defn, dodepth, top):
        t = self.t
        out = []
        pos = start
        prog = self.prog
        while pos < stop:
            w = t[pos]
            if isinstance(w, tuple):
                raise CompileError("string outside .\" or s\"")
            if w == "(":
                pos = self.find_close(pos, stop, ("(",), (")",), "'('") + 1
            elif w == "\\":
                while pos < stop and t[pos] != "\n":
                    pos += 1
                pos += 1
            elif w == "\n":
                pos += 1
            elif w == ":":
                if pos + 1 >= stop or t[pos + 1] == ";":
                    raise CompileError("missing name in word definition")
                name = t[pos + 1]
                self.check_new_name(name)
                # CHOICE: a definition may appear inside another definition or a control structure; it is compiled
                # when met and defines a global word (lines 1798-1859).  Standard Forth has no nested definitions.
                if not top:
                    prog.nested = True
                close = self.find_close(pos + 1, stop, (":",), (";",), "definition")
                # the word is known while its own body is compiled (recursion by name, line 1838)
                prog.defs[name] = None
                prog.def_order.append(name)
                prog.defs[name] = self.body(pos + 2, close, name, 0, False)
                pos = close + 1
            elif w == "recurse":
                if defn is None:
                    raise CompileError("recurse outside a definition")
                out.append(("call", defn))
                pos += 1
            elif w == "variable":
                if pos + 1 >= stop:
                    raise CompileError("missing name in variable declaration")
                self.check_new_name(t[pos + 1])
                prog.variables.append(t[pos + 1])
                pos += 2
            elif w == "input":
                if pos + 1 >= stop:
                    raise CompileError("missing name in input declaration")
                self.check_new_name(t[pos + 1])
                prog.inputs.append(t[pos + 1])
                pos += 2
            elif w == "output":
                if pos + 2 >= stop:
                    raise CompileError("missing name or dtype in output declaration")
                self.check_new_name(t[pos + 1])
                if t[pos + 2] not in DTYPE_CODE:
                    raise CompileError("output dtype not recognized")
                prog.outputs.append((t[pos + 1], t[pos + 2]))
                pos += 3
            elif w == "halt":
                out.append(("halt",))
                pos += 1
            elif w == "pause":
                out.append(("pause",))
                pos += 1
            elif w == "if":
                close = self.find_close(pos, stop, ("if",), ("then",), "'if'")
                # the 'else' of this 'if' is the one at nesting 1
                nesting, els = 1, []
                for p in range(pos + 1, close):
                    if t[p] == "if":
                        nesting += 1
                    elif t[p] == "then":
                        nesting -= 1
                    elif t[p] == "else" and nesting == 1:
                        els.append(p)
                if len(els) > 1:
                    raise CompileError("two 'else' in one 'if'")
                if els:
                    cons = self.body(pos + 1, els[0], defn, dodepth, False)
                    alt = self.body(els[0] + 1, close, defn, dodepth, False)
                    out.append(("if", cons, alt))
                else:
                    out.append(("if", self.body(pos + 1, close, defn, dodepth, False), None))
                pos = close + 1
            elif w == "do":
                close = self.find_close(pos, stop, ("do",), ("loop", "+loop"), "'do'")
                out.append(("do", self.body(pos + 1, close, defn, dodepth + 1, False), t[close] == "+loop"))
                pos = close + 1
            elif w == "begin":
                # closing word: until / again / while ... repeat, with nested begin structures skipped
                nesting = 1
                p = pos
                wh = -1
                while True:
                    p += 1
                    if p >= stop:
                        raise CompileError("'begin' is missing its closing word")
                    x = t[p]
                    if x == "begin":
                        nesting += 1
                    elif x in ("until", "again"):
                        nesting -= 1
                        if nesting == 0:
                            break
                    elif x == "while":
                        if nesting == 1:
                            wh = p
                        p = self.find_close(p, stop, ("while",), ("repeat",), "'while'")
                        nesting -= 1
                        if nesting == 0:
                            break
                close = p
                if t[close] == "repeat":
                    out.append(("while", self.body(pos + 1, wh, defn, dodepth, False),
                                self.body(wh + 1, close, defn, dodepth, False)))
                elif t[close] == "again":
                    out.append(("again", self.body(pos + 1, close, defn, dodepth, False)))
                else:
                    out.append(("until", self.body(pos + 1, close, defn, dodepth, False)))
                pos = close + 1
            elif w == "exit":
                out.append(("exit",))
                pos += 1
            elif w in prog.variables:
                nxt = t[pos + 1] if pos + 1 < stop else None
                if nxt == "!":
                    out.append(("put", prog.variables.index(w)))
                elif nxt == "+!":
                    out.append(("inc", prog.variables.index(w)))
                elif nxt == "@":
                    out.append(("get", prog.variables.index(w)))
                else:
                    raise CompileError("missing '!', '+!', or '@' after variable name")
                pos += 2
            elif w in prog.inputs:
                k = prog.inputs.index(w)
                nxt = t[pos + 1] if pos + 1 < stop else None
                if nxt in ("len", "pos", "end", "seek", "skip"):
                    out.append(("in" + nxt, k))
                    pos += 2
                else:
                    rd = parse_reader(nxt) if isinstance(nxt, str) else None
                    if rd is None:
                        raise CompileError("missing '*-> stack/output', 'seek', 'skip', 'end', 'pos', or 'len'")
                    dest = t[pos + 2] if pos + 2 < stop else None
                    outnames = [n for n, _ in prog.outputs]
                    if dest == "stack":
                        out.append(("read", k, rd, None))
                    elif dest in outnames:
                        out.append(("read", k, rd, outnames.index(dest)))
                    else:
                        raise CompileError("missing 'stack' or 'output' after '*->'")
                    pos += 3
            elif w in [n for n, _ in prog.outputs]:
                k = [n for n, _ in prog.outputs].index(w)
                nxt = t[pos + 1] if pos + 1 < stop else None
                if nxt in ("<-", "+<-"):
                    if not (pos + 2 < stop and t[pos + 2] == "stack"):
                        raise CompileError("missing 'stack' after '<-'")
                    out.append(("write" if nxt == "<-" else "writeadd", k))
                    pos += 3
                elif nxt in ("dup", "len", "rewind"):
                    out.append(("out" + nxt, k))
                    pos += 2
                else:
                    raise CompileError("missing '<- stack', '+<- stack', 'dup', 'len', or 'rewind'")
            elif w in ("s\"", ".\""):
                if pos + 1 >= stop or not isinstance(t[pos + 1], tuple):
                    raise CompileError("unclosed string")
                out.append(("string" if w == "s\"" else "printstring", len(prog.strings)))
                prog.strings.append(t[pos + 1][1])
                pos += 2
            elif w in BUILTIN_SET:
                # CHOICE: i/j/k are compile errors outside 1/2/3 enclosing do loops of the same definition
                # (lines 2589-2606); standard Forth would read the caller's loop index
                need = {"i": 1, "j": 2, "k": 3}.get(w, 0)
                if dodepth < need:
                    raise CompileError("%s only allowed in %d nested 'do' loops" % (w, need))
                out.append(("w", w))
                pos += 1
            elif w in prog.defs:
                out.append(("call", w))
                pos += 1
            else:
                v = parse_int(w)
                if v is None or not (-(1 << 63) <= v < (1 << 64)):
                    # std::stoul throws beyond 2**64 (line 1420)
                    raise CompileError("unrecognized word or wrong context for word: %r" % (w,))
                out.append(("lit", v))
                pos += 1
        return out


def compile_source(source, bits):
    return _Parser(tokenize(source), bits).parse()


# ------------------------------------------------------------------------------------------ running

class _Frame(object):
    __slots__ = ("kind", "body", "pc", "cost", "a", "b", "defname")

    def __init__(self, kind, body, cost, a=None, b=None, defname=None):
        self.kind = kind      # main word seg doctl untilctl againctl whilectl
        self.body = body
        self.pc = 0
        self.cost = cost      # 1 for what the C++ calls a segment on its return stack, 0 for a controller
        self.a = a
        self.b = b
        self.defname = defname


class _Output(object):
    def __init__(self, dtype):
        self.dtype = dtype
        self.np = NPDT[dtype]
        self.items = []       # numpy scalars of self.np

    def conv(self, value, srckind):
        """(OUT)value of C++: srckind is 'int' (any integer type, given as Python int), 'float' or 'bool'."""
        dt = self.np
        if srckind == "float":
            v = float(value)
            if dt.kind == "f":
                with np.errstate(over="ignore", invalid="ignore"):
                    return dt.type(v)
            if dt.kind == "b":
                return np.bool_(v != 0)
            if v != v or v in (float("inf"), float("-inf")):
                raise Unspecified("float->int conversion of nan/inf")
            iv = int(v)     # truncation toward zero
            info = np.iinfo(dt)
            if not (info.min <= iv <= info.max):
                raise Unspecified("float->int conversion out of range")
            return dt.type(iv)
        iv = int(value)
        if dt.kind == "b":
            return np.bool_(iv != 0)
        if dt.kind == "f":
            return dt.type(iv)
        bits = dt.itemsize * 8
        iv &= (1 << bits) - 1
        if dt.kind == "i" and iv >= (1 << (bits - 1)):
            iv -= (1 << bits)
        return dt.type(iv)

    def raw(self):
        return np.array(self.items, dtype=self.np).tobytes() if self.items else b""


class RefMachine(object):
    """One run of one program on one configuration."""

    def __init__(self, prog, bits=64, stack_max=1024, rec_max=1024, budget=100000):
        self.p = prog
        self.bits = bits
        self.mask = (1 << bits) - 1
        self.sign = 1 << (bits - 1)
        self.stack_max = stack_max
        self.rec_max = rec_max
        self.budget0 = budget
        self.reset()

    # -------------------------------------------------------------- state
    def reset(self):
        self.stack = []
        self.vars = [0] * len(self.p.variables)
        self.inputs = None
        self.pos = []
        self.outs = []
        self.ready = False
        self.frames = []
        self.targets = []      # frame-stack heights at which run/resume/call stop (C++ recursion_target_depth_)
        self.loops = []        # [i, stop] per active do loop, innermost last
        self.depth = 0
        self.error = 0
        self.trace = []
        self.printed = []
        self.events = 0
        self.budget = self.budget0
        self.last_tag = "begin"
        self.hazard_at = None
        self.evlog = []        # every executed event, also those that leave the state unchanged:
        #                        (tag, stack top before, loop increments so far, exits so far, index of the trace
        #                        entry that was current when the event started)
        self.exits = 0         # executed 'exit' words so far (recorded in the trace)
        self.marks = set()     # noteworthy events of this execution, for reports (e.g. "exit-under-do")
        if self.p.nested:
            self.marks.add("nested-definition")
        self.pre = ()          # top of the stack (<= 3 cells) before the event being executed
        self.hazards = set()   # operations that are traps/undefined behaviour in C++ (the check isolates them)
        self.loop_incs = 0     # completed do-loop iterations so far (recorded in the trace)

    def wrap(self, v):
        v &= self.mask
        return v - (self.mask + 1) if v & self.sign else v

    def begin(self, inputs):
        self.reset()
        self.inputs = [bytes(inputs[name]) for name in self.p.inputs]
        self.pos = [0] * len(self.inputs)
        self.outs = [_Output(dt) for _, dt in self.p.outputs]
        self.frames = [_Frame("main", self.p.main, 1)]
        self.depth = 1
        self.targets = [0]
        self.ready = True
        self.note("begin")

    @property
    def done(self):
        return not self.targets

    def words(self):
        w = [1 if self.ready else 0, 1 if self.done else 0]
        w.extend(self.body_words())
        return tuple(w)

    def body_words(self):
        w = [len(self.stack)]
        w.extend(self.stack)
        w.append(len(self.vars))
        w.extend(self.vars)
        w.append(len(self.pos))
        w.extend(self.pos)
        w.append(len(self.outs))
        for o in self.outs:
            raw = o.raw()
            w.append(DTYPE_CODE[o.dtype])
            w.append(len(o.items))
            if raw:
                raw += b"\0" * (-len(raw) % 8)
                w.extend(struct.unpack("<%dq" % (len(raw) // 8), raw))
        return tuple(w)

    def note(self, tag):
        """Record the observable state after an event if it changed (consecutive duplicates collapse)."""
        bw = self.body_words()
        if not self.trace or self.trace[-1][0] != bw:
            self.trace.append((bw, tag, self.loop_incs, self.pre, self.exits))

    # -------------------------------------------------------------- stack helpers
    def need(self, n):
        if len(self.stack) < n:
            raise Fault(E["stack_underflow"])

    def room(self, n=1):
        if len(self.stack) + n > self.stack_max:
            raise Fault(E["stack_overflow"])

    def push(self, v):
        if len(self.stack) >= self.stack_max:
            raise Fault(E["stack_overflow"])
        self.stack.append(self.wrap(v))

    def pop(self):
        if not self.stack:
            raise Fault(E["stack_underflow"])
        return self.stack.pop()

    def push_frame(self, fr):
        # CHOICE: the recursion limit counts every nested segment: word calls and the bodies of if/else,
        # do, begin loops alike, the main program being level 1 (lines 2981, 3068, 3141)
        if fr.cost and self.depth == self.rec_max:
            raise Fault(E["recursion_depth_exceeded"])
        self.depth += fr.cost
        self.frames.append(fr)

    def pop_frame(self):
        fr = self.frames.pop()
        self.depth -= fr.cost
        return fr

    # -------------------------------------------------------------- external commands
    def resume(self):
        if not self.ready:
            return E["not_ready"]
        if self.done:
            return E["is_done"]
        if self.error:
            return self.error
        return self._go()

    def run(self, inputs):
        self.begin(inputs)
        return self._go()

    def call(self, name):
        if name not in self.p.defs:
            raise KeyError(name)
        if not self.ready:
            return E["not_ready"]
        if self.error:
            return self.error
        # a call runs the word on the current stack and comes back to where the machine was (lines 1228-1255).
        # The word is one more nested segment, so at the recursion limit it must fail like any other call; the C++
        # pushes it unchecked (line 1238) and writes past its return-stack arrays, hence the hazard mark.
        if self.depth >= self.rec_max:
            self.hazards.add("call-at-max-depth")
            self.hazard_at = "call"
            self.error = E["recursion_depth_exceeded"]
            self.note("fault:recursion_depth_exceeded")
            return self.error
        if len(self.frames) > 1 and self.frames[-1].kind == "seg" and self.frames[-1].pc == len(self.frames[-1].body) \
                and self.frames[-2].kind == "doctl":
            self.marks.add("call-at-loop-end")     # paused on the last word of a do-loop body
        self.targets.append(len(self.frames))
        fr = _Frame("word", self.p.defs[name], 1, defname=name)
        self.depth += 1
        self.frames.append(fr)
        return self._go()

    def _go(self):
        target = self.targets[-1]
        try:
            paused = self._execute(target)
        except Fault as f:
            self.error = f.code
            if f.code == E["user_halt"]:
                # CHOICE: halt makes the machine not ready and done, keeping stack/variables/outputs
                # (lines 3001-3013)
                self.ready = False
                self.frames = []
                self.depth = 0
                self.loops = []
                self.targets = []
            self.note("fault:" + ERRORS[f.code])
            return f.code
        if not paused or len(self.frames) == target:
            self.targets.pop()
        return 0

    # -------------------------------------------------------------- the interpreter loop
    def _tick(self):
        self.events += 1
        if self.events > self.budget:
            raise Budget()

    def _execute(self, target):
        """Run until the frame stack is back to height ``target`` (False) or a pause (True)."""
        frames = self.frames
        while len(frames) > target:
            self._tick()
            fr = frames[-1]
            if fr.pc < len(fr.body):
                node = fr.body[fr.pc]
                fr.pc += 1
                op = node[0]
                if op == "pause":
                    if fr.pc == len(fr.body) and len(frames) > 1 and frames[-2].kind == "doctl" and frames[-2].b:
                        self.marks.add("pause-before-+loop")
                    # finished enclosing frames are left to the next resume, except that a pause at the very
                    # end of what is being run also ends it (lines 3015-3039)
                    self._unwind_finished(target)
                    self.note("pause")
                    return True
                self._node(node, fr)
            else:
                self._frame_end(fr)
        return False

    def _unwind_finished(self, target):
        """After a pause: leave frames whose work is complete, so that 'pause' as the last word behaves like
        the end of the program.  Loop controllers are not complete (they still have to test and iterate)."""
        frames = self.frames
        while len(frames) > target:
            fr = frames[-1]
            if fr.pc < len(fr.body) or fr.kind not in ("main", "word", "seg"):
                break
            below = frames[-2] if len(frames) > 1 else None
            if fr.kind == "seg" and below is not None and below.kind in ("doctl", "untilctl", "againctl", "whilectl"):
                break
            self.pop_frame()

    def _frame_end(self, fr):
        k = fr.kind
        if k in ("main", "word", "seg"):
            self.pop_frame()
            return
        if k == "doctl":
            # fr.a = body, fr.b = is_step; state: fr.defname is None before the first test
            loop = self.loops[-1]
            if fr.defname == "iter":
                self.loop_incs += 1
                self.last_tag = "+loop" if fr.b else "loop"
                self.pre = tuple(self.stack[-3:])
                self.evlog.append((self.last_tag, self.pre, self.loop_incs, self.exits, len(self.trace) - 1))
                if fr.b:
                    # '+loop' pops its step (line 3807)
                    step = self.pop()
                    loop[0] += step
                    self.note("+loop")
                else:
                    loop[0] += 1
            fr.defname = "iter"
            # CHOICE: the body runs while i < stop, tested before every iteration including the first; the
            # step of +loop is simply added (line 2664).  Standard Forth's DO always runs once and +LOOP ends
            # on crossing the boundary in either direction.
            if loop[0] >= loop[1]:
                self.loops.pop()
                self.pop_frame()
            else:
                self.push_frame(_Frame("seg", fr.a, 1))
            return
        if k == "againctl":
            self.push_frame(_Frame("seg", fr.a, 1))
            return
        if k == "untilctl":
            if fr.defname == "iter":
                self.last_tag = "until"
                self.pre = tuple(self.stack[-3:])
                self.evlog.append((self.last_tag, self.pre, self.loop_incs, self.exits, len(self.trace) - 1))
                flag = self.pop()
                self.note("until")
                if flag != 0:
                    self.pop_frame()
                    return
            fr.defname = "iter"
            self.push_frame(_Frame("seg", fr.a, 1))
            return
        if k == "whilectl":
            # phases: None -> run pre; "pre" -> test, run post; "post" -> run pre
            if fr.defname == "pre":
                self.last_tag = "while"
                self.pre = tuple(self.stack[-3:])
                self.evlog.append((self.last_tag, self.pre, self.loop_incs, self.exits, len(self.trace) - 1))
                flag = self.pop()
                self.note("while")
                if flag == 0:
                    self.pop_frame()
                    return
                fr.defname = "post"
                self.push_frame(_Frame("seg", fr.b, 1))
                return
            fr.defname = "pre"
            self.push_frame(_Frame("seg", fr.a, 1))
            return
        raise AssertionError(k)

    def _node(self, node, fr):
        op = node[0]
        st = self.stack
        self.pre = tuple(st[-3:])
        self.last_tag = node[1] if op == "w" else ("read:" + ("#" if node[2][0] else "") + ("!" if node[2][1] else "")
                                                   + node[2][2] if op == "read" else op)
        self.evlog.append((self.last_tag, self.pre, self.loop_incs, self.exits, len(self.trace) - 1))
        if op == "lit":
            self.push(node[1])
            self.note("lit")
        elif op == "w":
            self._builtin(node[1])
            self.note(node[1])
        elif op == "call":
            self.push_frame(_Frame("word", self.p.defs[node[1]], 1, defname=node[1]))
        elif op == "if":
            flag = self.pop()
            self.note("if")
            if flag != 0:
                self.push_frame(_Frame("seg", node[1], 1))
            elif node[2] is not None:
                self.push_frame(_Frame("seg", node[2], 1))
        elif op == "do":
            self.need(2)
            start = st.pop()
            stop = st.pop()
            self.note("do")
            # CHOICE: the number of active do loops is limited by the recursion depth too (line 3086)
            if len(self.loops) == self.rec_max:
                raise Fault(E["recursion_depth_exceeded"])
            self.loops.append([start, stop])
            self.push_frame(_Frame("doctl", [], 0, a=node[1], b=node[2]))
        elif op == "again":
            self.push_frame(_Frame("againctl", [], 0, a=node[1]))
        elif op == "until":
            self.push_frame(_Frame("untilctl", [], 0, a=node[1]))
        elif op == "while":
            self.push_frame(_Frame("whilectl", [], 0, a=node[1], b=node[2]))
        elif op == "exit":
            # leave the current word (or the program); loops of that word are discarded
            self.exits += 1
            while True:
                top = self.pop_frame()
                if top.kind == "doctl":
                    self.loops.pop()
                    self.marks.add("exit-in-do")
                    self.hazards.add("exit-in-do")      # the C++ mismanages its loop stack here (may read outside)
                if top.kind in ("word", "main"):
                    break
            if any(f.kind == "doctl" for f in self.frames):
                self.marks.add("exit-under-do")
                self.hazards.add("exit-under-do")
            if self.hazards and self.hazard_at is None:
                self.hazard_at = "exit"
        elif op == "halt":
            raise Fault(E["user_halt"])
        elif op == "put":
            self.vars[node[1]] = self.pop()
            self.note("!")
        elif op == "inc":
            v = self.pop()
            self.vars[node[1]] = self.wrap(self.vars[node[1]] + v)
            self.note("+!")
        elif op == "get":
            self.push(self.vars[node[1]])
            self.note("@")
        elif op == "inlen":
            self.push(len(self.inputs[node[1]]))
            self.note("len")
        elif op == "inpos":
            self.push(self.pos[node[1]])
            self.note("pos")
        elif op == "inend":
            self.push(-1 if self.pos[node[1]] == len(self.inputs[node[1]]) else 0)
            self.note("end")
        elif op == "inseek":
            to = self.pop()
            if to < 0 or to > len(self.inputs[node[1]]):
                raise Fault(E["seek_beyond"])
            self.pos[node[1]] = to
            self.note("seek")
        elif op == "inskip":
            n = self.pop()
            nxt = self.pos[node[1]] + n
            if not (-(1 << 63) <= nxt < (1 << 63)):
                # position + count is computed in int64 by the C++ (signed overflow; the sanitizer build aborts)
                self.hazards.add("skip-overflow")
                self.hazard_at = "inskip"
            if nxt < 0 or nxt > len(self.inputs[node[1]]):
                raise Fault(E["skip_beyond"])
            self.pos[node[1]] = nxt
            self.note("skip")
        elif op == "read":
            try:
                self._read(node[1], node[2], node[3])
            finally:
                self.note("read:" + ("#" if node[2][0] else "") + ("!" if node[2][1] else "") + node[2][2])
        elif op == "write":
            v = self.pop()
            o = self.outs[node[1]]
            o.items.append(o.conv(v, "int"))
            self.note("<-")
        elif op == "writeadd":
            v = self.pop()
            o = self.outs[node[1]]
            prev = o.items[-1] if o.items else o.np.type(0)
            with np.errstate(over="ignore", invalid="ignore"):
                # previous + (OUT)value computed in OUT (ForthOutputBuffer.cpp lines 687-707)
                if o.np.kind == "b":
                    new = np.bool_(bool(prev) or bool(o.conv(v, "int")))
                elif o.np.kind == "f":
                    new = o.np.type(prev + o.conv(v, "int"))
                else:
                    total = int(prev) + int(o.conv(v, "int"))
                    if o.np.kind == "i" and o.np.itemsize >= 4 and not (np.iinfo(o.np).min <= total <= np.iinfo(o.np).max):
                        # wraps here; signed overflow in C++ (undefined behaviour, UBSan aborts)
                        self.hazards.add("+<-overflow")
                        self.hazard_at = "writeadd"
                    new = o.conv(total, "int")
            o.items.append(new)
            self.note("+<-")
        elif op == "outdup":
            n = self.pop()
            o = self.outs[node[1]]
            # CHOICE: duplicating the last item of an empty output is 'rewind beyond'
            # (ForthOutputBuffer.cpp line 94); a count <= 0 does nothing (line 97)
            if not o.items:
                raise Fault(E["rewind_beyond"])
            if n > 0:
                if n > 100000:
                    raise Unspecified("huge dup count")
                o.items.extend([o.items[-1]] * n)
            self.note("outdup")
        elif op == "outlen":
            self.push(len(self.outs[node[1]].items))
            self.note("outlen")
        elif op == "outrewind":
            n = self.pop()
            o = self.outs[node[1]]
            if len(o.items) - n < 0:
                raise Fault(E["rewind_beyond"])
            if n < 0:
                # a negative count would make the output longer than what was written
                raise Unspecified("negative rewind")
            del o.items[len(o.items) - n:]
            self.note("rewind")
        elif op == "string":
            self.push(node[1])
            self.note("s\"")
        elif op == "printstring":
            self.printed.append(self.p.strings[node[1]])
        else:
            raise AssertionError(op)

    # -------------------------------------------------------------- builtin words
    def _builtin(self, w):
        st = self.stack
        wrap = self.wrap
        if w in _BIN:
            self.need(2)
            b = st.pop()
            a = st.pop()
            st.append(wrap(_BIN[w](a, b)))
        elif w in _CMP:
            self.need(2)
            b = st.pop()
            a = st.pop()
            st.append(-1 if _CMP[w](a, b) else 0)
        elif w in ("/", "mod", "/mod"):
            self.need(2)
            if st[-1] == 0:
                # CHOICE: at 'division by zero' the divisor has already been popped by / and mod
                # (lines 3533-3536, 3550-3553) but not by /mod (lines 3566-3571)
                if w != "/mod":
                    st.pop()
                raise Fault(E["division_by_zero"])
            b = st.pop()
            a = st.pop()
            if a == -self.sign and b == -1:
                self.hazards.add("min/-1")
                self.hazard_at = w
            # floored division (Python's // and % are floored), wrapped: min / -1 wraps to min
            if w == "/":
                st.append(wrap(a // b))
            elif w == "mod":
                st.append(wrap(a % b))
            else:
                st.append(wrap(a % b))
                st.append(wrap(a // b))
        elif w in ("lshift", "rshift"):
            self.need(2)
            n = st.pop()
            a = st.pop()
            if not (0 <= n < self.bits):
                # standard Forth: ambiguous condition; in C++ undefined behaviour (lines 3757, 3767)
                st.append(a)
                st.append(n)
                raise Unspecified("shift count outside 0..bits-1")
            if w == "lshift":
                st.append(wrap(a << n))
            else:
                # CHOICE: rshift is an arithmetic (sign-propagating) shift (line 3767); standard Forth's RSHIFT
                # is logical.  The repository's own test_gforth_lshift_rshift has the gforth values commented out.
                st.append(a >> n)
        elif w == "dup":
            self.need(1)
            self.room()
            st.append(st[-1])
        elif w == "drop":
            self.need(1)
            st.pop()
        elif w == "swap":
            self.need(2)
            st[-1], st[-2] = st[-2], st[-1]
        elif w == "over":
            self.need(2)
            self.room()
            st.append(st[-2])
        elif w == "rot":
            self.need(3)
            st[-3], st[-2], st[-1] = st[-2], st[-1], st[-3]
        elif w == "nip":
            self.need(2)
            del st[-2]
        elif w == "tuck":
            self.need(2)
            self.room()
            st.insert(len(st) - 2, st[-1])
        elif w == "negate":
            self.need(1)
            st[-1] = wrap(-st[-1])
        elif w == "1+":
            self.need(1)
            st[-1] = wrap(st[-1] + 1)
        elif w == "1-":
            self.need(1)
            st[-1] = wrap(st[-1] - 1)
        elif w == "abs":
            self.need(1)
            st[-1] = wrap(abs(st[-1]))
        elif w == "0=":
            self.need(1)
            st[-1] = -1 if st[-1] == 0 else 0
        elif w == "invert":
            self.need(1)
            st[-1] = wrap(~st[-1])
        elif w == "false":
            self.push(0)
        elif w == "true":
            self.push(-1)
        elif w in ("i", "j", "k"):
            self.room()
            st.append(wrap(self.loops[-1 - "ijk".index(w)][0]))
        elif w == ".":
            self.printed.append("%d " % self.pop())
        elif w == "cr":
            self.printed.append("\n")
        elif w == ".s":
            self.printed.append("<%d> " % len(st) + "".join("%d " % x for x in st) + "<- top ")
        else:
            raise AssertionError(w)

    # -------------------------------------------------------------- typed reads
    def _read(self, k, rd, outk):
        rep, big, fmt, nbits = rd
        n = 1
        if rep:
            n = self.pop()
        data = self.inputs[k]
        out = self.outs[outk] if outk is not None else None
        if n < 0:
            # a negative item count is meaningless; anything but a plain error or no effect is a defect,
            # which the check decides (it sees this marker)
            raise Unspecified("negative repeat count")
        if n > 100000:
            raise Unspecified("huge repeat count")
        if fmt in ("varint", "zigzag"):
            for _ in range(n):
                shift = 0
                result = 0
                while True:
                    if self.pos[k] + 1 > len(data):
                        raise Fault(E["read_beyond"])
                    byte = data[self.pos[k]]
                    self.pos[k] += 1
                    # CHOICE: at most 9 bytes (63 bits); a 10th byte is 'varint too big' whatever it holds
                    # (lines 2714, 2755)
                    if shift == 63:
                        raise Fault(E["varint_too_big"])
                    result |= (byte & 0x7f) << shift
                    shift += 7
                    if not (byte & 0x80):
                        break
                if fmt == "zigzag":
                    result = (result >> 1) ^ -(result & 1)
                if out is None:
                    self.push(result)
                else:
                    out.items.append(out.conv(result, "int"))
            return
        if fmt == "nbit":
            # items of nbits bits, least significant bit first across bytes; '!' reverses the bits of every byte
            nbytes = (n * nbits + 7) // 8
            acc = 0
            have = 0
            taken = 0
            for _ in range(n):
                while have < nbits:
                    if self.pos[k] + 1 > len(data):
                        raise Fault(E["read_beyond"])
                    byte = data[self.pos[k]]
                    self.pos[k] += 1
                    taken += 1
                    if big:
                        byte = int("{:08b}".format(byte)[::-1], 2)
                    acc |= byte << have
                    have += 8
                v = acc & ((1 << nbits) - 1)
                acc >>= nbits
                have -= nbits
                if out is None:
                    self.push(v)
                else:
                    out.items.append(out.conv(v, "int"))
            assert taken == nbytes
            return
        npfmt, size = FORMATS[fmt]
        if size > 1 and self.pos[k] % size != 0:
            # fine on x86, but a misaligned load in C++ (the sanitizer build aborts)
            self.hazards.add("misaligned-read")
            self.hazard_at = self.last_tag
        total = n * size
        if self.pos[k] + total > len(data):
            raise Fault(E["read_beyond"])
        raw = data[self.pos[k]:self.pos[k] + total]
        self.pos[k] += total
        if fmt == "?":
            if any(b > 1 for b in raw):
                raise Unspecified("bool byte other than 0/1")
        arr = np.frombuffer(raw, dtype=np.dtype((">" if big else "<") + npfmt))
        kind = "float" if fmt in "fd" else "int"
        for x in arr.tolist():
            if out is None:
                if kind == "float":
                    if x != x or x in (float("inf"), float("-inf")):
                        raise Unspecified("float->int conversion of nan/inf")
                    x = int(x)
                    if not (-self.sign <= x < self.sign):
                        raise Unspecified("float->int conversion out of range")
                self.push(int(x))
            else:
                out.items.append(out.conv(x, kind))


_BIN = {"+": lambda a, b: a + b, "-": lambda a, b: a - b, "*": lambda a, b: a * b,
        "min": min, "max": max, "and": lambda a, b: a & b, "or": lambda a, b: a | b, "xor": lambda a, b: a ^ b}
_CMP = {"=": lambda a, b: a == b, "<>": lambda a, b: a != b, ">": lambda a, b: a > b, ">=": lambda a, b: a >= b,
        "<": lambda a, b: a < b, "<=": lambda a, b: a <= b}


def describe(words):
    """Readable form of a state tuple (with the two flag words)."""
    w = list(words)
    out = {"is_ready": bool(w[0]), "is_done": bool(w[1])}
    out.update(describe_body(w[2:]))
    return out


def describe_body(w):
    w = list(w)
    n = w[0]
    out = {"stack": w[1:1 + n]}
    p = 1 + n
    n = w[p]
    out["variables"] = w[p + 1:p + 1 + n]
    p += 1 + n
    n = w[p]
    out["input_positions"] = w[p + 1:p + 1 + n]
    p += 1 + n
    nout = w[p]
    p += 1
    outs = []
    for _ in range(nout):
        code, length = w[p], w[p + 1]
        p += 2
        if length < 0:
            outs.append((DTYPES[code], "length %d" % length))
            continue
        nbytes = length * NPDT[DTYPES[code]].itemsize
        nwords = (nbytes + 7) // 8
        raw = struct.pack("<%dq" % nwords, *w[p:p + nwords])[:nbytes]
        p += nwords
        outs.append((DTYPES[code], np.frombuffer(raw, dtype=NPDT[DTYPES[code]]).tolist()))
    out["outputs"] = outs
    return out
