"""Reference semantics of operations on typed logical values (DESIGN.md 4 and 11c).

Deliberately naive implementations on nested Python lists.  Inputs are (T, tvs): a generation type
(model/values.py) and the list of typed item values; outputs are plain logical values (union tags
stripped).  ``RefError`` = the operation must raise; ``Skip`` = the reference does not define the case
(branching depths, documented refusals) and only the differential checks apply.
"""
import itertools
import math

import numpy as np

from values import U, strip, depth as tdepth


class RefError(Exception):
    """The operation is required to fail with an ordinary exception."""


class Skip(Exception):
    """The reference semantics does not define this case."""


###################################################################### helpers on types

def item_types(T):
    """Strip option wrappers: (inner type, is_option)."""
    if T[0] == "opt":
        return T[1], True
    return T, False


def array_depth(T):
    lo, hi = tdepth(T)
    return 1 + lo, 1 + hi


def is_list(T):
    return T[0] in ("var", "reg", "str", "bytes")


def unwrap_union(T, v):
    """(type, value) of a possibly union-typed value."""
    while isinstance(v, U):
        T = T[1][v.tag]
        v = v.v
    return T, v


def wrap_index(i, n):
    if i < 0:
        i += n
    if not 0 <= i < n:
        raise RefError("index out of range")
    return i


###################################################################### C01 / C10: getitem

class Field(object):
    def __init__(self, name):
        self.name = name


class Fields(object):
    def __init__(self, names):
        self.names = list(names)


class Jagged(object):
    """A jagged index: nested lists of ints / bools / None matching the array's list structure."""

    def __init__(self, value):
        self.value = value


def project(T, v, key):
    """Field projection mapped through every list / option / union level down to the records."""
    if isinstance(v, U):
        T, v = unwrap_union(T, v)
    k = T[0]
    if k == "opt":
        if v is None:
            return None
        return project(T[1], v, key)
    if k in ("var", "reg"):
        return [project(T[1] if k == "var" else T[2], e, key) for e in v]
    if k == "rec":
        if isinstance(key, Fields):
            for name in key.names:
                if name not in v:
                    raise RefError("no field " + name)
            return {name: strip(v[name]) for name in key.names}
        if key.name not in v:
            raise RefError("no field " + key.name)
        return v[key.name]
    if k == "tup":
        if isinstance(key, Fields):
            out = []
            for name in key.names:
                if not (name.isdigit() and int(name) < len(v)):
                    raise RefError("no field " + name)
                out.append(strip(v[int(name)]))
            return tuple(out)
        if not (key.name.isdigit() and int(key.name) < len(v)):
            raise RefError("no field " + key.name)
        return v[int(key.name)]
    raise RefError("no fields at a leaf")


def project_type(T, key):
    k = T[0]
    if k == "opt":
        return ("opt", project_type(T[1], key))
    if k == "var":
        return ("var", project_type(T[1], key))
    if k == "reg":
        return ("reg", T[1], project_type(T[2], key))
    if k == "rec":
        d = dict(T[1])
        if isinstance(key, Fields):
            for name in key.names:
                if name not in d:
                    raise RefError("no field " + name)
            return ("rec", tuple((name, d[name]) for name in key.names), None)
        if key.name not in d:
            raise RefError("no field " + key.name)
        return d[key.name]
    if k == "tup":
        if isinstance(key, Fields):
            for name in key.names:
                if not (name.isdigit() and int(name) < len(T[1])):
                    raise RefError("no field")
            return ("tup", tuple(T[1][int(name)] for name in key.names))
        if not (key.name.isdigit() and int(key.name) < len(T[1])):
            raise RefError("no field")
        return T[1][int(key.name)]
    if k == "union":
        raise Skip("field projection through a union")
    raise RefError("no fields at a leaf")


def _contains_union(T):
    k = T[0]
    if k == "union":
        return True
    if k in ("var", "opt"):
        return _contains_union(T[1])
    if k == "reg":
        return _contains_union(T[2])
    if k == "rec":
        return any(_contains_union(t) for _, t in T[1])
    if k == "tup":
        return any(_contains_union(t) for t in T[1])
    return False


def _option_index_undefined(rest):
    """An index array with missing values is defined by the model when it stands alone or comes last after plain
    integers and range slices (each selected list is then indexed by it, None giving None); next to other index
    arrays, newaxis or ellipsis the library itself documents the combination as unsupported."""
    if not any(isinstance(x, list) for x in rest):
        return False
    if len([x for x in rest if x is not None]) == 1:
        return False
    if not isinstance(rest[-1], list):
        return True
    return not all(isinstance(x, (int, np.integer, slice)) and not isinstance(x, bool) for x in rest[:-1])


def getitem(T, tvs, items):
    """items: tuple of int | slice | Ellipsis | None(newaxis) | Field | Fields | numpy int/bool array |
    list with None (option index array) | Jagged."""
    if not isinstance(items, tuple):
        items = (items,)
    # field items are pulled to the front (projection commutes with positional slicing)
    fields = [x for x in items if isinstance(x, (Field, Fields))]
    rest = [x for x in items if not isinstance(x, (Field, Fields))]
    v = list(tvs)
    for f in fields:
        T2 = project_type(("var", T), f)[1]
        v = [project(T, e, f) for e in v]
        T = T2
    if not rest:
        return strip(v)
    if _contains_union(T):
        raise Skip("positional slicing through a union")
    if _has_kind(T, ("rec", "tup")) and any(isinstance(x, (int, np.integer)) and not isinstance(x, bool) for x in rest) and \
            any(isinstance(x, (np.ndarray, list, Jagged)) or (isinstance(x, tuple) and x and x[0] == "bool") for x in rest):
        # an integer next to an index array is itself advanced (NumPy): the broadcast dimension comes first and the
        # records are zipped along it; the model slices field by field and leaves this combination undefined
        raise Skip("records sliced by an integer together with an index array")
    if _option_index_undefined(rest):
        raise Skip("option-type index array combined with other index items (the library calls several of these undefined)")
    lo, hi = array_depth(T)
    # ellipsis expansion
    if sum(1 for x in rest if x is Ellipsis) > 1:
        raise RefError("more than one ellipsis")
    consuming = 0
    for x in rest:
        if x is Ellipsis or x is None:
            continue
        if isinstance(x, np.ndarray) and x.dtype == np.bool_:
            consuming += x.ndim
        else:
            consuming += 1
    if lo != hi and _has_kind(T, ("rec", "tup")) and (consuming > lo or any(x is None for x in rest)):
        # records whose fields differ in depth: a slice that reaches below the shallowest field (or inserts a new axis)
        # means something different for each field; the statement does not fix the outcome
        raise Skip("records with fields of different depth sliced below the shallowest field")
    if any(x is Ellipsis for x in rest):
        if fields:
            raise Skip("ellipsis together with field names (refused for records of different depths)")
        if lo != hi:
            raise Skip("ellipsis with branching depth")
        n = max(0, lo - consuming)
        i = [k for k, x in enumerate(rest) if x is Ellipsis][0]
        rest = rest[:i] + [slice(None)] * n + rest[i + 1:]
    # advanced arrays: booleans -> nonzero; all broadcast together
    expanded = []
    for x in rest:
        if isinstance(x, np.ndarray) and x.dtype == np.bool_:
            expanded.append(("bool", x))
        else:
            expanded.append(x)
    adv_pos = [k for k, x in enumerate(expanded)
               if isinstance(x, np.ndarray) or (isinstance(x, tuple) and x[0] == "bool") or isinstance(x, list)]
    if _option_index_undefined(rest):
        raise Skip("option-type index array combined with other index items (the library calls several of these undefined)")
    nadv = 0
    anyempty = False
    for kpos in adv_pos:
        x = expanded[kpos]
        nadv += 1
        size = int(x[1].sum()) if isinstance(x, tuple) else (len(x) if isinstance(x, list) else x.size)
        anyempty = anyempty or size == 0
    if nadv > 1 and anyempty:
        raise Skip("several advanced indexes of which one selects nothing (length-0 broadcasting)")
    jag = [x for x in expanded if isinstance(x, Jagged)]
    if jag and (adv_pos or len(jag) > 1):
        raise Skip("jagged index mixed with other advanced indexes")
    if adv_pos:
        # advanced indexes separated by a basic (slice/newaxis) item: documented refusal
        span = expanded[adv_pos[0]:adv_pos[-1] + 1]
        if any(isinstance(x, slice) or x is None for x in span):
            raise Skip("advanced indexes separated by basic ones")
        # NumPy treats integers between/next to arrays as advanced too; adjacent ints give the same result
        # as basic ints only when they are not followed by... keep to the clear cases
    _static(T, expanded, True)
    return strip(_get_list(T, v, expanded, None, {}))


def _static(T, items, first):
    """Type-level errors, raised whatever the data (so also for empty arrays): more positional indexes
    than dimensions, and out-of-range integers for *regular* dimensions.  ``T`` is the item type of the
    list the next consuming index applies to; ``first``: that list is the array itself (length = data)."""
    items = [x for x in items if x is not None]
    if not items:
        return
    head, tail = items[0], items[1:]
    if isinstance(head, Jagged):
        return
    # ``T`` is the element type; the list being indexed is regular only if we came through ("reg", size, T)
    _static_elem(T, tail)


def _static_elem(T, items):
    items = [x for x in items if x is not None]
    if not items:
        return
    k = T[0]
    if k == "opt":
        return _static_elem(T[1], items)
    if k in ("rec", "tup"):
        ts = [t for _, t in T[1]] if k == "rec" else list(T[1])
        for t in ts:
            _static_elem(t, items)
        return
    if k == "union":
        raise Skip("union")
    if k in ("var", "reg"):
        head, tail = items[0], items[1:]
        if isinstance(head, Jagged):
            return
        if k == "reg":
            size = T[1]
            if isinstance(head, tuple) and head[0] == "bool":
                if head[1].ndim != 1:
                    raise Skip("multidimensional boolean index")
                if len(head[1]) != size:
                    raise Skip("boolean index of the wrong length")
                head = np.nonzero(head[1])[0]
            if isinstance(head, (int, np.integer)) and not isinstance(head, (bool, np.bool_)):
                if not -size <= int(head) < size:
                    raise RefError("index out of range for a regular dimension")
            elif isinstance(head, np.ndarray) and head.dtype.kind in "iu" and head.size > 0:
                if (head < -size).any() or (head >= size).any():
                    raise RefError("index array out of range for a regular dimension")
            elif isinstance(head, list):
                if any(x is not None and not -size <= int(x) < size for x in head):
                    raise RefError("index array out of range for a regular dimension")
        return _static_elem(_child(T), tail)
    if k in ("str", "bytes"):
        raise Skip("slicing into the characters of a string")
    raise RefError("too many indices")


def _static_regular_check(T, size, item):
    pass


def _bool_to_ints(T, lst_len, mask):
    return np.nonzero(mask)


def _get_list(T, lst, items, k, ctx):
    """Apply items to the list ``lst`` (elements of type T). k: current position in the broadcast advanced
    shape (None before the first advanced index)."""
    if not items:
        return lst
    head, tail = items[0], items[1:]
    n = len(lst)
    if isinstance(head, (int, np.integer)) and not isinstance(head, (bool, np.bool_)):
        i = wrap_index(int(head), n)
        return _get_item(T, lst[i], tail, k, ctx)
    if isinstance(head, slice):
        if head.step == 0:
            raise RefError("slice step 0")
        return [_get_item(T, e, tail, k, ctx) for e in lst[head]]
    if head is None:
        return [_get_list(T, lst, tail, k, ctx)]
    if isinstance(head, tuple) and head[0] == "bool":
        mask = head[1]
        if mask.ndim != 1:
            raise Skip("multidimensional boolean index on nested lists")
        if len(mask) != n:
            # NumPy refuses; the library's front end converts masks with nonzero() before any length is
            # known (src/python/content.cpp, not compilable here): undefined in the model
            raise Skip("boolean index of the wrong length")
        head = np.nonzero(mask)[0]
    if isinstance(head, list):
        # option-type integer index
        if k is not None:
            raise Skip("option index after another advanced index")
        out = []
        for j, ix in enumerate(head):
            if ix is None:
                out.append(None)
            else:
                out.append(_get_item(T, lst[wrap_index(int(ix), n)], tail, (j,), ctx))
        return out
    if isinstance(head, np.ndarray):
        if head.dtype.kind not in "iu":
            raise RefError("index arrays must be integer or boolean")
        if k is None:
            shape = ctx.get("shape")
            if shape is None:
                shape = _broadcast_shape([head] + [t for t in tail if isinstance(t, np.ndarray) or
                                                   (isinstance(t, tuple) and t[0] == "bool")], ctx)
                ctx = dict(ctx, shape=shape)
            barr = np.broadcast_to(head, shape)

            def build(prefix, d):
                if d == len(shape):
                    return _get_item(T, lst[wrap_index(int(barr[prefix]), n)], tail, prefix, ctx)
                return [build(prefix + (j,), d + 1) for j in range(shape[d])]
            return build((), 0)
        barr = np.broadcast_to(head, ctx["shape"])
        return _get_item(T, lst[wrap_index(int(barr[k]), n)], tail, k, ctx)
    if isinstance(head, Jagged):
        if tail:
            raise Skip("items after a jagged index")
        return _jagged(T, lst, head.value)
    raise RefError("bad index item %r" % (head,))


def _broadcast_shape(arrs, ctx):
    shapes = []
    for a in arrs:
        if isinstance(a, tuple):
            m = a[1]
            if m.ndim != 1:
                raise Skip("multidimensional boolean with other arrays")
            shapes.append((int(m.sum()),))
        else:
            shapes.append(a.shape)
    try:
        return np.broadcast_shapes(*shapes)
    except ValueError:
        raise RefError("index arrays do not broadcast")


def _get_item(T, x, items, k, ctx):
    """Apply the remaining items to one element x of type T."""
    if not items:
        return x
    if isinstance(x, U):
        raise Skip("union element")
    if all(it is None for it in items):
        out = x
        for _ in items:
            out = [out]
        return out
    kind = T[0]
    if kind == "opt":
        if x is None:
            # a missing element stays missing under basic items; whether an advanced index applied to a
            # missing list yields None or a list of None is not fixed by the statement
            if any(not (isinstance(it, (int, np.integer, slice))) for it in items):
                raise Skip("advanced index applied to a missing element")
            return None
        return _get_item(T[1], x, items, k, ctx)
    if kind == "var":
        return _get_list(T[1], x, items, k, ctx)
    if kind == "reg":
        return _get_list(T[2], x, items, k, ctx)
    if kind in ("rec", "tup"):
        # a positional index below a record applies to every field
        if kind == "rec":
            return {key: _get_item(t, x[key], items, k, ctx) for key, t in T[1]}
        return tuple(_get_item(t, x[i], items, k, ctx) for i, t in enumerate(T[1]))
    if kind in ("str", "bytes"):
        raise Skip("slicing into the characters of a string")
    if all(it is None for it in items):
        raise Skip("newaxis below the last dimension")
    raise RefError("too many indices")


def _jagged(T, lst, jv):
    """Apply a jagged index (list of per-list index lists) to the list lst of lists."""
    if len(jv) != len(lst):
        raise RefError("jagged index length mismatch")
    inner, isopt = item_types(T)
    if inner[0] not in ("var", "reg"):
        raise RefError("jagged index deeper than the array")
    Tc = inner[1] if inner[0] == "var" else inner[2]
    out = []
    for sub, ix in zip(lst, jv):
        if sub is None:
            if ix is None or len(ix) == 0:
                out.append(None)
                continue
            raise Skip("jagged index into a missing list")
        if ix is None:
            out.append(None)
            continue
        if len(ix) > 0 and all(isinstance(b, (bool, np.bool_)) for b in ix):
            if len(ix) != len(sub):
                raise RefError("jagged boolean length mismatch")
            out.append([e for e, b in zip(sub, ix) if b])
        elif any(isinstance(b, list) for b in ix):
            out.append(_jagged(Tc, sub, ix))
        else:
            row = []
            for b in ix:
                if b is None:
                    row.append(None)
                else:
                    row.append(sub[wrap_index(int(b), len(sub))])
            out.append(row)
    return out


def static_errors(T, items):
    """Type-level out-of-range: for regular dimensions an index is out of range by the *type*, even when
    the array holds no data.  Returns True if the expression must raise regardless of data."""
    rest = [x for x in items if not isinstance(x, (Field, Fields))]
    level = ("var", T)   # the array itself is a list whose length is data
    first = True
    for x in rest:
        if x is None or x is Ellipsis:
            if x is Ellipsis:
                return False
            continue
        if level is None:
            return False
        kind = level[0]
        while kind == "opt":
            level = level[1]
            kind = level[0]
        if kind not in ("var", "reg"):
            return False
        if kind == "reg" and not first:
            size = level[1]
            if isinstance(x, (int, np.integer)) and not isinstance(x, (bool, np.bool_)):
                if not -size <= int(x) < size:
                    return True
            elif isinstance(x, np.ndarray) and x.dtype.kind in "iu" and x.size > 0:
                if (x < -size).any() or (x >= size).any():
                    return True
        level = level[1] if kind == "var" else level[2]
        first = False
    return False


###################################################################### C05: num / flatten / local_index

def _axis_pos(T, axis, allow_equal_depth=False):
    """Non-negative position of the axis; out of range is decided by the *type* (so that empty arrays
    raise too).  Branching depths: only what every branch agrees on is defined."""
    lo, hi = array_depth(T)
    if _has_kind(T, ("unknown",)) or _has_empty_record(T):
        # depth of unknown-type / zero-field-record branches is a convention the statement does not fix
        if axis < 0 or axis >= lo:
            raise Skip("axis relative to an unknown-type or zero-field-record branch")
    if axis >= 0:
        if axis == hi and _has_kind(T, ("str", "bytes")):
            raise Skip("axis addressing the characters of strings (strings are leaves for negative axes only)")
        if axis >= hi:
            raise RefError("axis out of range")
        if axis >= lo:
            raise Skip("axis inside the branching region")
        return axis
    if lo != hi:
        raise Skip("negative axis with branching depth")
    pos = axis + lo
    if pos < 0:
        raise RefError("axis out of range")
    return pos


def _has_kind(T, kinds):
    k = T[0]
    if k in kinds:
        return True
    if k in ("var", "opt"):
        return _has_kind(T[1], kinds)
    if k == "reg":
        return _has_kind(T[2], kinds)
    if k == "rec":
        return any(_has_kind(t, kinds) for _, t in T[1])
    if k in ("tup", "union"):
        return any(_has_kind(t, kinds) for t in T[1])
    return False


def _has_empty_record(T):
    k = T[0]
    if k in ("rec", "tup") and len(T[1]) == 0:
        return True
    if k in ("var", "opt"):
        return _has_empty_record(T[1])
    if k == "reg":
        return _has_empty_record(T[2])
    if k == "rec":
        return any(_has_empty_record(t) for _, t in T[1])
    if k in ("tup", "union"):
        return any(_has_empty_record(t) for t in T[1])
    return False


def _child(T):
    return T[1] if T[0] == "var" else T[2]


def num(T, tvs, axis):
    pos = _axis_pos(T, axis)
    if pos == 0:
        if item_types(T)[0][0] in ("rec", "tup"):
            raise Skip("num(axis=0) of a record array (the library answers per field)")
        return len(tvs)
    return _num_items(T, tvs, pos)


def _num_items(T, items, pos):
    """items: a list at depth pos-1 above the addressed level."""
    out = []
    for e in items:
        out.append(_num_item(T, e, pos))
    return out


def _num_item(T, e, pos):
    if isinstance(e, U):
        raise Skip("union")
    k = T[0]
    if k == "opt":
        if e is None:
            return None
        return _num_item(T[1], e, pos)
    if k in ("rec", "tup"):
        if k == "rec":
            return {key: _num_item(t, e[key], pos) for key, t in T[1]}
        return tuple(_num_item(t, e[i], pos) for i, t in enumerate(T[1]))
    if k in ("var", "reg"):
        if pos == 1:
            return len(e)
        return [_num_item(_child(T), x, pos - 1) for x in e]
    raise RefError("axis exceeds depth")


def local_index(T, tvs, axis):
    pos = _axis_pos(T, axis)
    if pos == 0:
        return list(range(len(tvs)))
    return [_local_item(T, e, pos) for e in tvs]


def _local_item(T, e, pos):
    if isinstance(e, U):
        raise Skip("union")
    k = T[0]
    if k == "opt":
        if e is None:
            return None
        return _local_item(T[1], e, pos)
    if k in ("rec", "tup"):
        if k == "rec":
            return {key: _local_item(t, e[key], pos) for key, t in T[1]}
        return tuple(_local_item(t, e[i], pos) for i, t in enumerate(T[1]))
    if k in ("var", "reg"):
        if pos == 1:
            return list(range(len(e)))
        return [_local_item(_child(T), x, pos - 1) for x in e]
    raise RefError("axis exceeds depth")


def flatten(T, tvs, axis):
    """flatten(axis>=1): splice the lists at that level into their parents; a missing list contributes
    nothing.  axis=0: drop top-level None."""
    if _has_kind(T, ("union",)) and array_depth(T)[0] != array_depth(T)[1] and axis > 0 and len(tvs) == 0:
        raise Skip("empty array of a union whose branches differ in depth: legality of the axis is not decidable from the data")
    pos = _axis_pos(T, axis)
    if pos == 0:
        if T[0] == "opt":
            return strip([e for e in tvs if e is not None])
        return strip(list(tvs))
    return strip(_flatten_list(T, tvs, pos))


def _flatten_list(T, items, pos):
    """items is a list whose elements have type T; flatten the level pos below (pos=1: the elements
    themselves are the lists to splice)."""
    inner, isopt = item_types(T)
    if isinstance(items, U) or any(isinstance(e, U) for e in items):
        raise Skip("union")
    if inner[0] in ("rec", "tup"):
        raise Skip("flatten through records")
    if inner[0] not in ("var", "reg"):
        raise RefError("axis exceeds depth")
    if pos == 1:
        out = []
        for e in items:
            if e is None:
                continue
            out.extend(e)
        return out
    out = []
    for e in items:
        if e is None:
            out.append(None)
        else:
            out.append(_flatten_list(_child(inner), e, pos - 1))
    return out


def flatten_all(T, tvs):
    out = []

    def rec(T, v):
        if isinstance(v, U):
            T, v = unwrap_union(T, v)
        k = T[0]
        if k == "opt":
            if v is not None:
                rec(T[1], v)
        elif k in ("var", "reg"):
            for e in v:
                rec(_child(T), e)
        elif k == "rec":
            for key, t in T[1]:
                rec(t, v[key])
        elif k == "tup":
            for i, t in enumerate(T[1]):
                rec(t, v[i])
        else:
            out.append(v)
    for e in tvs:
        rec(T, e)
    return out


###################################################################### C03: reducers

INT64_MAX = 2 ** 63 - 1
INT64_MIN = -2 ** 63


def _leaf_kind(T):
    k = T[0]
    if k == "opt":
        return _leaf_kind(T[1])
    if k in ("var",):
        return _leaf_kind(T[1])
    if k == "reg":
        return _leaf_kind(T[2])
    return k


def _reduce_leaves(name, pairs, kind, mask):
    """pairs: list of (position, value) of non-missing leaves; returns the list of acceptable results."""
    vals = [v for _, v in pairs]
    if not vals and mask:
        return [None]
    if name == "count":
        return [len(vals)]
    if name == "count_nonzero":
        return [sum(1 for v in vals if v != 0)]
    if name == "any":
        return [any(bool(v) for v in vals)]
    if name == "all":
        return [all(bool(v) for v in vals)]
    if name == "sum":
        if kind == "float":
            return [float(sum(vals))]
        return [int(sum(int(v) for v in vals))]
    if name == "prod":
        out = 1
        for v in vals:
            out = out * (int(v) if kind != "float" else v)
        return [float(out) if kind == "float" else _wrap64(out)]
    if name in ("min", "max"):
        if not vals:
            if mask:
                return [None]
            if kind == "float":
                return [math.inf if name == "min" else -math.inf]
            if kind == "bool":
                return [True if name == "min" else False]
            return [INT64_MAX if name == "min" else INT64_MIN]
        if kind == "float" and any(math.isnan(v) for v in vals):
            return [math.nan, ("any",)]
        return [min(vals) if name == "min" else max(vals)]
    if name in ("argmin", "argmax"):
        if not vals:
            return [None if mask else -1]
        if kind == "float" and any(math.isnan(v) for v in vals):
            return [("any",)]
        best = None
        for gpos, (pos, v) in enumerate(pairs):
            if best is None or (v < best[1] if name == "argmin" else v > best[1]):
                best = (pos, v, gpos)
        # "position within the group": the index along the reduced axis (NumPy's meaning; positions of
        # missing leaves count).  Where lists that do not reach this column or missing lists precede the
        # element, the statement admits the position among the group's own elements as well (DESIGN 7).
        return [best[0]] if best[0] == best[2] else [best[0], best[2]]
    raise ValueError(name)


def _wrap64(x):
    x &= (1 << 64) - 1
    if x >= 1 << 63:
        x -= 1 << 64
    return x


class Alt(object):
    """A set of acceptable results at one position (ambiguity rule, DESIGN.md 7)."""

    def __init__(self, options):
        self.options = options

    def __repr__(self):
        return "Alt(%r)" % (self.options,)


def reduce(T, tvs, name, axis, mask, keepdims):
    """Returns the expected logical value; positions where several answers are admitted hold Alt."""
    lo, hi = array_depth(T)
    if lo != hi:
        if axis >= 0:
            raise RefError("non-negative axis on branching depth")
        raise Skip("reducers on branching depth")
    D = lo
    pos = axis if axis >= 0 else axis + D
    if not 0 <= pos < D:
        raise RefError("axis out of range")
    if _has_string(T):
        raise Skip("reducers over strings")
    return _reduce_at(T, [(i, e) for i, e in enumerate(tvs)], pos, name, mask, keepdims, top=True)


def _has_string(T):
    k = T[0]
    if k in ("str", "bytes"):
        return True
    if k in ("var", "opt"):
        return _has_string(T[1])
    if k == "reg":
        return _has_string(T[2])
    if k == "rec":
        return any(_has_string(t) for _, t in T[1])
    if k in ("tup", "union"):
        return any(_has_string(t) for t in T[1])
    return False


def _reduce_at(T, pairs, pos, name, mask, keepdims, top=False):
    """pairs: [(position along this list, element)] of one list whose elements have type T."""
    if pos == 0:
        r = _reduce_axis0(T, pairs, name, mask, keepdims, missing_rows=False)
        return r
    inner, isopt = item_types(T)
    if inner[0] not in ("var", "reg"):
        if inner[0] in ("rec", "tup"):
            raise Skip("reducing below records")
        raise RefError("axis exceeds depth")
    out = []
    for _, e in pairs:
        if e is None:
            out.append(None)
        else:
            out.append(_reduce_at(_child(inner), list(enumerate(e)), pos - 1, name, mask, keepdims))
    return out


def _reduce_axis0(T, pairs, name, mask, keepdims, missing_rows):
    """Column-wise reduction of the list given by pairs (position, element)."""
    if any(isinstance(e, U) for _, e in pairs) or T[0] == "union":
        raise Skip("union")
    inner, isopt = item_types(T)
    had_missing = any(e is None for _, e in pairs)
    present = [(p, e) for p, e in pairs if e is not None]
    k = inner[0]
    if k in ("int", "float", "bool"):
        opts = _reduce_leaves(name, present, k, mask)
        if name in ("argmin", "argmax") and missing_rows and present:
            # positions may or may not count missing *lists* (ambiguity rule); missing leaves always count
            pass
        res = opts[0] if len(opts) == 1 and not isinstance(opts[0], tuple) else Alt(opts)
        return [res] if keepdims else res
    if k == "unknown":
        raise Skip("reducing unknown type")
    if k in ("rec", "tup"):
        raise Skip("reducing records")
    if k in ("var", "reg"):
        if k == "reg":
            maxlen = inner[1]
        else:
            maxlen = max([len(e) for _, e in present] + [0])
        cols = []
        for j in range(maxlen):
            col = [(p, e[j]) for p, e in present if j < len(e)]
            if name in ("argmin", "argmax") and had_missing:
                # both conventions for missing lists: renumber rows without the missing ones
                renum = {p: i for i, (p, _) in enumerate(present)}
                a = _reduce_axis0(_child(inner), col, name, mask, False, True)
                b = _reduce_axis0(_child(inner), [(renum[p], x) for p, x in col], name, mask, False, True)
                r = _merge_alt(a, b)
            else:
                r = _reduce_axis0(_child(inner), col, name, mask, False, missing_rows)
            cols.append(r)
        return [cols] if keepdims else cols
    raise Skip("reduce over %r" % (k,))


def _merge_alt(a, b):
    if isinstance(a, list) and isinstance(b, list) and len(a) == len(b):
        return [_merge_alt(x, y) for x, y in zip(a, b)]
    oa = a.options if isinstance(a, Alt) else [a]
    ob = b.options if isinstance(b, Alt) else [b]
    opts = list(oa)
    for o in ob:
        if not any(_eq(o, p) for p in opts):
            opts.append(o)
    return opts[0] if len(opts) == 1 and not isinstance(opts[0], tuple) else Alt(opts)


def _eq(a, b):
    import layoutsem
    if isinstance(a, tuple) or isinstance(b, tuple):
        return a == b
    return layoutsem.same(a, b)


class _NoneDeep(object):
    def __repr__(self):
        return "None(or lists of None)"


NONE_DEEP = _NoneDeep()


def _only_none(v):
    if v is None:
        return True
    return isinstance(v, list) and all(_only_none(x) for x in v)


def matches(expected, got):
    """Compare an expected value that may contain Alt nodes with an observed logical value."""
    import layoutsem
    if expected is NONE_DEEP:
        return _only_none(got)
    if isinstance(expected, Alt):
        for o in expected.options:
            if isinstance(o, tuple) and o == ("any",):
                return True
            if layoutsem.same(o, got):
                return True
        return False
    if isinstance(expected, list):
        return isinstance(got, list) and len(got) == len(expected) and all(matches(e, g) for e, g in zip(expected, got))
    if isinstance(expected, dict):
        return (isinstance(got, dict) and list(got.keys()) == list(expected.keys())
                and all(matches(expected[k], got[k]) for k in expected))
    if isinstance(expected, tuple):
        return isinstance(got, tuple) and len(got) == len(expected) and all(matches(e, g) for e, g in zip(expected, got))
    return layoutsem.same(expected, got)


###################################################################### C06: sort / argsort

def _sort_key(kind, v):
    return v


def sort_column(pairs, kind, ascending):
    """pairs: (position, value-or-None).  Returns (sorted values, list of acceptable position lists)."""
    present = [(p, v) for p, v in pairs if v is not None]
    missing = [(p, v) for p, v in pairs if v is None]
    nans = [(p, v) for p, v in present if isinstance(v, float) and math.isnan(v)]
    rest = [(p, v) for p, v in present if not (isinstance(v, float) and math.isnan(v))]
    rest_sorted = sorted(rest, key=lambda pv: pv[1], reverse=not ascending)  # stable
    values = [v for _, v in nans] + [v for _, v in rest_sorted] + [None] * len(missing)
    return values, nans, rest_sorted, missing


def sort(T, tvs, axis, ascending, stable, arg=False):
    lo, hi = array_depth(T)
    if lo != hi:
        if axis >= 0:
            raise RefError("non-negative axis on branching depth")
        raise Skip("sort on branching depth")
    D = lo
    pos = axis if axis >= 0 else axis + D
    if not 0 <= pos < D:
        raise RefError("axis out of range")
    return _sort_at(T, list(tvs), pos, ascending, stable, arg)


def _sort_at(T, lst, pos, ascending, stable, arg):
    inner, isopt = item_types(T)
    if any(isinstance(e, U) for e in lst) or T[0] == "union":
        raise Skip("union")
    if pos == 0:
        return _sort_axis0(T, lst, ascending, stable, arg)
    if inner[0] not in ("var", "reg"):
        if inner[0] in ("rec", "tup"):
            raise Skip("sort below records")
        if inner[0] in ("str", "bytes"):
            raise Skip("sort characters of strings")
        raise RefError("axis exceeds depth")
    out = []
    for e in lst:
        if e is None:
            out.append(None)
        else:
            out.append(_sort_at(_child(inner), e, pos - 1, ascending, stable, arg))
    return out


def _sort_axis0(T, lst, ascending, stable, arg):
    """Sort the list itself if its elements are leaves (or strings); column-wise if they are lists."""
    inner, isopt = item_types(T)
    k = inner[0]
    if k in ("int", "float", "bool", "str", "bytes"):
        pairs = list(enumerate(lst))
        if k in ("str", "bytes"):
            keyed = [(p, None if v is None else (v.encode("utf-8", "surrogateescape") if isinstance(v, str) else v)) for p, v in pairs]
            values, nans, rest_sorted, missing = sort_column(keyed, k, ascending)
            back = {p: v for p, v in pairs}
            if not arg:
                return [back[p] for p, _ in nans] + [back[p] for p, _ in rest_sorted] + [None] * len(missing)
        else:
            values, nans, rest_sorted, missing = sort_column(pairs, k, ascending)
        if not arg:
            return values
        return ArgSorted(pairs if k not in ("str", "bytes") else keyed, ascending, stable)
    if k in ("var", "reg"):
        raise Skip("column-wise (non-innermost axis) sort: only checked differentially")
    if k in ("rec", "tup"):
        raise Skip("sort records")
    raise Skip("sort " + k)


class ArgSorted(object):
    """Oracle for argsort of one list: any permutation that realises the sorted order (NaN first, None
    last), and with stable=True equal keys keep increasing positions."""

    def __init__(self, pairs, ascending, stable):
        self.pairs = pairs
        self.ascending = ascending
        self.stable = stable

    def __repr__(self):
        return "ArgSorted(of=%r, ascending=%r, stable=%r)" % ([v for _, v in self.pairs], self.ascending, self.stable)

    def check(self, got):
        vals = dict(self.pairs)
        n = len(self.pairs)
        if not isinstance(got, list) or len(got) != n:
            return False
        if sorted(x for x in got if isinstance(x, int)) != list(range(n)) or len(set(got)) != n:
            return False
        seq = [vals[p] for p in got]
        want, nans, rest_sorted, missing = sort_column(self.pairs, None, self.ascending)
        import layoutsem
        if not layoutsem.same(seq, want):
            return False
        if self.stable:
            for a, b in zip(got, got[1:]):
                va, vb = vals[a], vals[b]
                if va is not None and vb is not None and not _isnan(va) and not _isnan(vb) and va == vb and a > b:
                    return False
        return True


def _isnan(v):
    return isinstance(v, float) and math.isnan(v)


def matches_sorted(expected, got):
    if isinstance(expected, ArgSorted):
        return expected.check(got)
    if isinstance(expected, list):
        return isinstance(got, list) and len(got) == len(expected) and all(matches_sorted(e, g) for e, g in zip(expected, got))
    import layoutsem
    return layoutsem.same(expected, got)


###################################################################### C07: combinations

def combinations(T, tvs, n, replacement, axis, keys=None):
    if n < 1:
        raise RefError("n must be positive")
    if keys is not None and len(keys) != n:
        raise RefError("keys length")
    pos = _axis_pos(T, axis)
    f = itertools.combinations_with_replacement if replacement else itertools.combinations

    def tuples(lst):
        out = []
        for combo in f(lst, n):
            combo = tuple(strip(x) for x in combo)
            out.append(dict(zip(keys, combo)) if keys is not None else combo)
        return out
    if pos == 0:
        return tuples(tvs)
    return [_comb_item(T, e, pos, tuples) for e in tvs]


def _comb_item(T, e, pos, tuples):
    if isinstance(e, U):
        raise Skip("union")
    k = T[0]
    if k == "opt":
        if e is None:
            return None
        return _comb_item(T[1], e, pos, tuples)
    if k in ("rec", "tup"):
        raise Skip("combinations below records")
    if k in ("var", "reg"):
        if pos == 1:
            return tuples(e)
        return [_comb_item(_child(T), x, pos - 1, tuples) for x in e]
    if k in ("str", "bytes"):
        raise Skip("combinations of characters")
    raise RefError("axis exceeds depth")


###################################################################### C09: rpad / fillna

def rpad(T, tvs, target, axis, clip):
    pos = _axis_pos(T, axis)

    def pad(lst):
        out = list(lst)
        if clip:
            out = out[:target]
        return out + [None] * max(0, target - len(out))
    if pos == 0:
        return strip(pad(tvs))
    return strip([_rpad_item(T, e, pos, pad) for e in tvs])


def _rpad_item(T, e, pos, pad):
    if isinstance(e, U):
        raise Skip("union")
    k = T[0]
    if k == "opt":
        if e is None:
            return None
        return _rpad_item(T[1], e, pos, pad)
    if k in ("rec", "tup"):
        if k == "rec":
            return {key: _rpad_item(t, e[key], pos, pad) for key, t in T[1]}
        return tuple(_rpad_item(t, e[i], pos, pad) for i, t in enumerate(T[1]))
    if k in ("var", "reg"):
        if pos == 1:
            return pad(e)
        return [_rpad_item(_child(T), x, pos - 1, pad) for x in e]
    if k in ("str", "bytes"):
        raise Skip("padding the characters of a string")
    raise RefError("axis exceeds depth")


def fillna(T, tvs, value):
    """Content::fillna at layout level: lists and records pass the request on to their contents; the
    first option-type node reached on each path replaces its own None values and does not look deeper
    (ak.fill_none(axis=...) in the Python layer chooses the level)."""
    def rec(T, v):
        if isinstance(v, U):
            return rec(T[1][v.tag], v.v)
        k = T[0]
        if k == "opt":
            return value if v is None else strip(v)
        if k in ("var", "reg"):
            Tc = T[1] if k == "var" else T[2]
            return [rec(Tc, x) for x in v]
        if k == "rec":
            return {key: rec(t, v[key]) for key, t in T[1]}
        if k == "tup":
            return tuple(rec(t, v[i]) for i, t in enumerate(T[1]))
        return v
    return [rec(T, e) for e in tvs]


###################################################################### C04: broadcasting (NumPy-right / tree-left)

class BList(object):
    """One list level of a broadcasting operand: elements, and whether the level is regular (its size then
    belongs to the type)."""
    __slots__ = ("items", "regular", "allreg", "_depth")

    def __init__(self, items, regular, allreg, depth):
        self.items = items          # elements: BList | leaf | None
        self.regular = regular      # this level is regular-sized
        self.allreg = allreg        # this level and every level below it are regular
        self._depth = depth         # number of list levels from here down (from the type, so that empty lists know it)

    def depth(self):
        return self._depth


def _allreg_type(T):
    k = T[0]
    if k == "opt":
        return _allreg_type(T[1])
    if k == "var":
        return False
    if k == "reg":
        return _allreg_type(T[2])
    if k in ("str", "bytes", "rec", "tup", "union"):
        return False
    return True


def _type_depth(T):
    k = T[0]
    if k == "opt":
        return _type_depth(T[1])
    if k == "var":
        return 1 + _type_depth(T[1])
    if k == "reg":
        return 1 + _type_depth(T[2])
    return 0


def to_blist(T, v):
    """Typed value -> broadcasting structure (options become None / transparent)."""
    if isinstance(v, U):
        raise Skip("union operand")
    k = T[0]
    if k == "opt":
        if v is None:
            return None
        return to_blist(T[1], v)
    if k == "var":
        return BList([to_blist(T[1], e) for e in v], False, False, 1 + _type_depth(T[1]))
    if k == "reg":
        return BList([to_blist(T[2], e) for e in v], True, _allreg_type(T[2]), 1 + _type_depth(T[2]))
    if k in ("int", "float", "bool"):
        return v
    raise Skip("broadcasting %s" % k)


def array_to_blist(T, tvs):
    """The array itself is a regular dimension of its own length (broadcast_pack wraps it that way)."""
    return BList([to_blist(T, e) for e in tvs], True, _allreg_type(T), 1 + _type_depth(T))


def numpy_to_blist(arr):
    if arr.ndim == 0:
        return arr.item()
    return BList([numpy_to_blist(x) for x in arr], True, True, arr.ndim)


def broadcast_apply(f, operands):
    """operands: leaf scalars or BList; returns the nested-list result, raising RefError on a length
    mismatch."""
    if any(x is None for x in operands):
        # "a missing value in any argument gives a missing result there": the library puts the None at this
        # position when the other operands' lists here are variable-length and spreads it over the leaves of
        # regular ones; the statement admits both
        return NONE_DEEP
    lists = [x for x in operands if isinstance(x, BList)]
    if not lists:
        out = f(*operands)
        return out.item() if hasattr(out, "item") else out
    if all(x.allreg for x in lists):
        # NumPy rule: align dimensions to the right by giving shallower operands leading length-1 dimensions
        maxd = max(x.depth() for x in lists)
        ops = []
        for x in operands:
            if isinstance(x, BList):
                while x.depth() < maxd:
                    x = BList([x], True, True, x.depth() + 1)
            ops.append(x)
        operands = ops
        lists = [x for x in operands if isinstance(x, BList)]
    target = None
    for x in lists:
        n = len(x.items)
        if x.regular and n == 1:
            continue
        if target is None:
            target = n
        elif target != n:
            raise RefError("cannot broadcast lists of lengths %d and %d" % (target, n))
    if target is None:
        target = 1
    if target == 0 and any(x.regular and len(x.items) == 1 for x in lists):
        raise Skip("length-1 dimension against a length-0 dimension")
    out = []
    for i in range(target):
        sub = []
        for x in operands:
            if isinstance(x, BList):
                sub.append(x.items[0] if (x.regular and len(x.items) == 1 and target != 1) else x.items[i])
            else:
                sub.append(x)
        out.append(broadcast_apply(f, sub))
    return out
