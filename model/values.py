"""The bounded universe of typed logical values (DESIGN.md section 4).

Generation types (gtypes):
  ("int",) ("float",) ("bool",) ("str",) ("bytes",) ("unknown",)
  ("var", T) ("reg", k, T) ("opt", T) ("rec", ((key, T), ...), name|None) ("tup", (T, ...)) ("union", (T, ...))

A typed value ("tv") of T:
  leaf: Python scalar / str / bytes;  var/reg: list of tvs;  opt: None or tv;  rec: dict;  tup: tuple;
  union: U(tag, tv).
An *array* is (T, [tv, ...]).  ``strip`` removes the union tags and gives the logical value.
"""
import itertools


class U(object):
    """A union-typed value: which branch, and the branch's typed value."""
    __slots__ = ("tag", "v")

    def __init__(self, tag, v):
        self.tag = tag
        self.v = v

    def __repr__(self):
        return "U(%d, %r)" % (self.tag, self.v)

    def __eq__(self, other):
        return isinstance(other, U) and other.tag == self.tag and other.v == self.v

    def __hash__(self):
        return hash((self.tag, repr(self.v)))


class Leaf(object):
    """Placeholder for a leaf before labelling."""
    __slots__ = ("kind",)

    def __init__(self, kind):
        self.kind = kind

    def __repr__(self):
        return "<%s>" % self.kind


def strip(tv):
    if isinstance(tv, U):
        return strip(tv.v)
    if isinstance(tv, list):
        return [strip(x) for x in tv]
    if isinstance(tv, tuple):
        return tuple(strip(x) for x in tv)
    if isinstance(tv, dict):
        return {k: strip(v) for k, v in tv.items()}
    return tv


def shapes(T, M):
    """All values of type T with inner list lengths <= M, leaves as placeholders."""
    k = T[0]
    if k in ("int", "float", "bool", "str", "bytes"):
        return [Leaf(k)]
    if k == "unknown":
        return []
    if k == "var":
        inner = shapes(T[1], M)
        out = []
        for n in range(0, M + 1):
            for combo in itertools.product(inner, repeat=n):
                out.append(list(combo))
        return out
    if k == "reg":
        inner = shapes(T[2], M)
        return [list(combo) for combo in itertools.product(inner, repeat=T[1])]
    if k == "opt":
        return [None] + shapes(T[1], M)
    if k == "rec":
        cols = [shapes(t, M) for _, t in T[1]]
        return [dict(zip([key for key, _ in T[1]], combo)) for combo in itertools.product(*cols)]
    if k == "tup":
        cols = [shapes(t, M) for t in T[1]]
        return [tuple(combo) for combo in itertools.product(*cols)]
    if k == "union":
        out = []
        for tag, t in enumerate(T[1]):
            out.extend(U(tag, v) for v in shapes(t, M))
        return out
    raise ValueError(T)


_STRS = ["a", "bc", "", "d", "ef", "G", "hi", "é", "jk", "l"]


def default_label(kind, k):
    if kind == "int":
        return k
    if kind == "float":
        return k + 0.5
    if kind == "bool":
        return k % 2 == 0
    if kind == "str":
        return _STRS[k % len(_STRS)] if k < len(_STRS) else "s%d" % k
    if kind == "bytes":
        s = _STRS[k % len(_STRS)] if k < len(_STRS) else "s%d" % k
        return s.encode("utf-8")
    raise ValueError(kind)


def label(tv, labeler=default_label, counter=None):
    """Replace placeholders by distinct labels in depth-first order."""
    if counter is None:
        counter = [0]
    if isinstance(tv, Leaf):
        v = labeler(tv.kind, counter[0])
        counter[0] += 1
        return v
    if isinstance(tv, U):
        return U(tv.tag, label(tv.v, labeler, counter))
    if isinstance(tv, list):
        return [label(x, labeler, counter) for x in tv]
    if isinstance(tv, tuple):
        return tuple(label(x, labeler, counter) for x in tv)
    if isinstance(tv, dict):
        return {k: label(v, labeler, counter) for k, v in tv.items()}
    return tv


def count_leaves(tv):
    if isinstance(tv, Leaf):
        return 1
    if isinstance(tv, U):
        return count_leaves(tv.v)
    if isinstance(tv, (list, tuple)):
        return sum(count_leaves(x) for x in tv)
    if isinstance(tv, dict):
        return sum(count_leaves(v) for v in tv.values())
    return 0


def arrays(T, N, M, K=None, labeler=default_label, minlen=0):
    """All arrays (lists of length minlen..N of items of type T), labelled; K caps the number of leaves."""
    items = shapes(T, M)
    for n in range(minlen, N + 1):
        if n > 0 and not items:
            break
        for combo in itertools.product(items, repeat=n):
            if K is not None and sum(count_leaves(x) for x in combo) > K:
                continue
            yield label(list(combo), labeler)


def junk(T, counter):
    """A small non-trivial typed value of T with labels >= 900, used for unreachable buffer regions."""
    k = T[0]
    if k in ("int", "float", "bool", "str", "bytes"):
        counter[0] += 1
        n = 900 + counter[0]
        if k == "int":
            return n
        if k == "float":
            return n + 0.25
        if k == "bool":
            return True
        if k == "str":
            return "Z%d" % n
        return ("Z%d" % n).encode()
    if k == "unknown":
        raise ValueError("no junk of unknown type")
    if k == "var":
        if T[1][0] == "unknown":
            return []
        return [junk(T[1], counter)]
    if k == "reg":
        return [junk(T[2], counter) for _ in range(T[1])]
    if k == "opt":
        return junk(T[1], counter)
    if k == "rec":
        return {key: junk(t, counter) for key, t in T[1]}
    if k == "tup":
        return tuple(junk(t, counter) for t in T[1])
    if k == "union":
        for tag, t in enumerate(T[1]):
            if not has_unknown_item(t):
                return U(tag, junk(t, counter))
        return U(0, junk(T[1][0], counter))
    raise ValueError(T)


def has_unknown_item(T):
    return T[0] == "unknown"


def can_junk(T):
    k = T[0]
    if k == "unknown":
        return False
    if k in ("var",):
        return True
    if k == "reg":
        return T[1] == 0 or can_junk(T[2])
    if k == "opt":
        return can_junk(T[1])
    if k == "rec":
        return all(can_junk(t) for _, t in T[1])
    if k == "tup":
        return all(can_junk(t) for t in T[1])
    if k == "union":
        return any(can_junk(t) for t in T[1])
    return True


def depth(T):
    """Number of list levels below (and including) an array whose items have type T is 1 + depth(T);
    returns (min, max) over record/union branches; strings are leaves."""
    k = T[0]
    if k in ("int", "float", "bool", "unknown", "str", "bytes"):
        # strings are leaves for axis counting (purelist_depth treats a string list as depth 1... of its own)
        return (0, 0)
    if k == "var":
        a, b = depth(T[1])
        return (a + 1, b + 1)
    if k == "reg":
        a, b = depth(T[2])
        return (a + 1, b + 1)
    if k == "opt":
        return depth(T[1])
    if k in ("rec", "tup", "union"):
        ts = [t for _, t in T[1]] if k == "rec" else list(T[1])
        if not ts:
            return (0, 0)
        ds = [depth(t) for t in ts]
        return (min(d[0] for d in ds), max(d[1] for d in ds))
    raise ValueError(T)


def tstr(T):
    k = T[0]
    if k in ("int", "float", "bool", "str", "bytes", "unknown"):
        return k
    if k == "var":
        return "var*" + tstr(T[1])
    if k == "reg":
        return "%d*%s" % (T[1], tstr(T[2]))
    if k == "opt":
        return "?" + tstr(T[1])
    if k == "rec":
        return "{" + ",".join("%s:%s" % (key, tstr(t)) for key, t in T[1]) + "}"
    if k == "tup":
        return "(" + ",".join(tstr(t) for t in T[1]) + ")"
    if k == "union":
        return "union[" + ",".join(tstr(t) for t in T[1]) + "]"
    raise ValueError(T)


I, F, B, S, BY, UNK = ("int",), ("float",), ("bool",), ("str",), ("bytes",), ("unknown",)


def var(t):
    return ("var", t)


def reg(k, t):
    return ("reg", k, t)


def opt(t):
    return ("opt", t)


def rec(*fields, **kw):
    return ("rec", tuple(fields), kw.get("name"))


def tup(*ts):
    return ("tup", tuple(ts))


def union(*ts):
    return ("union", tuple(ts))


# the standard type menus, simplest first
TYPES_QUICK = [
    I,
    var(I),
    opt(I),
    var(var(I)),
    reg(2, I),
    var(opt(I)),
    opt(var(I)),
    rec(("x", I), ("y", var(I))),
    var(rec(("x", I), ("y", F))),
    union(I, var(I)),
    S,
    var(S),
    var(reg(2, I)),
    reg(2, var(I)),
    tup(I, var(F)),
    opt(var(opt(I))),
    var(UNK),
    reg(0, I),
    var(union(I, S)),
    opt(rec(("x", I))),
    BY,
    rec(),
]

TYPES_THOROUGH = TYPES_QUICK + [
    var(var(var(I))),
    var(opt(var(I))),
    opt(var(var(I))),
    var(var(opt(I))),
    reg(3, I),
    reg(1, var(I)),
    reg(2, reg(2, I)),
    var(reg(0, I)),
    rec(("x", var(I)), ("y", var(var(F)))),
    var(rec(("x", opt(I)), ("y", var(I)))),
    union(var(I), var(var(I))),
    union(rec(("x", I)), rec(("y", F))),
    var(opt(S)),
    opt(S),
    var(tup(I, I)),
    union(opt(I), S) if False else union(I, S),
    var(opt(rec(("x", I), ("y", var(I))))),
    F,
    B,
    var(B),
]


###################################################################### JSON form (replay files)

def tv_to_json(tv):
    if isinstance(tv, U):
        return {"__U__": tv.tag, "v": tv_to_json(tv.v)}
    if isinstance(tv, list):
        return [tv_to_json(x) for x in tv]
    if isinstance(tv, tuple):
        return {"__tup__": [tv_to_json(x) for x in tv]}
    if isinstance(tv, dict):
        return {"__rec__": [[k, tv_to_json(v)] for k, v in tv.items()]}
    if isinstance(tv, bytes):
        return {"__bytes__": tv.hex()}
    if isinstance(tv, float):
        return {"__float__": repr(tv)}
    return tv


def tv_from_json(j):
    if isinstance(j, list):
        return [tv_from_json(x) for x in j]
    if isinstance(j, dict):
        if "__U__" in j:
            return U(j["__U__"], tv_from_json(j["v"]))
        if "__tup__" in j:
            return tuple(tv_from_json(x) for x in j["__tup__"])
        if "__rec__" in j:
            return {k: tv_from_json(v) for k, v in j["__rec__"]}
        if "__bytes__" in j:
            return bytes.fromhex(j["__bytes__"])
        if "__float__" in j:
            return float(j["__float__"])
    return j


def type_to_json(T):
    return [type_to_json(x) if isinstance(x, tuple) else x for x in T]


def type_from_json(j):
    return tuple(type_from_json(x) if isinstance(x, list) else x for x in j)


def long_option_values(ns=(9, 17)):
    """Option-type int arrays long enough for multi-byte bit masks: for each length n, every single-None and every
    single-valid pattern, the two alternating patterns, all valid and all None (labels = positions)."""
    out = []
    for n in ns:
        pats = []
        for i in range(n):
            pats.append([j != i for j in range(n)])
            pats.append([j == i for j in range(n)])
        pats.append([j % 2 == 0 for j in range(n)])
        pats.append([j % 2 == 1 for j in range(n)])
        pats.append([True] * n)
        pats.append([False] * n)
        for p in pats:
            out.append([j if ok else None for j, ok in enumerate(p)])
    return out


def long_option_list_values():
    """var * ?int arrays whose option node spans more than one mask byte, with rows of unequal length."""
    out = []
    for rows in ((3, 0, 7), (9, 1), (1, 8, 2)):
        n = sum(rows)
        for pat in ([j % 3 != 1 for j in range(n)], [j not in (7, 8) for j in range(n)], [j in (7, 8, 9) for j in range(n)]):
            flat = [j if ok else None for j, ok in enumerate(pat)]
            arr, k = [], 0
            for r in rows:
                arr.append(flat[k:k + r])
                k += r
            out.append(arr)
    return out


def long_sort_values(sizes=(17, 24, 33)):
    """(leaf kind, array) pairs with one list long enough to leave the small-input paths of the sorting routines
    (insertion-sort thresholds at 16, median-of-three pivots): NaN at structured positions, ties, monotone runs."""
    import math
    out = []
    for n in sizes:
        base = [float((i * 7) % n) for i in range(n)]
        pats = [
            [math.nan] * n,
            [math.nan if i % 2 == 0 else base[i] for i in range(n)],
            [math.nan if i % 3 == 0 else base[i] for i in range(n)],
            [math.nan if i < n // 2 else base[i] for i in range(n)],
            [math.nan if i >= n // 2 else base[i] for i in range(n)],
            [math.nan if i in (0, n // 2, n - 1) else base[i] for i in range(n)],
            [math.nan if i % 5 != 4 else float(n - i) for i in range(n)],
            [float(n - i) for i in range(n)],
            [float(i // 3) for i in range(n)],
            [math.inf if i % 4 == 0 else (-math.inf if i % 4 == 1 else (math.nan if i % 4 == 2 else 0.5)) for i in range(n)],
        ]
        for p in pats:
            out.append(("float", [[2.5, math.nan], p, []]))
        ipats = [[n - i for i in range(n)], [i for i in range(n)], [3] * n, [(i * 5) % 7 - 3 for i in range(n)],
                 [(-1) ** i * i for i in range(n)]]
        for p in ipats:
            out.append(("int", [[1, 0], p, []]))
    return out
