#include "rapidjson/rapidjson.h"
