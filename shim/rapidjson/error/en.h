#include "rapidjson/rapidjson.h"
namespace rapidjson { inline const char* GetParseError_En(ParseErrorCode) { return "parse error"; } }
