#include "rapidjson/rapidjson.h"
