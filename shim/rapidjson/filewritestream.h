#include "rapidjson/rapidjson.h"
