#include "rapidjson/rapidjson.h"
